"""Symbolic values of the PyVC executor."""
import itertools
from fractions import Fraction

import z3

_counter = itertools.count()


def fresh_name(base):
    return f"{base}!{next(_counter)}"


INT = z3.IntSort()
REAL = z3.RealSort()
BOOL = z3.BoolSort()
USORT = z3.DeclareSort("U")  # opaque python objects

SORTS = {"int": INT, "real": REAL, "bool": BOOL, "obj": USORT}


def sort_of(name):
    return SORTS[name]


def is_z3(v):
    return isinstance(v, z3.ExprRef)


def is_sym_bool(v):
    return isinstance(v, z3.BoolRef)


def is_num(v):
    return isinstance(v, (int, float, Fraction)) and not isinstance(v, bool) or isinstance(v, z3.ArithRef)


def real_const(x):
    """exact rational for a python float read as its shortest decimal repr (A-REAL)."""
    if isinstance(x, bool):
        raise TypeError
    if isinstance(x, int):
        return z3.RealVal(x)
    if isinstance(x, Fraction):
        return z3.RealVal(str(x))
    if isinstance(x, float):
        if x != x:
            raise ValueError("nan")
        if x in (float("inf"), float("-inf")):
            raise ValueError("inf")
        return z3.RealVal(str(Fraction(repr(x))))
    raise TypeError(type(x))


def to_z3(v, want=None):
    """python scalar / z3 scalar -> z3 scalar (optionally coerced to `want` in {'int','real','bool'})"""
    if isinstance(v, bool):
        r = z3.BoolVal(v)
    elif isinstance(v, int):
        r = z3.IntVal(v)
    elif isinstance(v, (float, Fraction)):
        r = real_const(v)
    elif isinstance(v, z3.ExprRef):
        r = v
    else:
        raise TypeError(f"cannot convert {type(v).__name__} to z3 scalar")
    if want == "real" and r.sort() == INT:
        r = z3.ToReal(r)
    elif want == "real" and r.sort() == BOOL:
        r = z3.If(r, z3.RealVal(1), z3.RealVal(0))
    elif want == "int" and r.sort() == BOOL:
        r = z3.If(r, z3.IntVal(1), z3.IntVal(0))
    elif want == "int" and r.sort() == REAL:
        raise TypeError("real where int expected")
    elif want == "bool" and r.sort() != BOOL:
        r = r != 0
    return r


def kind_of(v):
    """'int' | 'real' | 'bool' for scalars"""
    if isinstance(v, bool):
        return "bool"
    if isinstance(v, int):
        return "int"
    if isinstance(v, (float, Fraction)):
        return "real"
    if isinstance(v, z3.ExprRef):
        s = v.sort()
        if s == INT:
            return "int"
        if s == REAL:
            return "real"
        if s == BOOL:
            return "bool"
        if s == USORT:
            return "obj"
    return None


def is_scalar(v):
    return kind_of(v) in ("int", "real", "bool")


class Unsupported(Exception):
    """construct outside the supported subset: makes the function UNDECIDED, never a violation"""


class Opaque:
    """an uninterpreted python object; attribute reads are deterministic functions of it"""

    def __init__(self, term=None, name="obj", pytype=None):
        self.term = term if term is not None else z3.Const(fresh_name(name), USORT)
        self.pytype = pytype
        self.ghost = {}

    def __repr__(self):
        return f"Opaque({self.term})"


class StrSym:
    """symbolic string drawn from a finite set of literals (index into ctx.strings) or unknown"""

    def __init__(self, term):
        self.term = term  # z3 Int: index in the string table


class Arr:
    """symbolic numpy array.  Mutable holder of an immutable z3 array term; views refer
    to their base and are re-read on every access (numpy view semantics)."""

    def __init__(self, term, shape, kind, name=None, base=None, ghost=None):
        self._term = term
        self.shape = list(shape)
        self.kind = kind  # 'int' | 'real' | 'bool'
        self.name = name or "arr"
        self.base = base  # None | (Arr, mapfn(idx tuple)->base idx tuple)
        self.ghost = dict(ghost or {})
        self.dtype = self.ghost.get("dtype")

    @property
    def rank(self):
        return len(self.shape)

    @property
    def term(self):
        if self.base is not None:
            b, mp = self.base
            idx = [z3.Int(fresh_name("v")) for _ in self.shape]
            return z3.Lambda(idx, b.sel(*mp(tuple(idx))))
        return self._term

    def sel(self, *idx):
        idx = [to_z3(i, "int") for i in idx]
        assert len(idx) == self.rank, (len(idx), self.rank)
        if self.base is not None:
            b, mp = self.base
            return b.sel(*mp(tuple(idx)))
        return z3.Select(self._term, *idx)

    def store(self, idx, val):
        idx = [to_z3(i, "int") for i in idx]
        if self.base is not None:
            b, mp = self.base
            b.store(mp(tuple(idx)), val)
            return
        self._term = z3.Store(self._term, *idx, to_z3(val, self.kind))

    def set_term(self, term):
        if self.base is not None:
            raise Unsupported("bulk store through a view")
        self._term = term

    @staticmethod
    def fresh(name, shape, kind, ghost=None):
        dom = [INT] * len(shape)
        t = z3.Const(fresh_name(name), z3.ArraySort(*dom, sort_of(kind)))
        return Arr(t, shape, kind, name=name, ghost=ghost)

    @staticmethod
    def from_lambda(shape, kind, fn, name="lam", ghost=None):
        idx = [z3.Int(fresh_name("i")) for _ in shape]
        body = to_z3(fn(*idx), kind)
        return Arr(z3.Lambda(idx, body), shape, kind, name=name, ghost=ghost)

    def __repr__(self):
        return f"Arr<{self.kind}>{self.shape}"


class Small:
    """small fixed-shape numpy array held as nested python lists of scalars.
    Inner lists are shared between a Small and its row views (numpy view semantics)."""

    def __init__(self, data, kind=None, ghost=None):
        self.data = data  # nested list
        self.kind = kind
        self.ghost = dict(ghost or {})

    @property
    def shape(self):
        s = []
        d = self.data
        while isinstance(d, list):
            s.append(len(d))
            d = d[0] if d else None
        return tuple(s)

    @property
    def rank(self):
        return len(self.shape)

    def flat(self):
        out = []

        def rec(d):
            if isinstance(d, list):
                for x in d:
                    rec(x)
            else:
                out.append(d)
        rec(self.data)
        return out

    def map(self, fn):
        def rec(d):
            if isinstance(d, list):
                return [rec(x) for x in d]
            return fn(d)
        return Small(rec(self.data), self.kind)

    @staticmethod
    def zip_map(a, b, fn):
        def rec(x, y):
            if isinstance(x, list) and isinstance(y, list):
                if len(x) != len(y):
                    if len(y) == 1:
                        return [rec(xx, y[0]) for xx in x]
                    if len(x) == 1:
                        return [rec(x[0], yy) for yy in y]
                    raise Unsupported("small-array shape mismatch")
                return [rec(xx, yy) for xx, yy in zip(x, y)]
            if isinstance(x, list):
                return [rec(xx, y) for xx in x]
            if isinstance(y, list):
                return [rec(x, yy) for yy in y]
            return fn(x, y)
        da = a.data if isinstance(a, Small) else a
        db = b.data if isinstance(b, Small) else b
        return Small(rec(da, db))

    def copy(self):
        def rec(d):
            if isinstance(d, list):
                return [rec(x) for x in d]
            return d
        return Small(rec(self.data), self.kind, self.ghost)

    def __repr__(self):
        return f"Small{self.shape}"


class Masked:
    """compressed view full[..., mask, ...] along `axis` (see arrmodels)"""

    def __init__(self, full, mask, axis):
        self.full = full
        self.mask = mask
        self.axis = axis

    @property
    def ghost(self):
        return self.full.ghost

    @property
    def kind(self):
        return self.full.kind

    @property
    def rank(self):
        return self.full.rank

    def __repr__(self):
        return f"Masked<{self.full!r} axis={self.axis}>"


class ConstList:
    """python list of n copies of one scalar (n symbolic): [c for _ in range(n)]"""

    def __init__(self, value, n):
        self.value = value
        self.n = n


class Obj:
    """record-like python object (Grid, trees, accessors ...) with symbolic fields"""

    def __init__(self, cls, fields=None, ident=None):
        self.cls = cls
        self.fields = dict(fields or {})
        self.ident = ident if ident is not None else z3.Const(fresh_name(cls), USORT)
        self.ghost = {}

    def __repr__(self):
        return f"Obj<{self.cls}>"


class _Unset:
    def __repr__(self):
        return "<unset>"


UNSET = _Unset()   # a mapping entry whose value has not been materialised yet (None is a legitimate stored value)


class SymDict:
    """python dict / xarray Dataset / attrs: finite universe of literal keys ->
    (present: Bool|bool, value)."""

    def __init__(self, name="dict", entries=None, closed=False, owner=None):
        self.name = name
        self.entries = dict(entries or {})  # key -> [present, value]
        self.closed = closed  # True: keys not in entries are absent; False: unknown (fresh bool on demand)
        self.ghost = {"owner": owner} if owner else {}

    def present(self, key):
        if key in self.entries:
            return self.entries[key][0]
        if self.closed:
            return False
        p = z3.Bool(fresh_name(f"{self.name}.has.{key}"))
        self.entries[key] = [p, UNSET]
        # snapshots (old-state clones) taken before this key was first looked at had the same, still unknown, entry
        for t in self.ghost.get("_twins", ()):
            if key not in t.entries:
                t.entries[key] = [p, UNSET]
        return p

    def materialise(self, key, value):
        """first read of the value under `key`: the same (never yet modified) value was there in every earlier snapshot"""
        p = self.entries[key][0]
        self.entries[key][1] = value
        for t in self.ghost.get("_twins", ()):
            e = t.entries.get(key)
            if e is not None and e[1] is UNSET and (e[0] is p or (isinstance(e[0], bool) and e[0] == p)):
                e[1] = clone(value, {})

    def __repr__(self):
        return f"SymDict<{self.name}>{list(self.entries)}"


class ListMap:
    """dict {i: [..]} for i in range(n) / list of python lists with symbolic lengths:
    len: Int->Int, elems: Int,Int->T.  Used for dict-of-lists idioms."""

    def __init__(self, n, kind="int", name="lm"):
        self.n = n
        self.kind = kind
        self.name = name
        self.len = z3.K(INT, z3.IntVal(0))
        self.elems = z3.Const(fresh_name(name + ".e"), z3.ArraySort(INT, INT, sort_of(kind)))


class FuncRef:
    def __init__(self, info):
        self.info = info


class ModRef:
    def __init__(self, name):
        self.name = name

    def __repr__(self):
        return f"ModRef({self.name})"


class ClassRef:
    def __init__(self, modname, name):
        self.modname = modname
        self.name = name


class BoundMethod:
    def __init__(self, obj, name):
        self.obj = obj
        self.name = name


class Builtin:
    def __init__(self, name, fn):
        self.name = name
        self.fn = fn

    def __repr__(self):
        return f"Builtin({self.name})"


class LambdaVal:
    def __init__(self, node, env):
        self.node = node
        self.env = env


def clone(v, memo):
    """deep copy of a value graph preserving aliasing; z3 terms are immutable and shared"""
    if v is None or isinstance(v, (int, float, str, bool, Fraction, z3.ExprRef, FuncRef, ModRef, ClassRef, Builtin,
                                   LambdaVal, type)):
        return v
    k = id(v)
    if k in memo:
        return memo[k]
    if isinstance(v, list):
        r = []
        memo[k] = r
        r.extend(clone(x, memo) for x in v)
        return r
    if isinstance(v, tuple):
        r = tuple(clone(x, memo) for x in v)
        memo[k] = r
        return r
    if isinstance(v, dict):
        r = {}
        memo[k] = r
        for kk, vv in v.items():
            r[kk] = clone(vv, memo)
        return r
    if isinstance(v, Arr):
        r = Arr(v._term, v.shape, v.kind, v.name, None, v.ghost)
        memo[k] = r
        if v.base is not None:
            r.base = (clone(v.base[0], memo), v.base[1])
        return r
    if isinstance(v, Small):
        r = Small(None, v.kind, v.ghost)
        memo[k] = r
        r.data = clone(v.data, memo)
        return r
    if isinstance(v, Obj):
        r = Obj(v.cls, None, v.ident)
        memo[k] = r
        r.ghost = dict(v.ghost)
        r.fields = {kk: clone(vv, memo) for kk, vv in v.fields.items()}
        return r
    if isinstance(v, SymDict):
        r = SymDict(v.name, None, v.closed)
        memo[k] = r
        r.ghost = {gk: gv for gk, gv in v.ghost.items() if gk != "_twins"}
        v.ghost.setdefault("_twins", []).append(r)
        r.entries = {kk: [vv[0], clone(vv[1], memo)] for kk, vv in v.entries.items()}
        return r
    if isinstance(v, ListMap):
        r = ListMap(v.n, v.kind, v.name)
        r.len, r.elems = v.len, v.elems
        memo[k] = r
        return r
    if isinstance(v, Opaque):
        r = Opaque(v.term, pytype=v.pytype)
        r.ghost = dict(v.ghost)
        memo[k] = r
        return r
    if isinstance(v, BoundMethod):
        r = BoundMethod(clone(v.obj, memo), v.name)
        memo[k] = r
        return r
    if isinstance(v, StrSym):
        return v
    if type(v).__name__ in ("Masked", "RavelView", "DType", "NanTok", "_Unset", "AggFn", "SuperProxy", "ConstList"):
        return v
    if isinstance(v, set):
        return set(v)
    raise TypeError(f"clone: {type(v)}")
