"""Discharging obligations.  unsat of (hyps and not goal) = discharged; sat = failed (with
model); unknown / timeout = undecided (never a violation)."""
import time

import z3

from .values import USORT


def _str_consts(exprs):
    seen = {}
    stack = list(exprs)
    visited = set()
    while stack:
        e = stack.pop()
        if e.get_id() in visited:
            continue
        visited.add(e.get_id())
        if z3.is_const(e) and e.decl().kind() == z3.Z3_OP_UNINTERPRETED and e.sort() == USORT:
            nm = e.decl().name()
            if nm.startswith("str:") or nm.startswith("dtype_") or nm in ("py:None", "py:True", "py:False"):
                seen[nm] = e
        if z3.is_quantifier(e):
            stack.append(e.body())
        else:
            stack.extend(e.children())
    return list(seen.values())


def safe_check(s, timeout_ms, *assumptions):
    """solver.check(); exceptions (resource limit reached, cancelled) count as unknown.  (Interrupting the context from a watchdog
    thread was tried and dropped: it can crash the solver.)"""
    try:
        return s.check(*assumptions)
    except z3.Z3Exception:
        return z3.unknown


def solve_obligation(ob, timeout_ms=10000, seed=0):
    t0 = time.time()
    if ob.static is not None:
        ob.status = "discharged" if ob.static else "failed"
        ob.backend = ob.backend if ob.backend != "z3" else "static"
        ob.reason = "decided at translation time"
        ob.seconds = 0.0
        return ob
    # distinct literals denote distinct objects: every string / dtype constant created in this process (a superset of those in
    # this obligation) plus None / True / False
    from . import engine as _E
    sc = list(_E.STR_CONSTS.values()) + list(_E.DTYPE_CONSTS.values()) + [z3.Const(n, USORT) for n in ("py:None", "py:True", "py:False")]
    # the solver seed is fixed (verdicts must not depend on VERIF_SEED); an `unknown` is retried with other seeds and a
    # doubled budget before the obligation is given up as undecided - nonlinear real goals are sensitive to the seed
    attempts = [(0, timeout_ms)] if "canary" in (ob.kind or "") else [(0, timeout_ms), (7, timeout_ms), (3, timeout_ms), (11, timeout_ms * 2), (5, timeout_ms * 2)]
    import os as _os
    if _os.environ.get("PYVC_FAST"):
        attempts = attempts[:1]          # development aid: one attempt only
    r = z3.unknown
    for (sd, tmo) in attempts:
        s = z3.Solver()
        s.set("timeout", int(tmo))
        # safety net: the wall-clock timeout is not honoured inside some nonlinear procedures, the (deterministic) resource limit is
        s.set("rlimit", int(tmo) * 20000)
        s.set("random_seed", sd)
        for h in ob.hyps:
            s.add(h)
        s.add(z3.Not(ob.goal))
        if len(sc) > 1 and ob.kind != "lemma":
            # (lemmas are generalised to pure polynomial arithmetic: an uninterpreted sort would take them out of the NRA fragment)
            s.add(z3.Distinct(*sc))
        r = safe_check(s, tmo)
        if r != z3.unknown:
            break
    ob.seconds = time.time() - t0
    if r == z3.unsat:
        ob.status = "discharged"
    elif r == z3.sat:
        ob.status = "failed"
        m = s.model()
        # prefer a counter-model with small magnitudes (replayable in float64): purely a search heuristic
        try:
            nice = nice_constraints(getattr(ob, "inputs", {}) or {}, getattr(ob, "sizes", {}))
            if nice:
                s.push()
                s.set("timeout", min(timeout_ms, 4000))
                for c in nice:
                    s.add(c)
                if s.check() == z3.sat:
                    m = s.model()
                s.pop()
        except Exception:
            pass
        ob.model = model_to_dict(m)
        try:
            ob.concrete = concretize(getattr(ob, "inputs", {}) or {}, m, getattr(ob, "sizes", {}))
        except Exception as e:  # concretisation is best effort
            ob.concrete = {"__error__": f"{type(e).__name__}: {e}"}
    else:
        ob.status = "undecided"
        ob.reason = s.reason_unknown()
        # second attempt with a different tactic for nonlinear real goals
        if "timeout" not in ob.reason or timeout_ms >= 5000:
            try:
                t = z3.Then("simplify", "solve-eqs", "nlsat") if False else None
            except Exception:
                t = None
    return ob


def model_to_dict(m):
    out = {}
    for d in m.decls():
        try:
            v = m[d]
            if d.arity() == 0:
                out[d.name()] = str(v)
            else:
                out[d.name()] = str(v)[:300]
        except Exception:
            pass
    return out


def check_consistency(hyps, timeout_ms=3000):
    """vacuity guard: the hypotheses alone must not be unsat"""
    s = z3.Solver()
    s.set("timeout", timeout_ms)
    for h in hyps:
        s.add(h)
    return s.check()


def _num(m, t):
    v = m.eval(t, model_completion=True)
    if z3.is_int_value(v):
        return v.as_long()
    if z3.is_rational_value(v):
        n, d = v.numerator_as_long(), v.denominator_as_long()
        return {"num": str(n), "den": str(d), "float": n / d if d else None}
    if z3.is_true(v):
        return True
    if z3.is_false(v):
        return False
    if z3.is_algebraic_value(v):
        a = v.approx(20)
        return {"float": a.numerator_as_long() / a.denominator_as_long()}
    return str(v)


def concretize(inputs, m, sizes):
    """solver model -> concrete values for every parameter (arrays with every cell given)"""
    from .values import Arr, Small, Opaque, Obj, SymDict
    import itertools as it

    def conv(v):
        if v is None or isinstance(v, (bool, int, str)):
            return v
        if isinstance(v, float):
            return v
        if isinstance(v, z3.ExprRef):
            return _num(m, v)
        if isinstance(v, Small):
            def rec(d):
                if isinstance(d, list):
                    return [rec(x) for x in d]
                return conv(d)
            return {"__small__": rec(v.data)}
        if isinstance(v, Arr):
            shape = []
            for s_ in v.shape:
                sv = _num(m, s_) if isinstance(s_, z3.ExprRef) else s_
                shape.append(int(sv))
            if any(x > 64 or x < 0 for x in shape):
                return {"__arr__": None, "shape": shape, "note": "too large to enumerate"}
            def build(prefix, dims):
                if not dims:
                    return _num(m, v.sel(*prefix))
                return [build(prefix + [i], dims[1:]) for i in range(dims[0])]
            return {"__arr__": build([], shape), "shape": shape, "kind": v.kind}
        if isinstance(v, (list, tuple)):
            return [conv(x) for x in v]
        if isinstance(v, dict):
            return {str(k): conv(x) for k, x in v.items()}
        if isinstance(v, Opaque):
            return {"__opaque__": str(m.eval(v.term, model_completion=True)),
                    "ghost": {k: (conv(x) if isinstance(x, z3.ExprRef) else str(x)) for k, x in v.ghost.items()}}
        if isinstance(v, Obj):
            return {"__obj__": v.cls, "fields": {k: conv(x) for k, x in v.fields.items()}}
        if isinstance(v, SymDict):
            return {"__dict__": {k: [conv(p), conv(x)] for k, (p, x) in v.entries.items()}}
        return str(v)
    out = {k: conv(v) for k, v in inputs.items()}
    out["__sizes__"] = {k: (_num(m, v) if isinstance(v, z3.ExprRef) else v) for k, v in sizes.items()}
    return out


def nice_constraints(inputs, sizes):
    from .values import Arr, Small
    FILLV = -(2 ** 63)
    out = []

    def scal(t):
        if not isinstance(t, z3.ExprRef):
            return
        if t.sort() == z3.RealSort():
            out.append(z3.Or(t == FILLV, z3.And(t >= -7, t <= 7)))
        elif t.sort() == z3.IntSort():
            out.append(z3.Or(t == FILLV, z3.And(t >= -2, t <= 12)))

    def rec(v):
        if isinstance(v, z3.ExprRef):
            scal(v)
        elif isinstance(v, Small):
            for x in v.flat():
                rec(x)
        elif isinstance(v, (list, tuple)):
            for x in v:
                rec(x)
        elif isinstance(v, Arr):
            dims = []
            for d in v.shape:
                if isinstance(d, int):
                    dims.append(d)
                else:
                    return
            import itertools
            if all(d <= 8 for d in dims):
                for idx in itertools.product(*[range(d) for d in dims]):
                    scal(v.sel(*idx))
    for v in inputs.values():
        rec(v)
    for v in sizes.values():
        if isinstance(v, z3.ExprRef):
            out.append(z3.And(v >= 0, v <= 4))
    return out
