"""Syntactic frame obligations for functions that are outside the symbolic subset but whose contract says which state of
`self` (or of a named parameter) they may write: every store / mutating call whose target is rooted at that name must be in
the contract's `writes` list.  Decided statically from the AST of the current /repo source (backend 'frame-scan')."""
import ast

MUTATING = {"append", "extend", "update", "pop", "clear", "insert", "remove", "setdefault", "sort", "fill", "put", "assign_attrs__inplace"}


def _root_path(t):
    """self._ds['x'].attrs['y'] -> ('self', '_ds')  (root name and first attribute)"""
    parts = []
    while isinstance(t, (ast.Attribute, ast.Subscript, ast.Call)):
        if isinstance(t, ast.Attribute):
            parts.append(t.attr)
            t = t.value
        elif isinstance(t, ast.Subscript):
            t = t.value
        else:
            t = t.func
    if isinstance(t, ast.Name):
        parts.append(t.id)
        parts.reverse()
        return parts
    return None


def scan(info, root, allowed):
    """returns list of (kind, text, lineno, ok)"""
    out = []
    for node in ast.walk(ast.Module(body=info.body, type_ignores=[])):
        targets = []
        if isinstance(node, ast.Assign):
            targets = node.targets
        elif isinstance(node, (ast.AugAssign, ast.AnnAssign)):
            targets = [node.target]
        elif isinstance(node, ast.Delete):
            targets = node.targets
        elif isinstance(node, ast.Call) and isinstance(node.func, ast.Attribute) and node.func.attr in MUTATING:
            targets = [node.func.value]
        elif isinstance(node, ast.Call) and isinstance(node.func, ast.Name) and node.func.id == "setattr" and node.args:
            targets = [ast.Attribute(value=node.args[0], attr=str(getattr(node.args[1], "value", "?")), ctx=ast.Store())]
        flat = []
        for t in targets:
            flat.extend(t.elts if isinstance(t, (ast.Tuple, ast.List)) else [t])
        for t in flat:
            if isinstance(t, ast.Name):
                continue  # rebinding a local
            p = _root_path(t)
            if not p or p[0] != root or len(p) < 2:
                continue
            slot = p[1]
            ok = slot in allowed
            out.append(("store", f"{root}.{slot}: {ast.unparse(node)[:80]}", getattr(node, "lineno", 0), ok, slot))
    return out
