"""Sidecar contract registry.

Contracts live in /verif/contracts/*.py and are plain data: clauses are python
expression strings over the function's parameters, `result`, `old(x)`, the quantifier
forms `forall(lo, hi, lambda i: ...)` / `exists(...)`, `implies`, `ite`, `iff`, and the
spec functions of pyvc.specs.  The same clause text is (a) translated to z3 by the
symbolic executor and (b) evaluated on concrete numpy values by harness/replay.py.
"""
import importlib
import os
import pkgutil


class LoopSpec:
    def __init__(self, counter=None, invariants=(), modifies=None, ghost_init=None, ghost_step=None, hints=()):
        self.counter = counter
        self.invariants = list(invariants)
        self.modifies = modifies
        self.ghost_init = ghost_init or []
        self.ghost_step = ghost_step or []
        self.hints = list(hints)


class Contract:
    def __init__(self, qualname, params=None, sizes=None, requires=(), ensures=(), raises=(), returns=None,
                 loops=None, modifies=(), ghost=None, trusted=False, props=(), size_constraints=(),
                 asserts=None, inline=False, notes="", pure=True, options=None, ensures_exc=None,
                 ghost_params=None, lemmas=(), result_ghost=None, finite_sizes=None, replay=None, ghost_returns=None):
        self.qualname = qualname
        self.params = dict(params or {})
        self.sizes = list(sizes or [])
        self.size_constraints = list(size_constraints)
        self.requires = list(requires)
        self.ensures = list(ensures)
        self.raises = list(raises)  # (ExcName, cond_str, "iff"|"only_if")
        self.returns = returns
        self.loops = dict(loops or {})
        self.modifies = list(modifies)
        self.ghost = dict(ghost or {})
        self.trusted = trusted
        self.props = list(props)
        self.asserts = dict(asserts or {})
        self.inline = inline
        self.notes = notes
        self.pure = pure
        self.options = dict(options or {})
        self.ensures_exc = ensures_exc
        self.ghost_params = dict(ghost_params or {})
        self.lemmas = list(lemmas)
        self.result_ghost = dict(result_ghost or {})
        self.finite_sizes = finite_sizes
        self.replay = replay
        self.ghost_returns = dict(ghost_returns or {})   # ghost values a call yields (named witnesses usable by the caller's invariants)


class Registry:
    def __init__(self):
        self.contracts = {}
        self.inline = set()
        self.models = {}

    def contract(self, qualname, variant=None, **kw):
        """variant: several contracts of one function (e.g. one per concrete dims tuple), addressed as 'qualname@variant'"""
        c = Contract(qualname, **kw)
        c.variant = variant
        key = qualname if variant is None else f"{qualname}@{variant}"
        if key in self.contracts:
            raise ValueError(f"contract {key} registered twice (use a variant for caller-side abstractions)")
        self.contracts[key] = c
        return c

    def get(self, qualname):
        return self.contracts.get(qualname)


REGISTRY = Registry()


def contract(qualname, **kw):
    return REGISTRY.contract(qualname, **kw)


def loop(counter=None, invariants=(), **kw):
    return LoopSpec(counter, invariants, **kw)


def inline(*qualnames):
    """functions without a contract of their own that callers may execute in place (pure helpers)"""
    for q in qualnames:
        REGISTRY.inline.add(q)


def load_all():
    import contracts as pkg
    for m in pkgutil.iter_modules(pkg.__path__):
        importlib.import_module("contracts." + m.name)
    return REGISTRY
