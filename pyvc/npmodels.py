"""Library models (trusted base): numpy / math / builtins, as used by the functions under
contract.  Every model that is consulted during a run records itself in ctx.trusted so the
evidence lists exactly the assumed contracts that the proof depended on.

A model is `fn(ex, args, kwargs, node) -> value`; it may add facts (ex.assume) and
obligations (ex.oblige).  Quantified facts carry explicit patterns.
"""
import ast
from fractions import Fraction

import z3

from . import engine as E
from . import values as V
from .engine import (NAN, PI, DType, NanTok, and_vals, arith, compare, eq_val, ite_val, not_val, or_vals, truth,
                     forall_ranges, exists_ranges, F_SIN, F_COS, F_ASIN, F_ACOS, F_ATAN2, F_SQRT, sqrt_term)
from .values import (Arr, BoundMethod, Builtin, ListMap, Obj, Opaque, Small, SymDict, Unsupported, fresh_name, is_scalar,
                     is_sym_bool, is_z3, kind_of, to_z3)

MODELS = {}
METHODS = {}
SPEC_BUILTINS = {}


def model(*names):
    def deco(fn):
        for n in names:
            MODELS[n] = fn
        return fn
    return deco


def method(tname, attr):
    def deco(fn):
        METHODS[(tname, attr)] = fn
        return fn
    return deco


def spec(name):
    def deco(fn):
        SPEC_BUILTINS[name] = fn
        return fn
    return deco


def trusted(ex, name):
    ex.ctx.trust(name)


# --------------------------------------------------------------------------- elementwise helper

def map1(ex, v, fn, kind=None):
    """apply scalar fn elementwise; facts produced for lambda-bound terms are quantified"""
    if isinstance(v, Small):
        r = v.map(fn)
        r.ghost = dict(v.ghost)
        return r
    if isinstance(v, Arr):
        idx = [z3.Int(fresh_name("i")) for _ in v.shape]
        before = len(E.PENDING_FACTS)
        body = fn(v.sel(*idx))
        new = E.PENDING_FACTS[before:]
        del E.PENDING_FACTS[before:]
        if new:
            guard = z3.And(*[z3.And(i >= 0, i < to_z3(s, "int")) for i, s in zip(idx, v.shape)])
            ex.assume(z3.ForAll(idx, z3.Implies(guard, z3.And(*new))))
        k = kind or kind_of(body)
        r = Arr(z3.Lambda(idx, to_z3(body, k)), v.shape, k)
        r.ghost = {kk: vv for kk, vv in v.ghost.items() if kk in ("unit", "space", "axes")}
        r.ghost["owner"] = "fresh"
        return r
    if isinstance(v, (list, tuple)):
        return map1(ex, to_small(ex, v), fn, kind)
    if type(v).__name__ == "Masked":
        r = map1(ex, v.full, fn, kind)
        return type(v)(r, v.mask, v.axis)
    return fn(v)


def to_small(ex, v):
    if isinstance(v, Small):
        return v
    if isinstance(v, (list, tuple)):
        def rec(x):
            if isinstance(x, Small):
                return V.clone(x.data, {})
            if isinstance(x, (list, tuple)):
                return [rec(y) for y in x]
            return x
        return Small(rec(v))
    raise Unsupported(f"to_small of {type(v).__name__}")


def real(v):
    return to_z3(v, "real")


def _abs(x):
    if isinstance(x, (int, float)) and not isinstance(x, bool):
        return abs(x)
    z = to_z3(x)
    return z3.If(z >= 0, z, -z)


# --------------------------------------------------------------------------- transcendental (A-TRIG)

def sin_cos_facts(t):
    s, c = F_SIN(t), F_COS(t)
    E.PENDING_FACTS.append(s * s + c * c == 1)
    E.PENDING_FACTS.append(z3.And(s >= -1, s <= 1, c >= -1, c <= 1))
    # ground instances of 2*pi periodicity (A-TRIG)
    E.PENDING_FACTS.append(z3.And(s == F_SIN(t + 2 * PI), s == F_SIN(t - 2 * PI),
                                  c == F_COS(t + 2 * PI), c == F_COS(t - 2 * PI)))


F_D2R = z3.Function("deg2rad", V.REAL, V.REAL)
F_R2D = z3.Function("rad2deg", V.REAL, V.REAL)


def m_deg2rad(x):
    t = real(x)
    r = F_D2R(t)
    E.PENDING_FACTS.append(r * 180 == t * PI)
    return r


def m_rad2deg(x):
    t = real(x)
    r = F_R2D(t)
    E.PENDING_FACTS.append(r * PI == t * 180)
    return r


def m_sin(x):
    if isinstance(x, (int, float)) and x == 0:
        return 0.0
    t = real(x)
    sin_cos_facts(t)
    return F_SIN(t)


def m_cos(x):
    if isinstance(x, (int, float)) and x == 0:
        return 1.0
    t = real(x)
    sin_cos_facts(t)
    return F_COS(t)


_ASIN_ARGS = []
_ACOS_ARGS = []


def m_asin(x):
    z = real(x)
    r = F_ASIN(z)
    inr = z3.And(z >= -1, z <= 1)
    E.PENDING_FACTS.append(z3.Implies(inr, z3.And(r >= -PI / 2, r <= PI / 2, F_SIN(r) == z, F_COS(r) >= 0,
                                                  F_COS(r) * F_COS(r) == 1 - z * z)))
    E.PENDING_FACTS.append(z3.Implies(z == 1, r == PI / 2))
    E.PENDING_FACTS.append(z3.Implies(z == -1, r == -PI / 2))
    E.PENDING_FACTS.append(z3.Implies(z == 0, r == 0))
    E.PENDING_FACTS.append(z3.Implies(z3.And(inr, z > 0), r > 0))
    E.PENDING_FACTS.append(z3.Implies(z3.And(inr, z < 0), r < 0))
    return r


def m_acos(x):
    z = real(x)
    r = F_ACOS(z)
    inr = z3.And(z >= -1, z <= 1)
    E.PENDING_FACTS.append(z3.Implies(inr, z3.And(r >= 0, r <= PI, F_COS(r) == z, F_SIN(r) >= 0)))
    E.PENDING_FACTS.append(z3.Implies(z == 1, r == 0))
    return r


def m_atan2(y, x):
    yy, xx = real(y), real(x)
    r = F_ATAN2(yy, xx)
    rho = sqrt_term(xx * xx + yy * yy)
    E.PENDING_FACTS.append(z3.And(r > -PI, r <= PI))
    E.PENDING_FACTS.append(z3.Implies(z3.Or(xx != 0, yy != 0), z3.And(F_COS(r) * rho == xx, F_SIN(r) * rho == yy)))
    E.PENDING_FACTS.append(z3.Implies(z3.And(xx == 0, yy == 0), r == 0))
    sin_cos_facts(r)
    return r


def m_sqrt(x):
    if isinstance(x, (int, float)) and not isinstance(x, bool) and x >= 0:
        f = Fraction(repr(float(x)))
        # exact rational roots only
        import math
        n, d = f.numerator, f.denominator
        rn, rd = math.isqrt(n), math.isqrt(d)
        if rn * rn == n and rd * rd == d:
            return Fraction(rn, rd)
    return sqrt_term(real(x))


def _elementwise(name, fn, kind="real"):
    def h(ex, args, kwargs, node):
        trusted(ex, f"A-TRIG:{name}" if name in ("sin", "cos", "arcsin", "arccos", "arctan2", "sqrt") else f"numpy.{name}")
        if len(args) == 1:
            return map1(ex, args[0], fn, kind)
        a, b = args[0], args[1]
        if isinstance(a, (Arr, Small)) or isinstance(b, (Arr, Small)):
            return ex.elementwise2(a, b, fn, kind)
        return fn(a, b)
    return h


MODELS["numpy.sin"] = MODELS["math.sin"] = _elementwise("sin", m_sin)
MODELS["numpy.cos"] = MODELS["math.cos"] = _elementwise("cos", m_cos)
MODELS["numpy.arcsin"] = MODELS["math.asin"] = _elementwise("arcsin", m_asin)
MODELS["numpy.arccos"] = MODELS["math.acos"] = _elementwise("arccos", m_acos)
MODELS["numpy.arctan2"] = MODELS["math.atan2"] = _elementwise("arctan2", m_atan2)
MODELS["numpy.sqrt"] = MODELS["math.sqrt"] = _elementwise("sqrt", m_sqrt)
MODELS["numpy.deg2rad"] = MODELS["numpy.radians"] = MODELS["math.radians"] = None
MODELS["numpy.rad2deg"] = MODELS["numpy.degrees"] = MODELS["math.degrees"] = None


def _unit_conv(name, fn, src, dst):
    def h(ex, args, kwargs, node):
        trusted(ex, f"numpy.{name}")
        v = args[0]
        r = map1(ex, v, fn, "real")
        g = getattr(v, "ghost", None)
        if g is not None and g.get("unit") is not None:
            ok = g.get("unit") == src
            ex.oblige("ghost_unit", ok, f"argument of {name} is in {src} (is: {g.get('unit')})", node, static=ok,
                      backend="ghost-static")
        if isinstance(r, (Arr, Small)):
            r.ghost["unit"] = dst
        return r
    return h


MODELS["numpy.deg2rad"] = MODELS["numpy.radians"] = MODELS["math.radians"] = _unit_conv(
    "deg2rad", m_deg2rad, "deg", "rad")
MODELS["numpy.rad2deg"] = MODELS["numpy.degrees"] = MODELS["math.degrees"] = _unit_conv(
    "rad2deg", m_rad2deg, "rad", "deg")


@model("numpy.abs", "numpy.absolute", "numpy.fabs", "builtins.abs")
def np_abs(ex, args, kwargs, node):
    return map1(ex, args[0], _abs)


@model("numpy.sign")
def np_sign(ex, args, kwargs, node):
    def f(x):
        z = to_z3(x)
        one = 1 if z.sort() == V.INT else z3.RealVal(1)
        return z3.If(z > 0, one, z3.If(z < 0, -one, one - one))
    return map1(ex, args[0], f)


@model("numpy.copysign", "math.copysign")
def np_copysign(ex, args, kwargs, node):
    """copysign(a, b) for scalars: |a| with the sign of b (A-REAL: no signed zero, b == 0 counts as positive)"""
    a, b = args
    if not (is_scalar(a) and is_scalar(b)):
        raise Unsupported("copysign of arrays")
    za, zb = to_z3(a, "real"), to_z3(b, "real")
    mag = z3.If(za >= 0, za, -za)
    return z3.If(zb >= 0, mag, -mag)


@model("numpy.mod", "numpy.remainder")
def np_mod(ex, args, kwargs, node):
    a, b = args
    return ex.binop("%", a, b, node)


@model("numpy.where")
def np_where(ex, args, kwargs, node):
    trusted(ex, "numpy.where")
    if len(args) == 1:
        return MODELS["__where1__"](ex, args, kwargs, node)
    c, a, b = args
    if isinstance(c, (Arr,)):
        def sel(v, idx):
            return v.sel(*idx) if isinstance(v, Arr) else v
        idx = [z3.Int(fresh_name("i")) for _ in c.shape]
        body = ite_val(c.sel(*idx), sel(a, idx), sel(b, idx))
        k = kind_of(body)
        r = Arr(z3.Lambda(idx, to_z3(body, k)), c.shape, k)
        r.ghost = E_merge(a, b)
        return r
    if isinstance(c, Small):
        return Small.zip_map(Small.zip_map(c, a, lambda x, y: (x, y)), b, lambda xy, z: ite_val(xy[0], xy[1], z))
    return ite_val(truthy(c), a, b)


def E_merge(a, b):
    from .symexec import _merge_ghost
    return _merge_ghost(a, b)


def truthy(c):
    if isinstance(c, bool) or is_sym_bool(c):
        return c
    return truth(c)


@model("numpy.logical_or")
def np_lor(ex, args, kwargs, node):
    return ex.elementwise2(args[0], args[1], lambda x, y: or_vals([truthy(x), truthy(y)]), "bool")


@model("numpy.logical_and")
def np_land(ex, args, kwargs, node):
    return ex.elementwise2(args[0], args[1], lambda x, y: and_vals([truthy(x), truthy(y)]), "bool")


@model("numpy.logical_not")
def np_lnot(ex, args, kwargs, node):
    return not_val(args[0])


@model("numpy.isnan")
def np_isnan(ex, args, kwargs, node):
    v = args[0]
    if isinstance(v, NanTok):
        return True
    if isinstance(v, Arr):
        nm = v.ghost.get("nanmask")
        if nm is not None:
            return nm
        return Arr.from_lambda(v.shape, "bool", lambda *i: z3.BoolVal(False))
    if isinstance(v, Opaque):
        t = v.ghost.get("isnan")
        if t is not None:
            return t
        raise Unsupported("isnan of opaque value")
    return False


def _reduce_small(v, f, unit):
    fl = v.flat()
    return f(fl) if fl else unit


@model("numpy.all", "builtins.all")
def np_all(ex, args, kwargs, node):
    v = args[0]
    axis = kwargs.get("axis", args[1] if len(args) > 1 else None)
    if isinstance(v, Small):
        if axis is None:
            return and_vals([truthy(x) for x in v.flat()])
        raise Unsupported("np.all(axis) on small array")
    if isinstance(v, (list, tuple)):
        return and_vals([truthy(x) for x in v])
    if isinstance(v, Arr):
        return reduce_bool(ex, v, axis, True, node)
    return truthy(v)


@model("numpy.any", "builtins.any")
def np_any(ex, args, kwargs, node):
    v = args[0]
    axis = kwargs.get("axis", args[1] if len(args) > 1 else None)
    if isinstance(v, Small):
        if axis is None:
            return or_vals([truthy(x) for x in v.flat()])
        raise Unsupported("np.any(axis) on small array")
    if isinstance(v, (list, tuple)):
        return or_vals([truthy(x) for x in v])
    if isinstance(v, Arr):
        return reduce_bool(ex, v, axis, False, node)
    return truthy(v)


def reduce_bool(ex, v, axis, is_all, node):
    trusted(ex, "numpy.all/any")
    if axis is None:
        if is_all:
            return forall_ranges([(0, s) for s in v.shape], lambda *i: v.sel(*i), patterns_fn=lambda *i: [v.sel(*i)])
        return exists_ranges([(0, s) for s in v.shape], lambda *i: v.sel(*i))
    if isinstance(axis, int) and v.rank == 2:
        if axis < 0:
            axis += 2
        keep = 1 - axis
        n = v.shape[keep]
        m = v.shape[axis]

        def at(i, j):
            return v.sel(i, j) if axis == 1 else v.sel(j, i)
        r = Arr.fresh("red", [n], "bool")
        if is_all:
            ex.assume(forall_ranges([(0, n)], lambda i: r.sel(i) == forall_ranges([(0, m)], lambda j: at(i, j)),
                                    patterns_fn=lambda i: [r.sel(i)]))
        else:
            ex.assume(forall_ranges([(0, n)], lambda i: r.sel(i) == exists_ranges([(0, m)], lambda j: at(i, j)),
                                    patterns_fn=lambda i: [r.sel(i)]))
        return r
    raise Unsupported("reduction axis")


@model("numpy.isclose")
def np_isclose(ex, args, kwargs, node):
    trusted(ex, "numpy.isclose: |a-b| <= atol + rtol*|b|")
    a, b = args[0], args[1]
    rtol = kwargs.get("rtol", args[2] if len(args) > 2 else 1e-05)
    atol = kwargs.get("atol", args[3] if len(args) > 3 else 1e-08)

    def f(x, y):
        xx, yy = real(x), real(y)
        return _abs(xx - yy) <= real(atol) + real(rtol) * _abs(yy)
    if isinstance(a, (list, tuple)):
        a = to_small(ex, a)
    if isinstance(b, (list, tuple)):
        b = to_small(ex, b)
    if isinstance(a, (Arr, Small)) or isinstance(b, (Arr, Small)):
        return ex.elementwise2(a, b, f, "bool")
    return f(a, b)


@model("numpy.allclose")
def np_allclose(ex, args, kwargs, node):
    r = np_isclose(ex, args, kwargs, node)
    return np_all(ex, [r], {}, node)


@model("numpy.copy")
def np_copy(ex, args, kwargs, node):
    return copy_value(ex, args[0])


def copy_value(ex, v):
    if isinstance(v, Small):
        r = v.copy()
        r.ghost = dict(v.ghost)
        r.ghost["owner"] = "fresh"
        return r
    if isinstance(v, Arr):
        r = Arr(v.term, v.shape, v.kind, v.name + ".copy", None, v.ghost)
        r.ghost["owner"] = "fresh"
        if v.rank <= 1:
            r.ghost["corder"] = True   # a 1-D copy is contiguous; for rank >= 2 .copy() keeps the source layout (order='K')
        return r
    if isinstance(v, (list, tuple)):
        return to_small(ex, v)
    if is_scalar(v):
        return v
    raise Unsupported(f"copy of {type(v).__name__}")


@model("numpy.array", "numpy.asarray")
def np_array(ex, args, kwargs, node):
    v = args[0]
    dtype = kwargs.get("dtype", args[1] if len(args) > 1 else None)
    if type(v).__name__ == "ConstList":
        k = kind_of(v.value)
        if isinstance(dtype, DType):
            k = "real" if dtype.is_float else ("int" if dtype.is_int else k)
        r = Arr(z3.K(V.INT, to_z3(v.value, k)), [v.n], k, name="constlist")
        r.ghost.update(owner="fresh", corder=True)
        return r
    if type(v).__name__ == "_ListMapRow":
        # a python list with symbolic length: the 1-D array of its elements
        kk = to_z3(v.key, "int")
        lm = v.lm
        k = lm.kind
        if isinstance(dtype, DType) and ((dtype.is_float and k != "real") or (dtype.is_int and k != "int")):
            raise Unsupported("np.asarray(list, dtype) with a converting dtype")
        r = Arr.from_lambda([z3.Select(lm.len, kk)], k, lambda t, e=lm.elems: z3.Select(e, kk, t), name="row")
        r.ghost.update(owner="fresh", corder=True)
        return r
    if isinstance(v, (list, tuple)):
        if any(isinstance(x, Arr) for x in v):
            # stack of symbolic arrays along a new leading axis: kept as a Small of Arr leaves
            return Small(list(v))
        r = to_small(ex, v)
    elif isinstance(v, Small):
        r = v.copy() if ast.unparse(node.func).endswith("array") else v
    elif isinstance(v, Arr):
        if ast.unparse(node.func).endswith("asarray") and (dtype is None or _dtype_matches(v, dtype)):
            return v
        r = copy_value(ex, v)
    elif is_scalar(v):
        r = v
    else:
        raise Unsupported(f"np.array of {type(v).__name__}")
    if isinstance(dtype, DType):
        r = cast(ex, r, dtype, node)
    return r


def _dtype_matches(a, dtype):
    d = a.ghost.get("dtype")
    if d is None:
        return (a.kind == "real" and dtype.is_float) or (a.kind == "int" and dtype.is_int and E.canonical_dtype(dtype.name) == "int64")
    return DType(d) == dtype


def cast(ex, v, dtype, node):
    if dtype.is_float:
        if isinstance(v, Small):
            r = v.map(lambda x: real(x))
            r.kind = "real"
            r.ghost = dict(v.ghost)
            return r
        if isinstance(v, Arr):
            if v.kind == "real":
                r = copy_value(ex, v)
            else:
                r = Arr.from_lambda(v.shape, "real", lambda *i: real(v.sel(*i)))
                r.ghost = dict(v.ghost)
            r.ghost["dtype"] = dtype.name
            r.ghost["owner"] = "fresh"
            return r
        return real(v)
    if dtype.is_int:
        if isinstance(v, Arr):
            if v.kind == "int":
                r = copy_value(ex, v)
                r.ghost["dtype"] = dtype.name
                return r
            if v.kind == "real" and v.ghost.get("integral"):
                r = Arr.from_lambda(v.shape, "int", lambda *i: z3.ToInt(v.sel(*i)))
                r.ghost = dict(v.ghost)
                r.ghost["dtype"] = dtype.name
                r.ghost["owner"] = "fresh"
                return r
        if isinstance(v, Small) and all(kind_of(x) == "int" for x in v.flat()):
            return v
        if kind_of(v) == "int":
            return v
        raise Unsupported("cast of reals to an integer dtype")
    raise Unsupported(f"cast to {dtype}")


@model("numpy.float64", "builtins.float")
def np_float64(ex, args, kwargs, node):
    v = args[0]
    if isinstance(v, (int, float)):
        return float(v)
    if isinstance(v, Fraction):
        return v
    return map1(ex, v, real)


@model("builtins.int")
def py_int(ex, args, kwargs, node):
    v = args[0]
    if isinstance(v, int):
        return v
    if kind_of(v) == "int":
        return v
    raise Unsupported("int() of non-int")


@model("builtins.bool")
def py_bool(ex, args, kwargs, node):
    return truthy(args[0])


class _IInfo:
    def __init__(self, lo, hi, eps=None):
        self.min, self.max, self.eps = lo, hi, eps


@model("numpy.iinfo")
def np_iinfo(ex, args, kwargs, node):
    d = args[0]
    if isinstance(d, DType):
        n = E.canonical_dtype(d.name)
        bits = {"int64": 64, "int32": 32, "int16": 16, "int8": 8}.get(n)
        if bits:
            return Obj("iinfo", {"min": -(2 ** (bits - 1)), "max": 2 ** (bits - 1) - 1})
    if isinstance(d, Opaque) and d.ghost.get("iinfo"):
        return d.ghost["iinfo"]
    raise Unsupported("np.iinfo of symbolic dtype")


@model("numpy.finfo")
def np_finfo(ex, args, kwargs, node):
    big = Fraction(2 ** 1024 - 2 ** 971)
    return Obj("finfo", {"min": -big, "max": big, "eps": Fraction(1, 2 ** 52)})


@model("builtins.len")
def py_len(ex, args, kwargs, node):
    v = args[0]
    if isinstance(v, (list, tuple, dict, str, set)):
        return len(v)
    if isinstance(v, Small):
        return v.shape[0]
    if isinstance(v, Arr):
        return v.shape[0]
    from .symexec import _ListMapRow
    if isinstance(v, _ListMapRow):
        return z3.Select(v.lm.len, to_z3(v.key, "int"))
    if isinstance(v, ListMap):
        return v.n
    raise Unsupported(f"len of {type(v).__name__}")


@model("builtins.min")
def py_min(ex, args, kwargs, node):
    items = list(args[0]) if len(args) == 1 and isinstance(args[0], (list, tuple)) else (
        args[0].flat() if len(args) == 1 and isinstance(args[0], Small) else list(args))
    r = items[0]
    for x in items[1:]:
        # python: min(a, b) returns b if b < a else a
        c = compare(ast.Lt(), x, r)
        r = ite_val(c, x, r)
    return r


@model("builtins.max")
def py_max(ex, args, kwargs, node):
    items = list(args[0]) if len(args) == 1 and isinstance(args[0], (list, tuple)) else (
        args[0].flat() if len(args) == 1 and isinstance(args[0], Small) else list(args))
    r = items[0]
    for x in items[1:]:
        c = compare(ast.Gt(), x, r)
        r = ite_val(c, x, r)
    return r


@model("builtins.isinstance")
def py_isinstance(ex, args, kwargs, node):
    v, t = args
    from .values import ClassRef
    tn = t.name if isinstance(t, ClassRef) else (t.name if isinstance(t, Builtin) else getattr(t, "name", str(t)))
    if isinstance(t, tuple):
        return or_vals([py_isinstance(ex, [v, x], {}, node) for x in t])
    if isinstance(v, Obj):
        return v.cls == tn or tn.endswith("." + v.cls)
    if isinstance(v, Opaque):
        if v.pytype is not None:
            return v.pytype == tn or tn.endswith("." + v.pytype)
        return z3.Function("isinstance_" + tn.split(".")[-1], V.USORT, V.BOOL)(v.term)
    if isinstance(v, (Arr, Small)):
        return tn in ("ndarray", "numpy.ndarray")
    if isinstance(v, (list, tuple, dict, str, int, float)) and not isinstance(v, bool):
        return type(v).__name__ == tn
    if v is None:
        return False
    if kind_of(v) == "int":
        return tn in ("int", "integer", "numpy.integer")
    if kind_of(v) == "real":
        return tn in ("float", "floating")
    if kind_of(v) == "bool":
        return tn == "bool"
    raise Unsupported(f"isinstance({type(v).__name__}, {tn})")


@model("builtins.list")
def py_list(ex, args, kwargs, node):
    if not args:
        return []
    v = args[0]
    if isinstance(v, (list, tuple)):
        return list(v)
    if isinstance(v, dict):
        return list(v.keys())
    from .symexec import _ListMapValues
    if isinstance(v, _ListMapValues):
        v.lm.as_rows = True           # list(d.values()): the list of the rows
        return v.lm
    raise Unsupported("list() of symbolic iterable")


@model("builtins.tuple")
def py_tuple(ex, args, kwargs, node):
    v = args[0]
    if isinstance(v, (list, tuple)):
        return tuple(v)
    raise Unsupported("tuple() of symbolic iterable")


@model("builtins.str")
def py_str(ex, args, kwargs, node):
    v = args[0]
    if isinstance(v, str):
        return v
    return "<str>"


@model("builtins.set")
def py_set(ex, args, kwargs, node):
    if not args:
        return set()
    v = args[0]
    if isinstance(v, (list, tuple, set)):
        return set(v)
    raise Unsupported("set() of symbolic iterable")


@model("builtins.sum")
def py_sum(ex, args, kwargs, node):
    v = args[0]
    if isinstance(v, Small):
        v = v.flat()
    if isinstance(v, (list, tuple)):
        r = args[1] if len(args) > 1 else 0
        for x in v:
            r = ex.binop("+", r, x, node)
        return r
    raise Unsupported("sum of symbolic iterable")


@model("numpy.sum")
def np_sum(ex, args, kwargs, node):
    v = args[0]
    if isinstance(v, Small) and kwargs.get("axis") is None and len(args) == 1:
        return py_sum(ex, [v], {}, node)
    raise Unsupported("np.sum on symbolic array")


@model("numpy.linalg.norm")
def np_norm(ex, args, kwargs, node):
    trusted(ex, "numpy.linalg.norm (2-norm = sqrt of sum of squares)")
    v = args[0]
    if isinstance(v, (list, tuple)):
        v = to_small(ex, v)
    if isinstance(v, Arr) and kwargs.get("axis") == -1 and kwargs.get("keepdims") is True and v.rank >= 1:
        # Euclidean norm along the last axis of a symbolic array: an uninterpreted non-negative function of the value
        # sequence; zero only for an all-zero sequence is NOT assumed (division by it is the caller's business)
        F = z3.Function("norm_last_axis", z3.ArraySort(V.INT, V.REAL), V.INT, V.REAL)
        t = z3.Int(fresh_name("t"))
        n = v.shape[-1]

        def cell(*idx):
            return F(z3.Lambda([t], to_z3(v.sel(*idx[:-1], t), "real")), to_z3(n, "int"))
        r = Arr.from_lambda(list(v.shape[:-1]) + [1], "real", cell)
        idx = [z3.Int(fresh_name("i")) for _ in r.shape]
        ex.assume(z3.ForAll(idx, r.sel(*idx) >= 0) if idx else r.sel() >= 0)
        r.ghost["owner"] = "fresh"
        return r
    if not isinstance(v, Small) or v.rank != 1:
        raise Unsupported("norm of non-small vector")
    sq = None
    for c in v.data:
        t = ex.binop("*", c, c, node)
        sq = t if sq is None else ex.binop("+", sq, t, node)
    return map1(ex, sq, m_sqrt, "real")


@model("numpy.cross")
def np_cross(ex, args, kwargs, node):
    a, b = to_small(ex, args[0]) if not isinstance(args[0], Small) else args[0], \
        to_small(ex, args[1]) if not isinstance(args[1], Small) else args[1]
    if a.shape != (3,) or b.shape != (3,):
        raise Unsupported("cross of non 3-vectors")
    a0, a1, a2 = a.data
    b0, b1, b2 = b.data
    m = lambda x, y: arith("*", x, y)
    s = lambda x, y: arith("-", x, y)
    return Small([s(m(a1, b2), m(a2, b1)), s(m(a2, b0), m(a0, b2)), s(m(a0, b1), m(a1, b0))], "real")


@model("numpy.dot")
def np_dot(ex, args, kwargs, node):
    a, b = to_small(ex, args[0]) if not isinstance(args[0], Small) else args[0], \
        to_small(ex, args[1]) if not isinstance(args[1], Small) else args[1]
    if a.rank != 1 or a.shape != b.shape:
        raise Unsupported("dot of non-vectors")
    r = 0
    for x, y in zip(a.data, b.data):
        r = arith("+", r, arith("*", x, y))
    return r


@model("numpy.clip")
def np_clip(ex, args, kwargs, node):
    v, lo, hi = args
    return map1(ex, v, lambda x: ite_val(compare(ast.Lt(), x, lo), lo, ite_val(compare(ast.Gt(), x, hi), hi, x)))


@model("numpy.issubdtype")
def np_issubdtype(ex, args, kwargs, node):
    d, k = args
    if isinstance(d, DType) and isinstance(k, DType):
        if k.name == "integer":
            return d.is_int
        if k.name == "floating":
            return d.is_float
        return d == k
    if d is None:
        return False
    if isinstance(d, Opaque) and isinstance(k, DType):
        key = "sub:" + k.name
        if key in d.ghost:
            return d.ghost[key]
    raise Unsupported("issubdtype on symbolic dtype")


# --------------------------------------------------------------------------- methods

@method("Small", "shape")
def small_shape(ex, base, node, env, fr):
    return base.shape


@method("Small", "size")
def small_size(ex, base, node, env, fr):
    n = 1
    for s in base.shape:
        n *= s
    return n


@method("Small", "ndim")
def small_ndim(ex, base, node, env, fr):
    return base.rank


@method("Small", "T")
def small_T(ex, base, node, env, fr):
    if base.rank == 1:
        return base
    if base.rank == 2:
        r, c = base.shape
        return Small([[base.data[i][j] for i in range(r)] for j in range(c)], base.kind)
    raise Unsupported("transpose rank>2")


@method("Arr", "shape")
def arr_shape(ex, base, node, env, fr):
    return tuple(base.shape)


@method("Arr", "ndim")
def arr_ndim(ex, base, node, env, fr):
    return base.rank


@method("Arr", "size")
def arr_size(ex, base, node, env, fr):
    n = 1
    for s in base.shape:
        n = arith("*", n, s)
    return n


@method("Arr", "dtype")
def arr_dtype(ex, base, node, env, fr):
    d = base.ghost.get("dtype")
    if isinstance(d, str):
        return DType(d)
    if d is not None:
        return d
    if base.kind == "real":
        return DType("float64")
    if base.kind == "bool":
        return DType("bool")
    return DType("int64")


@method("Small", "call:any")
def small_any(ex, obj, args, kwargs, node, env, fr):
    return np_any(ex, [obj] + list(args), kwargs, node)


@method("Small", "call:all")
def small_all(ex, obj, args, kwargs, node, env, fr):
    return np_all(ex, [obj] + list(args), kwargs, node)


@method("Arr", "call:any")
def arr_any(ex, obj, args, kwargs, node, env, fr):
    return np_any(ex, [obj] + list(args), kwargs, node)


@method("Arr", "call:all")
def arr_all(ex, obj, args, kwargs, node, env, fr):
    return np_all(ex, [obj] + list(args), kwargs, node)


@method("Small", "call:copy")
def small_copy(ex, obj, args, kwargs, node, env, fr):
    return copy_value(ex, obj)


@method("Arr", "call:copy")
def arr_copy(ex, obj, args, kwargs, node, env, fr):
    return copy_value(ex, obj)


@method("Arr", "call:astype")
def arr_astype(ex, obj, args, kwargs, node, env, fr):
    d = args[0] if args else kwargs.get("dtype")
    if isinstance(d, DType):
        return cast(ex, obj, d, node)
    raise Unsupported("astype of symbolic dtype")


@method("Small", "call:astype")
def small_astype(ex, obj, args, kwargs, node, env, fr):
    return cast(ex, obj, args[0], node)


@method("list", "call:append")
def list_append(ex, obj, args, kwargs, node, env, fr):
    obj.append(args[0])


@method("list", "call:extend")
def list_extend(ex, obj, args, kwargs, node, env, fr):
    obj.extend(args[0])


@method("dict", "call:get")
def dict_get(ex, obj, args, kwargs, node, env, fr):
    k = args[0]
    if isinstance(k, (str, int)):
        return obj.get(k, args[1] if len(args) > 1 else None)
    raise Unsupported("dict.get symbolic key")


@method("dict", "call:update")
def dict_update(ex, obj, args, kwargs, node, env, fr):
    """python dict.update with a concrete dict (or keyword arguments): in place"""
    for a in args:
        if not isinstance(a, dict):
            raise Unsupported("dict.update with a symbolic mapping")
        obj.update(a)
    obj.update(kwargs)
    return None


@method("dict", "call:items")
def dict_items(ex, obj, args, kwargs, node, env, fr):
    return list(obj.items())


@method("dict", "call:keys")
def dict_keys(ex, obj, args, kwargs, node, env, fr):
    return list(obj.keys())


@method("dict", "call:values")
def dict_values(ex, obj, args, kwargs, node, env, fr):
    return list(obj.values())


@method("dict", "call:items")
def dict_items(ex, obj, args, kwargs, node, env, fr):
    return list(obj.items())


@method("dict", "call:keys")
def dict_keys(ex, obj, args, kwargs, node, env, fr):
    return list(obj.keys())


@method("ListMap", "call:values")
def lm_values(ex, obj, args, kwargs, node, env, fr):
    from .symexec import _ListMapValues
    return _ListMapValues(obj)


@method("_ListMapRow", "call:append")
def lmrow_append(ex, obj, args, kwargs, node, env, fr):
    lm = obj.lm
    k = to_z3(obj.key, "int")
    n = z3.Select(lm.len, k)
    # new state as fresh constants with frame axioms triggered on their own cells (plain select terms are usable as patterns)
    old_e, old_l = lm.elems, lm.len
    new_e = z3.Const(fresh_name(lm.name + ".e"), old_e.sort())
    new_l = z3.Const(fresh_name(lm.name + ".len"), old_l.sort())
    kk, tt = z3.Int(fresh_name("k")), z3.Int(fresh_name("t"))
    val = to_z3(args[0], lm.kind)
    ex.assume(z3.ForAll([kk, tt], z3.Select(new_e, kk, tt) == z3.If(z3.And(kk == k, tt == n), val, z3.Select(old_e, kk, tt)),
                        patterns=[z3.Select(new_e, kk, tt), z3.Select(old_e, kk, tt)]))
    ex.assume(z3.ForAll([kk], z3.Select(new_l, kk) == z3.If(kk == k, n + 1, z3.Select(old_l, kk)),
                        patterns=[z3.Select(new_l, kk), z3.Select(old_l, kk)]))
    ex.assume(z3.Select(new_e, k, n) == val)
    lm.elems, lm.len = new_e, new_l


@method("str", "call:format")
def str_format(ex, obj, args, kwargs, node, env, fr):
    return "<str>"


@method("str", "call:endswith")
def str_endswith(ex, obj, args, kwargs, node, env, fr):
    if isinstance(args[0], str) and obj != "<str>":
        return obj.endswith(args[0])
    raise Unsupported("endswith on symbolic string")


# --------------------------------------------------------------------------- spec builtins

@spec("forall")
def sp_forall(ex, args, kwargs, node):
    *bounds, lam = args
    if len(bounds) % 2:
        raise Unsupported("forall(lo, hi, [lo2, hi2, ...], lambda ...)")
    bs = [(bounds[i], bounds[i + 1]) for i in range(0, len(bounds), 2)]
    from .symexec import _SpecFrame
    names = [a.arg for a in lam.node.args.args]
    pat = kwargs.get("pattern")

    def body(*vs):
        e2 = dict(lam.env)
        for a, v in zip(names, vs):
            e2[a] = v
        return ex.eval(lam.node.body, e2, _SpecFrame(ex))
    pats = None
    if pat is not None:
        def pats(*vs):
            e2 = dict(pat.env)
            for a, v in zip(names, vs):
                e2[a] = v
            r = ex.eval(pat.node.body, e2, _SpecFrame(ex))
            if isinstance(r, tuple):
                return [z3.MultiPattern(*r)]          # a tuple is ONE trigger made of several terms
            return list(r) if isinstance(r, list) else [r]
    return forall_ranges(bs, body, patterns_fn=pats, names=names)


@spec("exists")
def sp_exists(ex, args, kwargs, node):
    *bounds, lam = args
    bs = [(bounds[i], bounds[i + 1]) for i in range(0, len(bounds), 2)]
    from .symexec import _SpecFrame
    names = [a.arg for a in lam.node.args.args]
    pat = kwargs.get("pattern")

    def body(*vs):
        e2 = dict(lam.env)
        for a, v in zip(names, vs):
            e2[a] = v
        return ex.eval(lam.node.body, e2, _SpecFrame(ex))
    pats = None
    if pat is not None:
        def pats(*vs):
            e2 = dict(pat.env)
            for a, v in zip(names, vs):
                e2[a] = v
            r = ex.eval(pat.node.body, e2, _SpecFrame(ex))
            return list(r) if isinstance(r, (list, tuple)) else [r]
    return exists_ranges(bs, body, names=names, patterns_fn=pats)


@spec("implies")
def sp_implies(ex, args, kwargs, node):
    a, b = args
    a, b = truthy(a), truthy(b)
    if isinstance(a, bool):
        return b if a else True
    return z3.Implies(a, to_z3(b, "bool"))


@spec("iff")
def sp_iff(ex, args, kwargs, node):
    a, b = truthy(args[0]), truthy(args[1])
    return to_z3(a, "bool") == to_z3(b, "bool")


@spec("ite")
def sp_ite(ex, args, kwargs, node):
    c, a, b = args
    return ite_val(truthy(c), a, b)


@spec("eqr")
def sp_eqr(ex, args, kwargs, node):
    """real equality (A-REAL); the concrete rendering compares to tolerance"""
    return eq_val(args[0], args[1])


@spec("ler")
def sp_ler(ex, args, kwargs, node):
    return compare(ast.LtE(), args[0], args[1])


@spec("ltr")
def sp_ltr(ex, args, kwargs, node):
    return compare(ast.Lt(), args[0], args[1])


@spec("isnone")
def sp_isnone(ex, args, kwargs, node):
    from .engine import is_val
    return is_val(args[0], None)          # python None, or a maybe-None object whose term equals None


@spec("sin")
def sp_sin(ex, args, kwargs, node):
    return m_sin(args[0])


@spec("cos")
def sp_cos(ex, args, kwargs, node):
    return m_cos(args[0])


@spec("asin")
def sp_asin(ex, args, kwargs, node):
    return m_asin(args[0])


@spec("acos")
def sp_acos(ex, args, kwargs, node):
    return m_acos(args[0])


@spec("atan2")
def sp_atan2(ex, args, kwargs, node):
    return m_atan2(args[0], args[1])


@spec("deg2rad")
def sp_deg2rad(ex, args, kwargs, node):
    return m_deg2rad(args[0])


@spec("rad2deg")
def sp_rad2deg(ex, args, kwargs, node):
    return m_rad2deg(args[0])


@spec("sqrt")
def sp_sqrt(ex, args, kwargs, node):
    return m_sqrt(args[0])


@spec("abs")
def sp_abs(ex, args, kwargs, node):
    return _abs(args[0])


@spec("fmod")
def sp_fmod(ex, args, kwargs, node):
    return arith("%", real(args[0]), real(args[1]))


@spec("shape")
def sp_shape(ex, args, kwargs, node):
    v = args[0]
    if isinstance(v, (Arr, Small)):
        return tuple(v.shape)
    raise Unsupported("shape of non-array")


@spec("ghost")
def sp_ghost(ex, args, kwargs, node):
    v, key = args
    return getattr(v, "ghost", {}).get(key)


@spec("is_arr")
def sp_is_arr(ex, args, kwargs, node):
    return isinstance(args[0], (Arr, Small))


@spec("same_object")
def sp_same_object(ex, args, kwargs, node):
    return E.is_val(args[0], args[1])


@spec("min")
def sp_min(ex, args, kwargs, node):
    return py_min(ex, args, kwargs, node)


@spec("max")
def sp_max(ex, args, kwargs, node):
    return py_max(ex, args, kwargs, node)


@spec("len")
def sp_len(ex, args, kwargs, node):
    return py_len(ex, args, kwargs, node)


SPEC_BUILTINS["pi"] = None  # replaced below by a constant lookup


def _const_builtin(val):
    return val


# constants available in clauses (resolved in symexec.ev_Name through SPEC_CONSTS)
SPEC_CONSTS = {"pi": PI, "FILL": -(2 ** 63), "INT_MAX": 2 ** 63 - 1, "INT_MIN": -(2 ** 63)}
del SPEC_BUILTINS["pi"]


@method("str", "call:lower")
def str_lower(ex, obj, args, kwargs, node, env, fr):
    return obj.lower()


@method("str", "call:upper")
def str_upper(ex, obj, args, kwargs, node, env, fr):
    return obj.upper()
