"""Type specifications of contract parameters / results -> fresh symbolic values.

  int | real | bool | none | dtype
  arr(kind, d0, d1, ...)        symbolic numpy array (dims: expressions over sizes / params)
  small(kind, d0, ...)          small fixed-shape numpy array (concrete dims)
  tuple(t0, t1, ...)            python tuple
  optional(t)                   None or t (two paths)
  choice('a', 'b', ...)         one of the literals (one path each)
  opaque / opaque('Name')       uninterpreted python object
  obj('Class')                  record object built by a registered factory
"""
import ast

import z3

from . import values as V
from .values import Arr, Obj, Opaque, Small, Unsupported, fresh_name

FACTORIES = {}


def factory(cls):
    def deco(fn):
        FACTORIES[cls] = fn
        return fn
    return deco


def make_value(ex, spec, name, env, ghost=None):
    node = ast.parse(spec.strip(), mode="eval").body if isinstance(spec, str) else spec
    return _mk(ex, node, name, env, ghost or {})


def _dim(ex, node, env):
    from .symexec import _SpecFrame
    v = ex.eval(node, dict(env), _SpecFrame(ex))
    return v


def _mk(ex, node, name, env, ghost):
    if isinstance(node, ast.Name):
        t = node.id
        if t == "int":
            return z3.Int(fresh_name(name))
        if t == "real":
            return z3.Real(fresh_name(name))
        if t == "bool":
            return z3.Bool(fresh_name(name))
        if t == "none":
            return None
        if t == "opaque":
            o = Opaque(name=name)
            o.ghost.update(ghost)
            if o.ghost.get("maybe_none") is None:
                # an opaque parameter is a real object: `x is None` is statically False for it, so its term differs from None's
                from .objmodels import NONE_U
                ex.assume(o.term != NONE_U)
            return o
        if t in env:
            return env[t]  # a parameter that IS one of the size symbols (or an earlier parameter)
        raise Unsupported(f"typespec {t}")
    if isinstance(node, ast.Constant):
        return node.value
    if isinstance(node, ast.Call) and isinstance(node.func, ast.Name):
        f = node.func.id
        kw = {k.arg: k.value for k in node.keywords}
        if f == "arr":
            kind = node.args[0].id
            dims = [_dim(ex, a, env) for a in node.args[1:]]
            g = dict(ghost)
            for k, v in kw.items():
                g[k] = ast.literal_eval(v)
            a = Arr.fresh(name, dims, kind, ghost=g)
            return a
        if f == "small":
            kind = node.args[0].id
            dims = [int(ast.literal_eval(a)) for a in node.args[1:]]

            def build(ds, path):
                if not ds:
                    return z3.Const(fresh_name(f"{name}{''.join('_%d' % p for p in path)}"), V.sort_of(kind))
                return [build(ds[1:], path + [i]) for i in range(ds[0])]
            g = dict(ghost)
            for k, v in kw.items():
                g[k] = ast.literal_eval(v)
            return Small(build(dims, []), kind, g)
        if f == "tuple":
            return tuple(_mk(ex, a, f"{name}{i}", env, {}) for i, a in enumerate(node.args))
        if f == "optional":
            c = ex.nondet(2)
            if c == 0:
                return None
            return _mk(ex, node.args[0], name, env, ghost)
        if f == "choice":
            vals = [ast.literal_eval(a) for a in node.args]
            c = ex.nondet(len(vals))
            return vals[c]
        if f == "opaque":
            o = Opaque(name=name, pytype=ast.literal_eval(node.args[0]) if node.args else None)
            o.ghost.update(ghost)
            if o.ghost.get("maybe_none") is None:
                # an opaque parameter is a real object: `x is None` is statically False for it, so its term differs from None's
                from .objmodels import NONE_U
                ex.assume(o.term != NONE_U)
            return o
        if f == "obj":
            cls = ast.literal_eval(node.args[0])
            if cls not in FACTORIES:
                raise Unsupported(f"no factory for obj('{cls}')")
            kws = {k: ast.literal_eval(v) for k, v in kw.items()}
            return FACTORIES[cls](ex, name, env, **kws)
        if f == "dtype":
            from .engine import DType
            return DType(ast.literal_eval(node.args[0]))
        if f == "listof":
            n = int(ast.literal_eval(node.args[1]))
            return [_mk(ex, node.args[0], f"{name}{i}", env, {}) for i in range(n)]
    raise Unsupported(f"typespec {ast.unparse(node)}")
