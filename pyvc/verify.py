"""verify one function under its sidecar contract; returns a JSON-able result"""
import os
import time
import traceback

import z3
from .values import fresh_name, to_z3

from . import engine as E
from .contracts import load_all
from .engine import Ctx
from .repo import Repo
from .solve import solve_obligation
from .symexec import Exec, short_name
from .typespec import make_value
from .values import Unsupported, to_z3


def _make_inputs_factory(c, info, ctx):
    def make_inputs(ex):
        env = {}
        # sizes
        for s in c.sizes:
            if ctx.finite and s in ctx.options["finite"]:
                ctx.sizes[s] = ctx.options["finite"][s]
            else:
                ctx.sizes[s] = z3.Int(s)
                ex.assume(ctx.sizes[s] >= 0)
        senv = dict(ctx.sizes)
        for cl in c.size_constraints:
            ex.assume(ex.eval_clause(cl, senv, None))
        for name, spec in c.ghost_params.items():
            v = make_value(ex, spec, name, {**senv, **env})
            env[name] = v
        params, vararg, kwarg = info.params()
        for p, default in params:
            if p in c.params and not isinstance(c.params[p], str):
                env[p] = dict(c.params[p]) if isinstance(c.params[p], dict) else c.params[p]   # a literal python value
            elif p in c.params and c.params[p].startswith("alias(") and c.params[p].endswith(")"):
                # the caller passes an object it already holds elsewhere among the arguments: alias(<param>.<field>...)
                env[p] = ex.eval_clause(c.params[p][len("alias("):-1], {**senv, **env}, None)
            elif p in c.params:
                env[p] = make_value(ex, c.params[p], p, {**senv, **env})
            elif default is not None:
                from .symexec import _ModuleFrameInfo
                from .engine import Frame
                env[p] = ex.eval(default, {}, Frame(_ModuleFrameInfo(info.modname, info.file), None))
            else:
                raise Unsupported(f"parameter {p} of {info.qualname} has no type in the contract")
        if kwarg:
            env[kwarg] = c.params.get(kwarg, {})
            if isinstance(env[kwarg], str):
                env[kwarg] = make_value(ex, env[kwarg], kwarg, {**senv, **env})
            elif isinstance(env[kwarg], dict):
                kw = {}
                for k, v in env[kwarg].items():
                    if isinstance(v, str) and v.startswith("absent_or(") and v.endswith(")"):
                        # the keyword may be omitted by the caller (one path) or passed (other paths)
                        if ex.nondet(2) == 0:
                            continue
                        v = v[len("absent_or("):-1]
                    kw[k] = make_value(ex, v, k, {**senv, **env}) if isinstance(v, str) else v
                env[kwarg] = kw
        if vararg:
            env[vararg] = ()
        for k, v in ctx.sizes.items():
            env.setdefault(k, v)
        # recursive spec functions of the contract (options["recdefs"] = [(name, [int args], body clause)]): counting functions
        # over the inputs, defined with z3's recursive-function facility (unfolded on demand)
        ctx.recfuns = {}
        for (rname, rargs, rbody) in (c.options.get("recdefs") or []):
            _REC_COUNTER[0] += 1
            f = z3.RecFunction(f"rec_{rname}_{_REC_COUNTER[0]}", *([z3.IntSort()] * len(rargs)), z3.IntSort())
            zs = [z3.Int(fresh_name("r_" + a)) for a in rargs]
            ctx.recfuns[rname] = (lambda ex_, a_, k_, n_, f=f: f(*[to_z3(x, "int") for x in a_]))
            cenv = dict(env)
            cenv.update(dict(zip(rargs, zs)))
            body = ex.eval_clause(rbody, cenv, None)
            z3.RecAddDefinition(f, zs, to_z3(body, "int"))
        return env
    return make_inputs


_REC_COUNTER = [0]


def verify_function(qualname, options=None, timeout_ms=10000, repo_root=None):
    options = dict(options or {})
    t0 = time.time()
    repo = Repo(repo_root)
    reg = load_all()
    c = reg.get(qualname)
    info = repo.get_function(qualname.split("@")[0])
    res = {"function": qualname, "status": "ok", "obligations": [], "paths": 0, "trusted": [], "seconds": 0.0,
           "file": None, "line": None, "sha256": None, "callees_assumed": [], "finite": options.get("finite")}
    if info is None:
        res["status"] = "undecided"
        res["reason"] = "function not found in the repository (renamed or removed)"
        return res
    res["file"] = os.path.relpath(info.file, repo.root)
    res["line"] = info.line
    res["sha256"] = info.sha256
    if c is None:
        res["status"] = "undecided"
        res["reason"] = "no contract"
        return res
    opts = dict(c.options)
    opts.update(options)
    if c.options.get("frame_scan") is not None:
        # syntactic frame obligations (function outside the symbolic subset): one obligation per store rooted at the named object,
        # plus one summarising obligation so that the count never drops to zero
        from .framescan import scan
        root, allowed = c.options["frame_scan"]
        found = scan(info, root, allowed)
        short = qualname.replace("uxarray.", "", 1)
        names = {}
        for kind, text, line, ok, slot in found:
            base = f"{short}/frame_scan:{slot}"
            k = names.get(base, 0)
            names[base] = k + 1
            res["obligations"].append({"name": base if k == 0 else f"{base}#{k}", "kind": "frame_scan", "status": "discharged" if ok else "failed",
                                       "clause": f"stores into `{root}` are limited to {sorted(allowed)}: {text}", "loc": f"{res['file']}:{line}",
                                       "backend": "frame-scan", "seconds": 0.0, "model": None, "reason": "decided from the AST", "path": None,
                                       "concrete": None})
        bad = [f for f in found if not f[3]]
        res["obligations"].append({"name": f"{short}/frame_scan", "kind": "frame_scan", "status": "failed" if bad else "discharged",
                                   "clause": f"{short} writes no state of `{root}` other than {sorted(allowed)} ({len(found)} stores inspected)",
                                   "loc": f"{res['file']}:{res['line']}", "backend": "frame-scan", "seconds": 0.0, "model": None,
                                   "reason": "decided from the AST", "path": None, "concrete": None})
        res["paths"] = 1
        res["trusted"] = ["frame-scan: stores through aliases of the object or inside callees are not seen (syntactic)"]
        res["seconds"] = round(time.time() - t0, 3)
        return res
    if c.options.get("class_state_scan"):
        # syntactic data-structure obligation: the class of this method creates its mutable state per instance - no dict / list / set
        # (literal, comprehension or constructor call) is bound at class level, where every instance would share it
        import ast as _ast
        short = qualname.replace("uxarray.", "", 1).split("@")[0]
        clsname = qualname.split("@")[0].split(".")[-2]
        tree = _ast.parse(open(info.file).read())
        bad, seen = [], 0
        for node in _ast.walk(tree):
            if isinstance(node, _ast.ClassDef) and node.name == clsname:
                for st in node.body:
                    if isinstance(st, (_ast.Assign, _ast.AnnAssign)) and st.value is not None:
                        seen += 1
                        v = st.value
                        mutable = isinstance(v, (_ast.Dict, _ast.List, _ast.Set, _ast.DictComp, _ast.ListComp, _ast.SetComp)) or (
                            isinstance(v, _ast.Call) and isinstance(v.func, _ast.Name) and v.func.id in ("dict", "list", "set", "defaultdict"))
                        names = [t.id for t in (st.targets if isinstance(st, _ast.Assign) else [st.target]) if isinstance(t, _ast.Name)]
                        ok = not mutable
                        res["obligations"].append({"name": f"{short}/class_state:{'/'.join(names) or 'target'}", "kind": "class_state",
                                                   "status": "discharged" if ok else "failed",
                                                   "clause": f"class-level binding of {names} is not a mutable container shared by all instances",
                                                   "loc": f"{res['file']}:{st.lineno}", "backend": "class-scan", "seconds": 0.0, "model": None,
                                                   "reason": "decided from the AST", "path": None, "concrete": None})
                        if not ok:
                            bad.append(names)
        res["obligations"].append({"name": f"{short}/class_state", "kind": "class_state", "status": "failed" if bad else "discharged",
                                   "clause": f"class {clsname} binds no mutable container at class level ({seen} class-level bindings inspected)",
                                   "loc": f"{res['file']}:{res['line']}", "backend": "class-scan", "seconds": 0.0, "model": None,
                                   "reason": "decided from the AST", "path": None, "concrete": None})
        res["paths"] = 1
        res["trusted"] = ["class-scan: containers created by other means (module-level objects referenced from the class) are not seen"]
        res["seconds"] = round(time.time() - t0, 3)
        return res
    ctx = Ctx(repo, reg, options=opts)
    if opts.get("abstract") and opts.get("py_int_injective"):
        # python ints as abstract objects: distinct integers are distinct objects (py:int is injective) - a quantified axiom, only
        # for contracts that ask for it (it slows every goal down)
        from .objmodels import F_INT2U
        a_ = z3.Int("a!inj")
        U2I = z3.Function("py:int_inv", F_INT2U.range(), z3.IntSort())
        ctx.global_axioms.append(z3.ForAll([a_], U2I(F_INT2U(a_)) == a_, patterns=[F_INT2U(a_)]))
    ex = Exec(ctx)
    try:
        ex.verify_function(info, c, _make_inputs_factory(c, info, ctx))
    except Unsupported as e:
        res["status"] = "undecided"
        res["reason"] = f"unsupported: {e}"
    except RecursionError:
        res["status"] = "undecided"
        res["reason"] = "recursion limit in translation"
    except (TypeError, AttributeError, KeyError, IndexError, AssertionError, ValueError, z3.Z3Exception) as e:
        # the translation met a value shape it has no rule for (typically after the source was changed): the function is
        # UNDECIDED for this run - reported, never a violation, and the bounded stand-ins still run
        res["status"] = "undecided"
        res["reason"] = f"unsupported (internal: {type(e).__name__}: {str(e)[:200]}) {traceback.format_exc().strip().splitlines()[-3][:160]}"
    except Exception as e:  # checker error: never a violation
        res["status"] = "error"
        res["reason"] = f"{type(e).__name__}: {e}\n{traceback.format_exc()[-1500:]}"
    res["paths"] = ctx.paths
    res["trusted"] = sorted(ctx.trusted)
    res["callees_assumed"] = sorted(getattr(ctx, "trust_callee", []))
    tsolve = time.time()
    for ob in ctx.obligations:
        solve_obligation(ob, timeout_ms=(min(timeout_ms, 2000) if "canary" in ob.kind else timeout_ms), seed=int(os.environ.get("VERIF_SEED", "0") or 0) % 1000)
        res["obligations"].append({
            "name": ob.name, "kind": ob.kind, "status": ob.status, "clause": ob.clause, "loc": ob.loc,
            "backend": ob.backend, "seconds": round(ob.seconds, 4), "model": ob.model, "reason": ob.reason,
            "path": getattr(ob, "path", None),
            "concrete": getattr(ob, "concrete", None)})
    res["solver_seconds"] = round(time.time() - tsolve, 3)
    res["seconds"] = round(time.time() - t0, 3)
    return res


def summarize(res):
    obs = res["obligations"]
    real = [o for o in obs if o["kind"] not in ("canary",) and not o["kind"].endswith("_canary")]
    can = [o for o in obs if o["kind"] == "canary" or o["kind"].endswith("_canary")]
    return {
        "function": res["function"], "status": res["status"], "reason": res.get("reason"),
        "n": len(real), "discharged": sum(o["status"] == "discharged" for o in real),
        "failed": [o["name"] for o in real if o["status"] == "failed"],
        "undecided": [o["name"] for o in real if o["status"] == "undecided"],
        "canaries": len(can), "canaries_alive": sum(o["status"] != "discharged" for o in can),
        "paths": res["paths"], "seconds": res["seconds"]}
