"""Library models for numpy array construction, boolean-mask selection / scatter, bulk stores, argmax, ravel/put,
reshape (trusted base; each use is recorded in ctx.trusted).

Boolean-mask compression is modelled without a counting function: `a[mask]` is a *Masked* value = (full array, mask,
axis).  numpy guarantees (i) elementwise operations commute with compression by the same mask, (ii) `x[mask] = v` with
v compressed by the same mask assigns, at every position where the mask holds, the element of v that came from that
position.  So compress -> elementwise -> scatter chains are pointwise and need no quantifier.  A Masked value that
escapes this pattern (returned, reduced, compared with a different mask) is Unsupported (function UNDECIDED).
"""
import ast

import z3

from . import engine as E
from . import values as V
from .engine import DType, and_vals, arith, eq_val, forall_ranges, ite_val, not_val
from .npmodels import METHODS, MODELS, SPEC_BUILTINS, map1, method, model, spec, trusted, to_small
from .values import Arr, ListMap, Small, Unsupported, fresh_name, is_scalar, is_z3, kind_of, to_z3


Masked = V.Masked


def same_mask(a, b):
    if a is b:
        return True
    try:
        return z3.eq(z3.simplify(a.term), z3.simplify(b.term))
    except Exception:
        return False


def _kind_of_dtype(dtype, default="real"):
    if dtype is None:
        return default
    if isinstance(dtype, DType):
        if dtype.is_int:
            return "int"
        if dtype.is_float:
            return "real"
        if E.canonical_dtype(dtype.name) == "bool":
            return "bool"
    if isinstance(dtype, V.Builtin):
        return {"int": "int", "float": "real", "bool": "bool"}.get(dtype.name, default)
    raise Unsupported(f"dtype {dtype!r}")


def _shape_arg(v):
    if isinstance(v, (list, tuple)):
        return list(v)
    if isinstance(v, Small):
        return list(v.flat())
    return [v]


def _alloc(name, fillv):
    def h(ex, args, kwargs, node):
        trusted(ex, f"numpy.{name}: fresh C-contiguous array of the requested shape/dtype")
        shape = _shape_arg(kwargs.get("shape", args[0] if args else None))
        if name == "full":
            fv = kwargs.get("fill_value", args[1] if len(args) > 1 else None)
            dtype = kwargs.get("dtype", args[2] if len(args) > 2 else None)
            kind = _kind_of_dtype(dtype, kind_of(fv) or "real")
        else:
            fv = fillv
            dtype = kwargs.get("dtype", args[1] if len(args) > 1 else None)
            kind = _kind_of_dtype(dtype, "real")
        if fv is None:
            a = Arr.fresh(name, shape, kind)
        else:
            if kind == "bool":
                c = z3.BoolVal(bool(fv))
            else:
                c = to_z3(fv, kind)
            a = Arr(z3.K(V.INT, c) if len(shape) == 1 else z3.Lambda([z3.Int(fresh_name("i")) for _ in shape], c), shape, kind,
                    name=name)
        a.ghost["owner"] = "fresh"
        a.ghost["corder"] = True
        if isinstance(dtype, DType):
            a.ghost["dtype"] = E.canonical_dtype(dtype.name)
        elif kind == "real":
            a.ghost["dtype"] = "float64"
        return a
    return h


MODELS["numpy.zeros"] = _alloc("zeros", 0)
MODELS["numpy.ones"] = _alloc("ones", 1)
MODELS["numpy.empty"] = _alloc("empty", None)
MODELS["numpy.full"] = _alloc("full", None)


@model("numpy.arange")
def np_arange(ex, args, kwargs, node):
    trusted(ex, "numpy.arange")
    if len(args) == 1:
        lo, hi = 0, args[0]
    elif len(args) == 2:
        lo, hi = args
    else:
        raise Unsupported("arange with step")
    n = arith("-", hi, lo)
    a = Arr.from_lambda([n], "int", lambda i: i + to_z3(lo, "int"), name="arange")
    a.ghost.update(owner="fresh", corder=True, dtype="int64")
    return a


# ---------------------------------------------------------------------------------------------- mask select
def _is_mask(i):
    return isinstance(i, Arr) and i.kind == "bool"


def _expand_idx(ex, a, idx):
    from .symexec import _SliceVal
    idx = list(idx)
    if any(i is Ellipsis for i in idx):
        p = idx.index(Ellipsis)
        fill = a.rank - (len(idx) - 1)
        idx = idx[:p] + [_SliceVal(None, None, None)] * fill + idx[p + 1:]
    while len(idx) < a.rank:
        idx.append(_SliceVal(None, None, None))
    return idx


@model("__mask_select__")
def mask_select(ex, args, kwargs, node):
    from .symexec import _SliceVal
    a, idx = args[0], _expand_idx(ex, args[0], args[1:])
    trusted(ex, "numpy boolean-mask indexing: compression commutes with elementwise operations and with scatter by the same mask")
    if isinstance(a, Masked):
        raise Unsupported("mask selection on a compressed array")
    p = [k for k, i in enumerate(idx) if _is_mask(i)]
    if len(p) != 1:
        raise Unsupported("several boolean masks in one index")
    p = p[0]
    mask = idx[p]
    if mask.rank == a.rank and mask.rank > 1 and p == 0 and len([i for i in args[1:] if i is not Ellipsis]) == 1:
        # a[mask] with a mask of the array's own shape
        for x, y in zip(mask.shape, a.shape):
            _len_match(ex, x, y, node)
        return Masked(a, mask, "all")
    if mask.rank != 1:
        raise Unsupported("multi-dimensional boolean mask")
    _len_match(ex, mask.shape[0], a.shape[p], node)
    idx2 = list(idx)
    idx2[p] = _SliceVal(None, None, None)
    view = ex.index_arr(a, tuple(idx2), node)
    axis = sum(1 for i in idx[:p] if isinstance(i, _SliceVal))
    if not isinstance(view, Arr):
        raise Unsupported("mask selection left no array")
    return Masked(view, mask, axis)


@method("Masked", "call:min")
def masked_min(ex, obj, args, kwargs, node, env, fr):
    """a[mask].min() for a full-shape boolean mask: a lower bound of the selected entries that is attained (numpy raises ValueError
    on an empty selection: obligation)"""
    if args or kwargs or obj.axis != "all" or obj.full.kind not in ("int", "real"):
        raise Unsupported(".min() of this selection")
    a, mask = obj.full, obj.mask
    idx = [z3.Int(fresh_name("i")) for _ in range(a.rank)]
    guard = z3.And(*[z3.And(i >= 0, i < to_z3(d, "int")) for i, d in zip(idx, a.shape)])
    ex.oblige("min_nonempty", z3.Exists(idx, z3.And(guard, mask.sel(*idx))), "min() of a non-empty selection (numpy raises ValueError otherwise)", node)
    trusted(ex, "ndarray.min(): a lower bound of all selected entries that is attained")
    m = z3.Const(fresh_name("min"), V.sort_of(a.kind))
    ex.assume(z3.ForAll(idx, z3.Implies(z3.And(guard, mask.sel(*idx)), a.sel(*idx) >= m), patterns=[a.sel(*idx)]))
    w = [z3.Int(fresh_name("argmin")) for _ in range(a.rank)]
    ex.assume(z3.And(*[z3.And(i >= 0, i < to_z3(d, "int")) for i, d in zip(w, a.shape)], mask.sel(*w), a.sel(*w) == m))
    return m


def _len_match(ex, n, m, node):
    cn, cm = E._conc(n), E._conc(m)
    if cn is not None and cm is not None:
        if cn != cm:
            from .symexec import PathRaise
            raise PathRaise("IndexError", node)
        return
    if not z3.eq(z3.simplify(to_z3(n, "int")), z3.simplify(to_z3(m, "int"))):
        ex.oblige("mask_len", eq_val(n, m), "boolean mask has the length of the indexed axis", node)


def gather_masked(ex, a, idx, node):
    """a[..., M, ...] with M a compressed integer array: result compressed by the same mask"""
    idx = _expand_idx(ex, a, idx)
    p = [k for k, i in enumerate(idx) if isinstance(i, Masked)]
    if len(p) != 1 or any(isinstance(i, Arr) for i in idx):
        raise Unsupported("compressed index combined with other index arrays")
    p = p[0]
    M = idx[p]
    if M.full.kind != "int":
        raise Unsupported("non-integer compressed index")
    if M.full.rank != 1:
        raise Unsupported("multi-dimensional compressed index")
    # index-in-range only where the mask holds
    if ex.ctx.options.get("index_checks", True):
        dz = to_z3(a.shape[p], "int")
        g = forall_ranges([(0, M.full.shape[0])],
                          lambda o: z3.Implies(M.mask.sel(o), z3.And(M.full.sel(o) >= 0, M.full.sel(o) < dz)),
                          patterns_fn=lambda o: [M.full.sel(o)])
        ex.oblige("index_gather", g, f"every selected entry of the index array is within [0, size) ({ast.unparse(node)[:50]})", node)
    _ghost_space(ex, a, M.full, node)
    idx2 = list(idx)
    idx2[p] = M.full
    out = ex.index_arr(a, tuple(idx2), node, check=False)
    from .symexec import _SliceVal
    axis = sum(1 for i in idx[:p] if isinstance(i, _SliceVal))
    return Masked(out, M.mask, axis)


def _ghost_space(ex, a, i, node):
    if a.ghost.get("space") and i.ghost.get("vspace") and ex.emitting:
        ok = a.ghost["space"] == i.ghost["vspace"]
        ex.oblige("ghost_space", ok, f"index array holds {i.ghost['vspace']} indices, indexed array is laid out over "
                  f"{a.ghost['space']}", node, static=ok, backend="ghost-static")


def masked_binop(ex, a, b, fn, kind):
    """elementwise op where at least one side is Masked"""
    ma = a if isinstance(a, Masked) else None
    mb = b if isinstance(b, Masked) else None
    if ma is not None and mb is not None:
        if not same_mask(ma.mask, mb.mask):
            raise Unsupported("elementwise operation on arrays compressed by different masks")
        ra, rb = ma.full.rank, mb.full.rank
        hi, lo = (ma, mb) if ra >= rb else (mb, ma)
        if hi.axis == "all" or lo.axis == "all":
            if hi.axis != lo.axis or ra != rb:
                raise Unsupported("compressed axes do not align")
        elif hi.axis != lo.axis + (hi.full.rank - lo.full.rank):
            raise Unsupported("compressed axes do not align under broadcasting")
        r = ex.elementwise2(ma.full, mb.full, fn, kind)
        return Masked(r, hi.mask, hi.axis)
    m = ma or mb
    other = b if ma is not None else a
    if isinstance(other, (Arr, Small)):
        raise Unsupported("elementwise operation between a compressed and an uncompressed array")
    r = ex.elementwise2(a.full if ma is not None else a, b.full if mb is not None else b, fn, kind)
    return Masked(r, m.mask, m.axis)


# ---------------------------------------------------------------------------------------------- bulk stores
@model("__bulk_store__")
def bulk_store(ex, a, idx, v, node):
    from .symexec import _SliceVal, PathRaise
    trusted(ex, "numpy slice / mask assignment")
    if a.base is not None:
        root, mp = a.base
        raise Unsupported("bulk store through a view")
    idx = _expand_idx(ex, a, idx)
    masks = [k for k, i in enumerate(idx) if _is_mask(i)]
    ivs = [z3.Int(fresh_name("s")) for _ in a.shape]
    if len(masks) == 1 and idx[masks[0]].rank == a.rank and a.rank > 1:
        mask = idx[masks[0]]
        for x, y in zip(mask.shape, a.shape):
            _len_match(ex, x, y, node)
        if isinstance(v, Masked):
            if v.axis != "all" or not same_mask(v.mask, mask):
                raise Unsupported("scatter of an array compressed by a different mask")
            newv = v.full.sel(*ivs)
        elif is_scalar(v):
            newv = v
        else:
            raise Unsupported("mask store of an uncompressed array")
        a.set_term(z3.Lambda(ivs, z3.If(mask.sel(*ivs), ex.coerce_elem(a, newv, node), a.sel(*ivs))))
        return
    if masks:
        if len(masks) != 1 or any(not isinstance(i, _SliceVal) or i.lo is not None or i.hi is not None
                                  for k, i in enumerate(idx) if k != masks[0]):
            raise Unsupported("mask store combined with partial slices")
        p = masks[0]
        mask = idx[p]
        _len_match(ex, mask.shape[0], a.shape[p], node)
        if isinstance(v, Masked):
            if not same_mask(v.mask, mask) or v.axis != p or v.full.rank != a.rank:
                raise Unsupported("scatter of an array compressed by a different mask / axis")
            newv = v.full.sel(*ivs)
        elif is_scalar(v):
            newv = v
        else:
            raise Unsupported("mask store of an uncompressed array")
        body = z3.If(mask.sel(ivs[p]), ex.coerce_elem(a, newv, node), a.sel(*ivs))
        a.set_term(z3.Lambda(ivs, body))
        return
    # a[..., I] = v with a 1-D integer index array on the last axis (scatter)
    if isinstance(idx[-1], Arr) and idx[-1].kind == "int" and idx[-1].rank == 1 and all(
            isinstance(i, _SliceVal) and i.lo is None and i.hi is None for i in idx[:-1]):
        I = idx[-1]
        if not (isinstance(v, Arr) and v.rank == a.rank):
            raise Unsupported("scatter of something else than an array of the target's rank")
        trusted(ex, "numpy index-array assignment a[..., I] = v with distinct indices: a[..., I[p]] = v[..., p], everything else unchanged")
        L = I.shape[0]
        _len_match(ex, v.shape[-1], L, node)
        dz = to_z3(a.shape[-1], "int")
        Lz = to_z3(L, "int")
        ex.oblige("index_scatter", forall_ranges([(0, L)], lambda o: z3.And(I.sel(o) >= 0, I.sel(o) < dz), patterns_fn=lambda o: [I.sel(o)]),
                  "scattered positions are within [0, size)", node)
        p_, q_ = z3.Int(fresh_name("p")), z3.Int(fresh_name("q"))
        ex.oblige("scatter_distinct", z3.ForAll([p_, q_], z3.Implies(z3.And(0 <= p_, p_ < q_, q_ < Lz), I.sel(p_) != I.sel(q_))),
                  "index array of a scatter has no repeated position (otherwise the last write wins: not modelled)", node)
        old = a.term
        new = z3.Const(fresh_name(a.name + "'"), old.sort())
        lead = [z3.Int(fresh_name("x")) for _ in a.shape[:-1]]
        f_ = z3.Int(fresh_name("f"))
        wit = z3.Function(fresh_name("scatpos"), V.INT, V.INT)
        guard_lead = [z3.And(x >= 0, x < to_z3(s_, "int")) for x, s_ in zip(lead, a.shape[:-1])]
        a1_body = z3.Implies(z3.And(*guard_lead, p_ >= 0, p_ < Lz),
                             z3.Select(new, *lead, I.sel(p_)) == to_z3(v.sel(*lead, p_), a.kind))
        try:
            a1 = z3.ForAll(lead + [p_], a1_body, patterns=[v.sel(*lead, p_)])   # trigger on the scattered value's own cell
        except z3.Z3Exception:
            a1 = z3.ForAll(lead + [p_], a1_body)
        a2 = z3.ForAll(lead + [f_], z3.Or(z3.Select(new, *lead, f_) == z3.Select(old, *lead, f_),
                                           z3.And(wit(f_) >= 0, wit(f_) < Lz, I.sel(wit(f_)) == f_)),
                       patterns=[z3.Select(new, *lead, f_)])
        ex.assume(a1)
        ex.assume(a2)
        a.set_term(new)
        return
    # slices and fixed positions only
    conds = []
    vidx = []
    vshape = []
    for d, i in enumerate(idx):
        if isinstance(i, _SliceVal):
            lo, hi = ex.norm_slice(i, a.shape[d], node)
            loz, hiz = to_z3(lo, "int"), to_z3(hi, "int")
            if not (isinstance(lo, int) and lo == 0):
                conds.append(ivs[d] >= loz)
            if hi is not a.shape[d]:
                conds.append(ivs[d] < hiz)
            vidx.append(ivs[d] - loz if not (isinstance(lo, int) and lo == 0) else ivs[d])
            from .symexec import _len_sub
            vshape.append(_len_sub(hi, lo))
        elif isinstance(i, (Arr, list, Small, Masked)):
            raise Unsupported("index-array store")
        else:
            ii = ex.norm_index(i, a.shape[d], node)
            conds.append(ivs[d] == to_z3(ii, "int"))
    if isinstance(v, (list, tuple)) and all(is_scalar(x) for x in v):
        v = to_small(ex, list(v))
    if isinstance(v, Arr):
        if v.rank > len(vidx):
            raise PathRaise("ValueError", node)
        for x, y in zip(v.shape[::-1], vshape[::-1]):
            cx, cy = E._conc(x), E._conc(y)
            if cx is not None and cy is not None:
                if cx != cy and cx != 1:
                    raise PathRaise("ValueError", node)
            elif not z3.eq(z3.simplify(to_z3(x, "int")), z3.simplify(to_z3(y, "int"))):
                ex.oblige("store_shape", eq_val(x, y), "assigned array has the shape of the target slice", node)
        newv = v.sel(*vidx[len(vidx) - v.rank:])
    elif isinstance(v, Small):
        if len(vidx) != 1 or v.rank != 1:
            raise Unsupported("small-array store into a multi-dimensional slice")
        n = len(v.data)
        cy = E._conc(vshape[0])
        if cy is not None and cy != n:
            raise PathRaise("ValueError", node)
        if cy is None:
            ex.oblige("store_shape", eq_val(vshape[0], n), "assigned sequence has the length of the target slice", node)
        newv = v.data[-1]
        for k in range(n - 2, -1, -1):
            newv = ite_val(vidx[0] == k, v.data[k], newv)
    elif isinstance(v, V_ListMapRow()):
        if len(vidx) != 1:
            raise Unsupported("list store into a multi-dimensional slice")
        ln = z3.Select(v.lm.len, to_z3(v.key, "int"))
        ex.oblige("store_shape", eq_val(vshape[0], ln), "assigned list has the length of the target slice", node)
        newv = z3.Select(v.lm.elems, to_z3(v.key, "int"), vidx[0])
    elif is_scalar(v):
        newv = v
    else:
        raise Unsupported(f"bulk store of {type(v).__name__}")
    cond = z3.And(*conds) if conds else z3.BoolVal(True)
    a.set_term(z3.Lambda(ivs, z3.If(cond, ex.coerce_elem(a, newv, node), a.sel(*ivs))))


def V_ListMapRow():
    from .symexec import _ListMapRow
    return _ListMapRow


# ---------------------------------------------------------------------------------------------- argmax / put / ravel / reshape
@model("numpy.argmax")
def np_argmax(ex, args, kwargs, node):
    """argmax of a boolean 2-D array along axis=1: first True position of the row, 0 when the row has none"""
    a = args[0]
    axis = kwargs.get("axis", args[1] if len(args) > 1 else None)
    if not (isinstance(a, Arr) and a.kind == "bool" and a.rank == 2 and axis == 1):
        raise Unsupported("argmax other than boolean rows (axis=1)")
    trusted(ex, "numpy.argmax(bool 2-D, axis=1): first True of each row, 0 if none")
    n, w = a.shape
    r = Arr.fresh("argmax", [n], "int", ghost={"owner": "fresh", "corder": True, "dtype": "int64"})
    f, j = z3.Int(fresh_name("f")), z3.Int(fresh_name("j"))
    wz = to_z3(w, "int")
    rf = r.sel(f)
    ex.assume(z3.ForAll([f], z3.Implies(z3.And(f >= 0, f < to_z3(n, "int")), z3.And(rf >= 0, z3.Or(rf < wz, z3.And(wz == 0, rf == 0)))),
                        patterns=[rf]))
    # every position before the result is False; the result position is True unless the row has no True at all
    cell = z3.simplify(a.sel(f, j))
    pp = [p for p in pick_patterns(cell, j) if z3.is_app(p)]
    kw = {"patterns": [z3.MultiPattern(rf, pp[0])]} if pp else {}
    ex.assume(z3.ForAll([f, j], z3.Implies(z3.And(f >= 0, f < to_z3(n, "int"), j >= 0, j < rf), z3.Not(a.sel(f, j))), **kw))
    ex.assume(z3.ForAll([f, j], z3.Implies(z3.And(f >= 0, f < to_z3(n, "int"), j >= 0, j < wz, a.sel(f, j)),
                                           z3.And(a.sel(f, rf), rf <= j)), **kw))
    return r


class RavelView:
    """a.ravel() of a C-contiguous 2-D array: a writable flat view (numpy returns a copy for other layouts)"""

    def __init__(self, base):
        self.base = base


@method("Arr", "call:ravel")
def arr_ravel(ex, obj, args, kwargs, node, env, fr):
    trusted(ex, "ndarray.ravel(): row-major flattening; a view iff the array is C-contiguous")
    return RavelView(obj)


@method("Arr", "call:flatten")
def arr_flatten(ex, obj, args, kwargs, node, env, fr):
    return ravel_copy(ex, obj, node)


def ravel_copy(ex, a, node):
    """row-major flat copy of a 2-D (or 1-D) array"""
    if a.rank == 1:
        r = Arr(a.term, a.shape, a.kind, ghost=a.ghost)
        r.ghost["owner"] = "fresh"
        return r
    if a.rank != 2:
        raise Unsupported("ravel of rank > 2")
    n, w = a.shape
    wz = to_z3(w, "int")
    total = arith("*", n, w)
    k = z3.Int(fresh_name("k"))
    # row = k div w, col = k mod w  (w > 0 whenever an element is read)
    r = Arr(z3.Lambda([k], a.sel(k / wz, k % wz)), [total], a.kind, ghost=a.ghost)
    r.ghost["owner"] = "fresh"
    r.ghost["corder"] = True
    return r


@model("numpy.put")
def np_put(ex, args, kwargs, node):
    """np.put(a.ravel(), ind, v): a[row(ind[t]), col(ind[t])] = v[t] for all t (ind distinct is NOT assumed: later wins;
    we require distinctness as an obligation to keep the model functional)"""
    from .symexec import PathRaise
    tgt, ind, v = args[:3]
    if not isinstance(tgt, RavelView):
        raise Unsupported("np.put on something else than a ravel() view")
    a = tgt.base
    ok = a.ghost.get("corder") is True
    ex.oblige("ravel_view", ok, "np.put(x.ravel(), ...) writes through to x only if x is C-contiguous (freshly allocated "
              "with numpy.ones/zeros/full/empty or .copy()); otherwise ravel() is a temporary copy and the write is lost",
              node, static=ok, backend="ghost-static")
    if a.rank != 2 or not isinstance(ind, Arr) or ind.rank != 1 or not isinstance(v, Arr) or v.rank != 1:
        raise Unsupported("np.put shape")
    trusted(ex, "numpy.put on a ravel view: flat index k addresses element (k div W, k mod W)")
    n, w = a.shape
    nz, wz = to_z3(n, "int"), to_z3(w, "int")
    m = ind.shape[0]
    _len_match(ex, m, v.shape[0], node)
    t, t2 = z3.Int(fresh_name("t")), z3.Int(fresh_name("t"))
    mz = to_z3(m, "int")
    ex.oblige("index_put", forall_ranges([(0, m)], lambda o: z3.And(ind.sel(o) >= 0, ind.sel(o) < nz * wz),
                                         patterns_fn=lambda o: [ind.sel(o)]),
              "flat indices of np.put are within the array", node)
    # functional model for the common case ind[t] = W*t + c[t] with 0 <= c[t] < W (one write per row): detect by obligation
    ex.oblige("put_one_per_row", forall_ranges([(0, m)], lambda o: z3.And(ind.sel(o) >= wz * o, ind.sel(o) < wz * (o + 1)),
                                               patterns_fn=lambda o: [ind.sel(o)]),
              "np.put writes exactly one element in row t for the t-th index (model restriction)", node)
    _len_match(ex, m, n, node)
    old = a.term
    f, j = z3.Int(fresh_name("f")), z3.Int(fresh_name("j"))
    oldsel = z3.Select(old, f, j)
    body = z3.If(z3.And(f >= 0, f < nz, ind.sel(f) == wz * f + j), to_z3(v.sel(f), a.kind), oldsel)
    a.set_term(z3.Lambda([f, j], body))
    return None


@method("Arr", "call:reshape")
def arr_reshape(ex, obj, args, kwargs, node, env, fr):
    shape = _shape_arg(args[0]) if len(args) == 1 else list(args)
    trusted(ex, "ndarray.reshape (row-major)")
    if obj.rank == 1 and len(shape) == 2:
        n, w = shape
        ex.oblige("reshape_size", eq_val(obj.shape[0], arith("*", n, w)), "reshape keeps the number of elements", node)
        wz = to_z3(w, "int")
        r = Arr.from_lambda([n, w], obj.kind, lambda f, j: obj.sel(wz * f + j), ghost=obj.ghost)
        return r
    raise Unsupported("reshape other than 1-D -> 2-D")


@method("RavelView", "shape")
def rv_shape(ex, base, node, env, fr):
    return (arith("*", base.base.shape[0], base.base.shape[1]),)


# spec-level helpers ------------------------------------------------------------------------------
@spec("dtype_is")
def sp_dtype_is(ex, args, kwargs, node):
    a, name = args
    d = a.ghost.get("dtype") if hasattr(a, "ghost") else None
    if d is None and isinstance(a, Arr):
        d = {"real": "float64", "int": "int64", "bool": "bool"}[a.kind]
    return E.canonical_dtype(str(d)) == E.canonical_dtype(name)


@spec("owner_is")
def sp_owner_is(ex, args, kwargs, node):
    a, name = args
    return (getattr(a, "ghost", {}) or {}).get("owner") == name


# ---------------------------------------------------------------------------------------------- np.where(mask) / nonzero
def pick_patterns(expr, var):
    """smallest select / uninterpreted-function subterms of expr that mention var (usable as E-matching triggers)"""
    out = []
    seen = set()

    def mentions(e):
        stack = [e]
        while stack:
            x = stack.pop()
            if z3.is_var(x):
                continue
            if x.get_id() == var.get_id():
                return True
            if z3.is_app(x):
                stack.extend(x.children())
        return False

    def rec(e):
        if e.get_id() in seen or not z3.is_app(e):
            return
        seen.add(e.get_id())
        kids = e.children()
        k = e.decl().kind()
        good = k in (z3.Z3_OP_SELECT, z3.Z3_OP_UNINTERPRETED) and kids
        sub = [c for c in kids if mentions(c)]
        if good and sub and all(c.get_id() == var.get_id() or not z3.is_app(c) or not c.children() for c in sub):
            out.append(e)
            return
        for c in kids:
            rec(c)
        if good and mentions(e) and not out:
            out.append(e)
    rec(expr)
    return out


@model("__where1__")
def np_where1(ex, args, kwargs, node):
    """np.where(mask) for a 1-D mask: a 1-tuple holding the increasing positions where the mask is True"""
    (mask,) = args
    if isinstance(mask, Masked) or not isinstance(mask, Arr) or mask.kind != "bool" or mask.rank != 1:
        raise Unsupported("np.where(cond) of something else than a 1-D boolean array")
    trusted(ex, "numpy.where(mask)[0]: strictly increasing positions of the True entries, all of them")
    n = to_z3(mask.shape[0], "int")
    L = z3.Int(fresh_name("nnz"))
    idx = Arr.fresh("where", [L], "int", ghost={"owner": "fresh", "corder": True, "dtype": "int64"})
    wit = z3.Function(fresh_name("wherepos"), V.INT, V.INT)
    t, t2, e = z3.Int(fresh_name("t")), z3.Int(fresh_name("t")), z3.Int(fresh_name("e"))
    ex.assume(z3.And(L >= 0, L <= n))
    ex.assume(z3.ForAll([t], z3.Implies(z3.And(t >= 0, t < L), z3.And(idx.sel(t) >= 0, idx.sel(t) < n, mask.sel(idx.sel(t)))),
                        patterns=[idx.sel(t)]))
    ex.assume(z3.ForAll([t, t2], z3.Implies(z3.And(t >= 0, t < t2, t2 < L), idx.sel(t) < idx.sel(t2)),
                        patterns=[z3.MultiPattern(idx.sel(t), idx.sel(t2))]))
    body = mask.sel(e)
    pats = pick_patterns(z3.simplify(body), e) or None
    comp = z3.Implies(z3.And(e >= 0, e < n, body), z3.And(wit(e) >= 0, wit(e) < L, idx.sel(wit(e)) == e))
    ex.assume(z3.ForAll([e], comp, patterns=[wit(e)] + ([p for p in pats] if pats else [])) if pats else z3.ForAll([e], comp, patterns=[wit(e)]))
    return (idx,)


MODELS["numpy.nonzero"] = np_where1


@model("numpy.pad")
def np_pad(ex, args, kwargs, node):
    """np.pad(a, ((0, 0), (0, k)), constant_values=c) on a 2-D array: k extra columns holding c.  The result keeps the memory
    layout of its input (so it is C-contiguous only if the input is known to be)."""
    a = args[0]
    width = kwargs.get("pad_width", args[1] if len(args) > 1 else None)
    cv = kwargs.get("constant_values", 0)
    if isinstance(a, Arr) and a.rank == 1 and isinstance(width, (tuple, list)) and len(width) == 2 and width[0] == 0:
        # np.pad(a, (0, m), constant_values=c) on a 1-D array: m extra entries holding c (numpy raises ValueError for m < 0)
        m = width[1]
        ex.oblige("pad_width", E.compare(ast.GtE(), m, 0), "np.pad width is not negative (numpy raises ValueError otherwise)", node)
        trusted(ex, "numpy.pad(constant) 1-D: appended entries hold the constant")
        ln = to_z3(a.shape[0], "int")
        r = Arr.from_lambda([arith("+", a.shape[0], m)], a.kind, lambda t: z3.If(t < ln, a.sel(t), to_z3(cv, a.kind)))
        r.ghost = {k: v for k, v in a.ghost.items() if k in ("space", "vspace", "dtype")}
        r.ghost.update(owner="fresh", corder=True)
        return r
    if not (isinstance(a, Arr) and a.rank == 2 and isinstance(width, (tuple, list)) and len(width) == 2):
        raise Unsupported("np.pad other than 2-D with explicit widths")
    (r0, r1), (c0, c1) = [tuple(w) for w in width]
    if (r0, r1, c0) != (0, 0, 0) or not isinstance(c1, int):
        raise Unsupported("np.pad widths other than ((0, 0), (0, k))")
    trusted(ex, "numpy.pad(constant): appended columns hold the constant; layout follows the input")
    n, w = a.shape
    wz = to_z3(w, "int")
    r = Arr.from_lambda([n, arith("+", w, c1)], a.kind, lambda f, j: z3.If(j < wz, a.sel(f, j), to_z3(cv, a.kind)))
    r.ghost = {k: v for k, v in a.ghost.items() if k in ("space", "vspace", "dtype")}
    r.ghost["owner"] = "fresh"
    if a.ghost.get("corder") is True:
        r.ghost["corder"] = True
    return r


@model("numpy.argwhere")
def np_argwhere(ex, args, kwargs, node):
    """np.argwhere(a) for a 1-D array: the positions of the non-zero entries, increasing, as an (L, 1) array"""
    (a,) = args
    if not isinstance(a, Arr) or a.rank != 1:
        raise Unsupported("argwhere of something else than a 1-D array")
    if a.kind == "bool":
        mask = a
    else:
        zero = to_z3(0, a.kind)
        mask = Arr.from_lambda(a.shape, "bool", lambda i: a.sel(i) != zero)
    (idx,) = np_where1(ex, [mask], {}, node)
    r = Arr.from_lambda([idx.shape[0], 1], "int", lambda t, c: idx.sel(t))
    r.ghost.update(owner="fresh", corder=True, sorted_unique_flat=idx)
    return r


@model("numpy.unique")
def np_unique(ex, args, kwargs, node):
    a = args[0]
    if kwargs or len(args) > 1:
        raise Unsupported("np.unique with options")
    src = getattr(a, "ghost", {}).get("sorted_unique_flat") if isinstance(a, Arr) else None
    if src is None:
        raise Unsupported("np.unique of an array not known to be strictly increasing")
    trusted(ex, "numpy.unique of a strictly increasing sequence is the flattened sequence itself")
    return src


@method("Arr", "call:squeeze")
def arr_squeeze(ex, obj, args, kwargs, node, env, fr):
    """ndarray.squeeze(): drops axes of length 1.  Axes of symbolic length are required (obligation) not to have length 1,
    so that the rank of the result is known."""
    keep = []
    for d, s in enumerate(obj.shape):
        c = E._conc(s)
        if c == 1:
            continue
        if c is None:
            ex.oblige("squeeze_rank", to_z3(s, "int") != 1,
                      "squeeze() keeps this axis only if its length is not 1 (a length-1 axis would silently drop a dimension)", node)
        keep.append(d)
    if len(keep) == obj.rank:
        return obj
    r = Arr.from_lambda([obj.shape[d] for d in keep], obj.kind,
                        lambda *o: obj.sel(*[(o[keep.index(d)] if d in keep else 0) for d in range(obj.rank)]))
    r.ghost = dict(obj.ghost)
    return r


@spec("snapshot")
def sp_snapshot(ex, args, kwargs, node):
    """value of an array at this program point (ghost code: later in-place stores do not affect the snapshot)"""
    a = args[0]
    if isinstance(a, Arr):
        return Arr(a.term, list(a.shape), a.kind, name=a.name + "@snap", ghost=dict(a.ghost))
    return a


@spec("has_corner")
def sp_has_corner(ex, args, kwargs, node):
    """has_corner(F, f, n): row f of the 2-D table F contains the value n  (definition: exists j < width. F[f, j] == n).
    Rendered as an uninterpreted predicate with a witness function so that no existential sits inside invariants."""
    F, f, n = args
    key = "_corner_pred"
    if F.ghost.get(key) is None or F.ghost.get(key + "_term") is not F._term:
        C = z3.Function(fresh_name("has_corner"), V.INT, V.INT, V.BOOL)
        wj = z3.Function(fresh_name("corner_pos"), V.INT, V.INT, V.INT)
        ff, jj, nn = z3.Int(fresh_name("f")), z3.Int(fresh_name("j")), z3.Int(fresh_name("n"))
        W = to_z3(F.shape[1], "int")
        ex.ctx.global_axioms.append(z3.ForAll([ff, jj], z3.Implies(z3.And(jj >= 0, jj < W), C(ff, F.sel(ff, jj))), patterns=[F.sel(ff, jj)]))
        ex.ctx.global_axioms.append(z3.ForAll([ff, nn], z3.Implies(C(ff, nn), z3.And(wj(ff, nn) >= 0, wj(ff, nn) < W, F.sel(ff, wj(ff, nn)) == nn)),
                                              patterns=[C(ff, nn)]))
        F.ghost[key] = C
        F.ghost[key + "_term"] = F._term
    return F.ghost[key](to_z3(f, "int"), to_z3(n, "int"))


# ---------------------------------------------------------------------------------------------- quadrature rules (C05)
def _flatvals(v):
    if isinstance(v, Small):
        return v.data
    raise Unsupported("quadrature table is not a literal array")


@spec("gauss_rule_ok")
def sp_gauss_rule_ok(ex, args, kwargs, node):
    """gauss_rule_ok(dG, dW, degree, tol): the rule on [0, 1] has positive weights summing to 1, points inside (0, 1) (closed for
    Lobatto), and integrates x^k exactly (to tol) for k = 0..degree.  Decided in exact rational arithmetic on the literals."""
    from fractions import Fraction
    dG, dW, degree, tol = args
    xs = _flatvals(dG)[0]
    ws = _flatvals(dW)
    def conc(v):
        if isinstance(v, (int, float, Fraction)):
            return v
        if isinstance(v, z3.ExprRef):
            v = z3.simplify(v)
            if z3.is_rational_value(v):
                return Fraction(v.numerator_as_long(), v.denominator_as_long())
        raise Unsupported(f"symbolic quadrature table entry {v!r}"[:120])
    xs = [conc(x) for x in xs]
    ws = [conc(w) for w in ws]
    xs = [Fraction(repr(x)) if isinstance(x, float) else Fraction(x) for x in xs]
    ws = [Fraction(repr(w)) if isinstance(w, float) else Fraction(w) for w in ws]
    tol = Fraction(repr(float(tol)))
    ok = len(xs) == len(ws) and all(w > 0 for w in ws) and all(0 <= x <= 1 for x in xs)
    for k in range(int(degree) + 1):
        ok = ok and abs(sum(w * x ** k for w, x in zip(ws, xs)) - Fraction(1, k + 1)) <= tol
    return bool(ok)


@spec("tri_rule_ok")
def sp_tri_rule_ok(ex, args, kwargs, node):
    """tri_rule_ok(dG, dW, order, tol): barycentric points (rows sum to 1, entries in [0, 1]), positive weights summing to 1, and
    exactness  sum_p w_p l1^a l2^b l3^c == 2 a! b! c! / (a + b + c + 2)!  for all a + b + c <= order."""
    from fractions import Fraction
    from math import factorial
    dG, dW, order, tol = args
    rows = _flatvals(dG)
    ws = _flatvals(dW)
    fr = lambda x: Fraction(repr(x)) if isinstance(x, float) else Fraction(x)
    if not all(isinstance(x, (int, float, Fraction)) for r in rows for x in r) or not all(isinstance(w, (int, float, Fraction)) for w in ws):
        raise Unsupported("symbolic quadrature table")
    rows = [[fr(x) for x in r] for r in rows]
    ws = [fr(w) for w in ws]
    tol = Fraction(repr(float(tol)))
    ok = len(rows) == len(ws) and all(w > 0 for w in ws) and all(len(r) == 3 and all(0 <= x <= 1 for x in r) and abs(sum(r) - 1) <= tol for r in rows)
    n = int(order)
    for a in range(n + 1):
        for b in range(n + 1 - a):
            for c in range(n + 1 - a - b):
                exact = Fraction(2 * factorial(a) * factorial(b) * factorial(c), factorial(a + b + c + 2))
                got = sum(w * r[0] ** a * r[1] ** b * r[2] ** c for w, r in zip(ws, rows))
                ok = ok and abs(got - exact) <= tol
    return bool(ok)


@model("numpy.flatnonzero")
def np_flatnonzero(ex, args, kwargs, node):
    (a,) = args
    if isinstance(a, Arr) and a.rank == 1 and a.kind == "bool":
        return np_where1(ex, [a], {}, node)[0]
    r = np_argwhere(ex, [a], {}, node)
    return r.ghost["sorted_unique_flat"]


# ---------------------------------------------------------------------------------------------- counting (np.sum of a mask)
# count_true(M, k) = number of positions j in [0, k) with M[j].  Uninterpreted, with its defining equations and the two
# consequences the solver cannot derive itself (they need induction on k; each is a two-line induction over the defining step:
# the count never decreases and grows by at most one per position) instantiated for every mask term that is counted.
F_COUNT = z3.Function("count_true", z3.ArraySort(V.INT, V.BOOL), V.INT, V.INT)


def count_term(ex, mask_term, n):
    """mask_term: a z3 array Int -> Bool (possibly a lambda).  Lambdas cannot occur in E-matching patterns, so every distinct
    mask is named by an array constant defined pointwise; structurally equal masks share the constant."""
    seen = ex.ctx.__dict__.setdefault("_count_masks", [])
    for m, c in seen:
        if m.eq(mask_term):
            M = c
            break
    else:
        M = z3.Const(fresh_name("mask"), z3.ArraySort(V.INT, V.BOOL))
        seen.append((mask_term, M))
        k, a, b = z3.Int(fresh_name("k")), z3.Int(fresh_name("a")), z3.Int(fresh_name("b"))
        C = lambda x: F_COUNT(M, x)
        ax = ex.ctx.global_axioms
        ax.append(z3.ForAll([k], z3.Select(M, k) == z3.Select(mask_term, k), patterns=[z3.Select(M, k)]))
        ax.append(z3.ForAll([k], z3.Implies(k <= 0, C(k) == 0), patterns=[C(k)]))
        # defining step, triggered only when both counts are already present (no new terms: no matching loop)
        ax.append(z3.ForAll([a, b], z3.Implies(z3.And(a >= 0, b == a + 1), C(b) == C(a) + z3.If(z3.Select(M, a), 1, 0)),
                            patterns=[z3.MultiPattern(C(a), C(b))]))
        ax.append(z3.ForAll([k], z3.And(C(k) >= 0, C(k) <= z3.If(k < 0, 0, k)), patterns=[C(k)]))
        # a counted position separates the counts strictly: C(a) < C(a + 1) <= C(b)
        ax.append(z3.ForAll([a, b], z3.Implies(z3.And(0 <= a, a < b, z3.Select(M, a)), C(a) < C(b)), patterns=[z3.MultiPattern(C(a), C(b))]))
    return F_COUNT(M, to_z3(n, "int"))


def _mask_term(v):
    if not isinstance(v, Arr) or v.rank != 1 or v.kind != "bool":
        raise Unsupported("count of something else than a 1-D boolean array")
    return v.term


_np_sum_small = MODELS["numpy.sum"]


@model("numpy.sum")
def np_sum_mask(ex, args, kwargs, node):
    """np.sum(mask) of a 1-D boolean array: the number of True entries"""
    v = args[0]
    if isinstance(v, Arr) and v.rank == 1 and v.kind == "bool" and len(args) == 1 and not kwargs:
        return count_term(ex, v.term, v.shape[0])
    return _np_sum_small(ex, args, kwargs, node)


@spec("count")
def sp_count(ex, args, kwargs, node):
    """count(hi, lambda k: cond): number of k in [0, hi) with cond  (the value np.sum gives for the mask [cond(k) for k in range(n)])"""
    hi, lam = args
    from .symexec import _SpecFrame
    name = lam.node.args.args[0].arg
    k = z3.Int(fresh_name("k"))
    e2 = dict(lam.env)
    e2[name] = k
    from .npmodels import truthy
    body = to_z3(truthy(ex.eval(lam.node.body, e2, _SpecFrame(ex))), "bool")
    return count_term(ex, z3.Lambda([k], body), hi)


# ---------------------------------------------------------------------------------------------- views: flip / expand_dims
def _view_of(a, out_shape, mp, name):
    root, rootmap = a, mp
    if a.base is not None:
        b, bmp = a.base
        root, rootmap = b, (lambda o: bmp(mp(o)))
    return Arr(None, out_shape, a.kind, name=a.name + name, base=(root, rootmap), ghost=a.ghost)


@model("numpy.flip")
def np_flip(ex, args, kwargs, node):
    """np.flip(a, axis=k): a VIEW of a with axis k reversed (writes through it reach a)"""
    a = args[0]
    axis = kwargs.get("axis", args[1] if len(args) > 1 else None)
    if not isinstance(a, Arr) or not isinstance(axis, int) or isinstance(axis, bool):
        raise Unsupported("np.flip of something else than an array along one literal axis")
    ax = axis if axis >= 0 else axis + a.rank
    if not 0 <= ax < a.rank:
        raise Unsupported("np.flip axis out of range")
    n = to_z3(a.shape[ax], "int")

    def mp(o):
        return tuple((n - 1 - o[d]) if d == ax else o[d] for d in range(a.rank))
    return _view_of(a, list(a.shape), mp, "[flip]")


@model("numpy.expand_dims")
def np_expand_dims(ex, args, kwargs, node):
    """np.expand_dims(a, axis=0): a VIEW of a with a new leading axis of length 1"""
    a = args[0]
    axis = kwargs.get("axis", args[1] if len(args) > 1 else None)
    if not isinstance(a, Arr) or axis != 0:
        raise Unsupported("np.expand_dims other than a new leading axis of an array")
    return _view_of(a, [1] + list(a.shape), lambda o: tuple(o[1:]), "[None]")


@model("numpy.diff")
def np_diff(ex, args, kwargs, node):
    """np.diff(a) along the last axis (n=1): out[..., j] = a[..., j + 1] - a[..., j]"""
    a = args[0]
    if not isinstance(a, Arr) or len(args) > 1 or (kwargs and (kwargs.get("axis", -1) not in (-1, a.rank - 1) or set(kwargs) - {"axis"})):
        raise Unsupported("np.diff other than the first difference of an array along its last axis")
    if a.kind == "bool":
        raise Unsupported("np.diff of a boolean array")
    w = a.shape[-1]
    ex.oblige("diff_axis", E.compare(ast.GtE(), w, 0), "np.diff: last axis length (a shorter result than 0 is impossible)", node)
    shape = list(a.shape[:-1]) + [arith("-", w, 1) if not isinstance(w, int) else max(w - 1, 0)]
    r = Arr.from_lambda(shape, a.kind, lambda *i: a.sel(*i[:-1], to_z3(i[-1], "int") + 1) - a.sel(*i), name="diff")
    r.ghost.update(owner="fresh", corder=True)
    return r
