import argparse
import importlib
import json
import os
import sys

VERIF = os.path.dirname(os.path.dirname(os.path.abspath(__file__)))


def main():
    ap = argparse.ArgumentParser()
    ap.add_argument("property")
    ap.add_argument("--tier", default=os.environ.get("VERIF_TIER", "quick"), choices=["quick", "thorough"])
    ap.add_argument("--replay")
    a = ap.parse_args()
    sys.path.insert(0, VERIF)
    if a.replay:
        from pyvc.runner import run_py
        with open(a.replay) as f:
            rp = json.load(f)
        if rp.get("kind") == "bounded stand-in" and rp.get("standin"):
            # re-run the stand-in (same tier/seed) and report whether the same key fails again on the current tree
            sr = run_py("run_standin.py", {"module": "checks." + a.property, "name": rp["standin"], "tier": rp.get("tier", "quick"),
                                           "seed": rp.get("seed", 0), "property": a.property}, timeout=3000)
            hit = [f for f in sr.get("failures", []) if (f.get("key") or f.get("violated") or f.get("what")) == rp.get("key")]
            print(json.dumps({"verdict": "reproduced" if hit else "not-reproduced", "failure": hit[:1]}, indent=1, default=str))
            sys.exit(1 if hit else 0)
        if "failure" in rp and "function" in rp and "inputs" not in rp:
            print(json.dumps(rp["failure"], indent=1))
            sys.exit(1)
        out = run_py("replay.py", rp)
        print(json.dumps(out, indent=1))
        sys.exit(1 if out.get("verdict") == "reproduced" else 0)
    mod = importlib.import_module("checks." + a.property)
    from pyvc.runner import run_property
    sys.exit(run_property(mod, a.tier))


if __name__ == "__main__":
    try:
        main()
    except SystemExit:
        raise
    except BaseException as e:  # a checker crash must never look like a violation (exit 1)
        import traceback
        traceback.print_exc()
        print(f"CHECKER-ERROR: {type(e).__name__}: {e}")
        sys.exit(3)
