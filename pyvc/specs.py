"""Spec functions: macro definitions in the clause language (python expression text).
One definition, two renderings: the symbolic executor expands the text to z3; the replay
harness evaluates the same text on concrete numpy values."""
import ast

SPECS = {}


def defspec(name, params, body, doc=""):
    SPECS[name] = (list(params), body.strip(), doc)


def install(spec_builtins):
    from .symexec import _SpecFrame

    def mk(name, params, body):
        node = ast.parse(body, mode="eval").body

        def fn(ex, args, kwargs, n):
            env = dict(zip(params, args))
            env.update(kwargs)
            return ex.eval(node, env, _SpecFrame(ex))
        return fn
    for name, (params, body, doc) in SPECS.items():
        spec_builtins[name] = mk(name, params, body)
