"""Models for opaque python objects (xarray DataArray handles, Grid seen from outside) and the
factories for record objects named in typespecs (obj('Grid') ...)."""
import ast
import z3

from . import engine as E
from . import values as V
from .npmodels import METHODS, MODELS, SPEC_BUILTINS, method, model, spec, trusted
from .typespec import factory
from .values import Arr, Obj, Opaque, Small, SymDict, Unsupported, fresh_name, to_z3, USORT

_ATTR_FUNCS = {}


def attr_term(term, name):
    f = _ATTR_FUNCS.get(name)
    if f is None:
        f = _ATTR_FUNCS[name] = z3.Function("attr_" + name, USORT, USORT)
    return f(term)


def ident_of(v):
    if isinstance(v, Obj):
        return v.ident
    if isinstance(v, Opaque):
        return v.term
    raise Unsupported(f"identity of {type(v).__name__}")


def opaque_attr(ex, base, name):
    o = Opaque(term=attr_term(ident_of(base), name), name=name)
    o.ghost["bound"] = (base, name)
    return o


@spec("attr")
def sp_attr(ex, args, kwargs, node):
    base, name = args
    return opaque_attr(ex, base, name)


F_DA_EQUALS = z3.Function("da_equals", USORT, USORT, V.BOOL)


def da_equals(ex, a, b):
    ta, tb = ident_of(a), ident_of(b)
    r = F_DA_EQUALS(ta, tb)
    # assumed contract of xarray.DataArray.equals: an equivalence (same dims, shape, values)
    ex.assume(F_DA_EQUALS(ta, tb) == F_DA_EQUALS(tb, ta))
    ex.assume(F_DA_EQUALS(ta, ta))
    ex.assume(F_DA_EQUALS(tb, tb))
    trusted(ex, "xarray.DataArray.equals is an equivalence relation on (dims, shape, values) [assumed]")
    return r


@spec("da_equals")
def sp_da_equals(ex, args, kwargs, node):
    return da_equals(ex, args[0], args[1])


@method("Opaque", "call:equals")
def opaque_equals(ex, obj, args, kwargs, node, env, fr):
    return da_equals(ex, obj, args[0])


@spec("isinstance_of")
def sp_isinstance_of(ex, args, kwargs, node):
    return MODELS["builtins.isinstance"](ex, [args[0], V.ClassRef("?", args[1])], {}, node)


# --------------------------------------------------------------------------- Grid record

@factory("Grid")
def make_grid(ex, name, env, **kw):
    g = Obj("Grid")
    g.fields["source_grid_spec"] = Opaque(name=name + ".source_grid_spec")
    g.fields["_source_dims_dict"] = Opaque(name=name + "._source_dims_dict")
    g.fields["_ds"] = SymDict(name + "._ds", closed=False, owner="self")
    return g


# =============================================================================================
# Abstract state of a Grid for history / cache properties (C08, C11, C15, C05-cache, C19)
#
# src(g)            : the source the grid was opened from (uninterpreted identity)
# uf('name', a...)  : uninterpreted spec function of its arguments - stands for "what a fresh grid computes"
# optional opaque   : an object slot that may hold None (term == py:None)
# =============================================================================================
NONE_U = z3.Const("py:None", USORT)
TRUE_U = z3.Const("py:True", USORT)
FALSE_U = z3.Const("py:False", USORT)
F_INT2U = z3.Function("py:int", V.INT, USORT)
_UFS = {}


def uterm(v):
    """python / symbolic value -> term of the object sort"""
    if v is None:
        return NONE_U
    if isinstance(v, Opaque):
        return v.term
    if isinstance(v, Obj):
        return v.ident
    if isinstance(v, str):
        return E.str_const(v)
    if isinstance(v, bool):
        return TRUE_U if v else FALSE_U
    if isinstance(v, z3.BoolRef):
        return z3.If(v, TRUE_U, FALSE_U)
    if isinstance(v, int):
        return F_INT2U(z3.IntVal(v))
    if isinstance(v, z3.ExprRef) and v.sort() == V.INT:
        return F_INT2U(v)
    if isinstance(v, z3.ExprRef) and v.sort() == USORT:
        return v
    if isinstance(v, (tuple, list)):
        f = _uf("tuple%d" % len(v), len(v))
        return f(*[uterm(x) for x in v])
    if isinstance(v, dict) and not v:
        return z3.Const("py:emptydict", USORT)
    if isinstance(v, Arr):
        # identity of an array value as an abstract object (two reads of the same unmodified array give the same term)
        t = v.ghost.get("_uterm")
        if t is None or v.ghost.get("_uterm_of") is not v._term:
            t = z3.Const(fresh_name("arrobj"), USORT)
            v.ghost["_uterm"] = t
            v.ghost["_uterm_of"] = v._term
        return t
    if isinstance(v, SymDict) and v.ghost.get("ident") is not None:
        return _uf("dataset_of", 1)(v.ghost["ident"])          # the grid's own dataset, as an abstract value
    if isinstance(v, Small):
        fl = v.flat()
        return _uf("small%d" % len(fl), len(fl))(*[uterm(x) for x in fl]) if fl else z3.Const("py:emptyarray", USORT)
    if type(v).__name__ == "Fraction":
        return F_REAL2U(z3.RealVal(str(v)))
    if isinstance(v, float):
        return F_REAL2U(z3.RealVal(repr(v)))
    if isinstance(v, z3.ExprRef) and v.sort() == V.REAL:
        return F_REAL2U(v)
    if isinstance(v, dict):
        f = _uf("dict%d" % len(v), 2 * len(v))
        flat = []
        for k in sorted(v, key=str):
            flat += [uterm(k), uterm(v[k])]
        return f(*flat)
    if type(v).__name__ == "_SliceVal":
        return _uf("slice", 3)(uterm(v.lo), uterm(v.hi), uterm(v.step))
    if type(v).__name__ == "DType":
        return E.str_const("dtype:" + v.name)
    if type(v).__name__ in ("ModRef", "FuncRef", "ClassRef", "Builtin"):
        return E.str_const("ref:" + str(getattr(v, "name", None) or getattr(getattr(v, "info", None), "qualname", "?")))
    if v is Ellipsis:
        return E.str_const("...")
    raise Unsupported(f"object term of {type(v).__name__}")


F_REAL2U = z3.Function("real2u", V.REAL, USORT)
F_TRUTH = z3.Function("py_truth", USORT, V.BOOL)


_ALLOCATORS = {"lib:numpy." + f for f in ("zeros", "ones", "empty", "full", "zeros_like", "ones_like", "empty_like", "full_like", "array",
                                         "vstack", "hstack", "concatenate", "arange")} | {"meth:copy", "meth:astype"}


def abs_value(ex, name, args, kwargs):
    """abstract mode: f(args) as an uninterpreted, deterministic function of its operands"""
    kw = sorted(kwargs)
    fname = name + ("|" + ",".join(kw) if kw else "")
    terms = [uterm(a) for a in args] + [uterm(kwargs[k]) for k in kw]
    if name.startswith(("lib:", "meth:", "op:", "unop:", "cmp:", "getitem", "item")):
        trusted(ex, "abstract mode: library calls, operators, subscripts and non-mutating methods on uninterpreted values are "
                    "deterministic, side-effect-free functions of their operands")
    t = _uf(fname, len(terms))(*terms) if terms else z3.Const("uf_" + fname, USORT)
    o = Opaque(term=t, name=fname)
    o.ghost["truth"] = F_TRUTH(t)
    if name in _ALLOCATORS:
        o.ghost["fresh_alloc"] = True
    return o


def _uf(name, arity):
    key = (name, arity)
    if key not in _UFS:
        _UFS[key] = z3.Function("uf_" + name, *([USORT] * arity), USORT)
    return _UFS[key]


def opt_opaque(name):
    o = Opaque(name=name)
    o.ghost["maybe_none"] = (o.term == NONE_U)
    return o


def as_opt(term, name="v"):
    o = Opaque(term=term, name=name)
    o.ghost["maybe_none"] = (term == NONE_U)
    return o


@spec("uf")
def sp_uf(ex, args, kwargs, node):
    name = args[0]
    rest = args[1:]
    f = _uf(name, len(rest))
    return as_opt(f(*[uterm(a) for a in rest]) if rest else z3.Const("uf_" + name, USORT), name)


@spec("summary")
def sp_summary(ex, args, kwargs, node):
    """summary('qualname', a, b, ...): the value the summarised function returns for these arguments (parameter order)"""
    return abs_value(ex, "fn:" + args[0], list(args[1:]), {})


def _consts_of(t, acc, seen):
    stack = [t]
    while stack:
        x = stack.pop()
        k = x.get_id()
        if k in seen:
            continue
        seen.add(k)
        if z3.is_quantifier(x):
            stack.append(x.body())
            continue
        if z3.is_app(x):
            if x.num_args() == 0 and x.decl().kind() == z3.Z3_OP_UNINTERPRETED:
                acc[str(x)] = x
            else:
                stack.extend(x.children())


def _rigid(name):
    return name.startswith(("str:", "py:")) or name in ("py_none", "py_true", "py_false", "pi", "FILL")


def _is_rigid_const(nm, c, rigid):
    return nm in rigid or _rigid(nm) or c.eq(NONE_U) or c.eq(TRUE_U) or c.eq(FALSE_U)


def _relevant_hyps(hyps, terms, rigid, memo=None):
    """cone of influence: the hypotheses that (transitively) share a non-rigid constant with `terms`"""
    rel, seen = {}, set()
    for t in terms:
        _consts_of(t, rel, seen)
    rel = {k for k, c in rel.items() if not _is_rigid_const(k, c, rigid)}
    hc = []
    memo = memo if memo is not None else {}
    for h in hyps:
        ent = memo.get(id(h))
        if ent is None or ent[0] is not h:
            cs, sn = {}, set()
            _consts_of(h, cs, sn)
            ent = memo[id(h)] = (h, {k for k, c in cs.items() if not _is_rigid_const(k, c, rigid)})     # keeps h alive: id stays valid
        hc.append(ent[1])
    picked = [False] * len(hyps)
    changed = True
    while changed:
        changed = False
        for i, cs in enumerate(hc):
            if not picked[i] and (cs & rel):
                picked[i] = True
                rel |= cs
                changed = True
    return [h for i, h in enumerate(hyps) if picked[i]]


def two_safety(ex, tag, arg_terms, value_term):
    """Cross-path non-interference goal.  Records (args, value, relevant hypotheses) of every execution path that reaches this point;
    the goal for the current path j is, for EVERY recorded path r (including j itself):

        hyps_j  /\  rename(hyps_r)  /\  args_j == rename(args_r)   ==>   value_j == rename(value_r)

    where rename() primes every non-rigid constant of r's formulas (inputs, cache slots, havoc values), i.e. the two executions are
    independent except that they agree on the listed arguments.  hyps_j is supplied by the obligation's own hypotheses; hyps_r is
    restricted to r's cone of influence on (args, value).  When the implication already holds without r's hypotheses they are
    omitted, and a pair of records that was shown valid that way is not repeated on later paths."""
    st = ex.ctx.__dict__.setdefault("two_safety_records", {}).setdefault(tag, {"recs": {}, "free": {}})
    store, free = st["recs"], st["free"]
    rigid = ex.ctx.__dict__.get("_rigid_consts")
    if rigid is None:
        rigid, seen = {}, set()
        for h in ex.ctx.global_axioms:
            _consts_of(h, rigid, seen)
        ex.ctx._rigid_consts = rigid
    hyps = _relevant_hyps(list(E.PENDING_FACTS) + list(ex.st.facts) + list(ex.st.pc), list(arg_terms) + [value_term], rigid,
                          ex.ctx.__dict__.setdefault("_hyp_consts_memo", {}))
    key = (tuple(a.sexpr() for a in arg_terms), value_term.sexpr())
    rec = store.get(key)
    if rec is None:
        rec = store[key] = {"args": list(arg_terms), "value": value_term, "hyps": {}, "sub": None}
    hk = tuple(sorted(h.sexpr() for h in hyps))
    new_hyps = hk not in rec["hyps"]
    rec["hyps"].setdefault(hk, hyps)
    if new_hyps:
        rec["sub"] = None
    goals = []
    for rkey, r in store.items():
        fk = (key, rkey)
        if free.get(fk) is True:
            continue                  # shown valid without any hypotheses on an earlier path (and obliged there)
        todo = [hk_r for hk_r in r["hyps"] if (key, hk, rkey, hk_r) not in free] if fk in free else None
        if todo is not None and not todo:
            continue                  # every (record, hypotheses) pair was obliged on an earlier path
        if r["sub"] is None:
            used, seen2 = {}, set()
            for t in r["args"] + [r["value"]]:
                _consts_of(t, used, seen2)
            for hs in r["hyps"].values():
                for h in hs:
                    _consts_of(h, used, seen2)
            r["sub"] = [(c, z3.Const(nm + "'", c.sort())) for nm, c in used.items() if not _is_rigid_const(nm, c, rigid)]
            r["ren"] = {}
        sub = r["sub"]
        ren = (lambda t, sub=sub: z3.substitute(t, *sub)) if sub else (lambda t: t)
        if "av" not in r["ren"]:
            r["ren"]["av"] = ([ren(b) for b in r["args"]], ren(r["value"]))
        rargs, rval = r["ren"]["av"]
        agree = [a == b for a, b in zip(arg_terms, rargs)]
        concl = value_term == rval
        g0 = z3.Implies(z3.And(z3.Distinct(TRUE_U, FALSE_U, NONE_U), *agree), concl)     # None / True / False are distinct objects
        if fk not in free:
            sv = z3.Solver()
            sv.set("timeout", 1000)
            sv.add(z3.Not(g0))
            free[fk] = sv.check() == z3.unsat
            if free[fk]:
                goals.append(g0)
                continue
            todo = list(r["hyps"])
        for hk_r in todo:
            free[(key, hk, rkey, hk_r)] = False
            hs = r["hyps"][hk_r]
            if hk_r not in r["ren"]:
                r["ren"][hk_r] = z3.And(*[ren(h) for h in hs]) if hs else z3.BoolVal(True)
            goals.append(z3.Implies(r["ren"][hk_r], g0))
    if not goals:
        return True
    return z3.And(*goals) if len(goals) > 1 else goals[0]


@spec("depends_only")
def sp_depends_only(ex, args, kwargs, node):
    """depends_only(e, a1, ..., an): e is a function of a1..an only - over ALL pairs of execution paths of the function (2-safety);
    everything else the body reads (cache slots, earlier results, other parameters) may differ between the two executions."""
    tag = "depends_only:" + (ast.unparse(node) if node is not None else str(len(args)))
    return two_safety(ex, tag, [uterm(a) for a in args[1:]], uterm(args[0]))


@spec("src")
def sp_src(ex, args, kwargs, node):
    return Opaque(term=attr_term(ident_of(args[0]), "__src__"), name="src")


@spec("same")
def sp_same(ex, args, kwargs, node):
    """object identity / equality of abstract values"""
    return uterm(args[0]) == uterm(args[1])


@spec("has")
def sp_has(ex, args, kwargs, node):
    d, k = args
    if isinstance(d, dict):
        return k in d
    return d.present(k)


@spec("attr_or")
def sp_attr_or(ex, args, kwargs, node):
    """attr_or(mapping, key, default): the value under key if it is (certainly) there, `default` if it is (certainly) not, and
    ite(present, value, default) for scalar values otherwise - keeps guarded clauses total"""
    d, k, dflt = args
    if isinstance(d, dict):
        return d.get(k, dflt)
    p = d.present(k)
    if p is False:
        return dflt
    v = d.entries[k][1]
    if v is V.UNSET:
        v = ex.fresh_entry(d, k)
        d.materialise(k, v)
    if p is True:
        return v
    return E.ite_val(p, v, dflt)


@spec("getdefault")
def sp_getdefault(ex, args, kwargs, node):
    """getdefault(d, key, default): d.get(key, default) for a python dict of keyword arguments"""
    d, k, dflt = args
    return d[k] if k in d else dflt


@spec("entry")
def sp_entry(ex, args, kwargs, node):
    """value stored under a key of a symbolic mapping (None if never materialised)"""
    d, k = args
    if k not in d.entries:
        d.present(k)
    if k not in d.entries:
        return None
    v = d.entries[k][1]
    if v is V.UNSET:
        v = ex.fresh_entry(d, k)
        d.materialise(k, v)
    return v


_orig_make_grid = make_grid


def _init_dict_keys(ex, attr):
    """keys of the dict literal that Grid.__init__ assigns to self.<attr> (None if not found)"""
    try:
        init = ex.ctx.repo.module("uxarray.grid.grid").classes["Grid"]["__init__"].node
    except Exception:  # noqa: BLE001
        return None
    for n in ast.walk(init):
        if isinstance(n, ast.Assign) and len(n.targets) == 1 and isinstance(n.targets[0], ast.Attribute) \
                and n.targets[0].attr == attr and isinstance(n.value, ast.Dict) \
                and all(isinstance(k, ast.Constant) and isinstance(k.value, str) for k in n.value.keys):
            return tuple(k.value for k in n.value.keys)
    return None


@factory("Grid")
def make_grid2(ex, name, env, **kw):
    g = _orig_make_grid(ex, name, env)
    for slot in ("_face_areas", "_face_jacobian", "_antimeridian_face_indices"):
        g.fields[slot] = opt_opaque(f"{name}.{slot}")
    # cached trees: absent, or a tree built earlier with arbitrary parameters
    which = kw.get("trees", "opaque")
    for slot, cls in (("_ball_tree", "BallTree"), ("_kd_tree", "KDTree")):
        if which == "opaque" or which not in ("both", slot):
            g.fields[slot] = opt_opaque(f"{name}.{slot}")          # any object or None (methods that do not use the trees)
        else:
            g.fields[slot] = None if ex.nondet(2) == 0 else make_tree(ex, cls, f"{name}.{slot}")
    defaults = {"_gdf_cached_parameters": ("gdf", "periodic_elements", "projection", "non_nan_polygon_indices", "engine",
                                           "exclude_am", "exclude_nan_polygons", "antimeridian_face_indices"),
                "_poly_collection_cached_parameters": ("poly_collection", "periodic_elements", "projection",
                                                       "corrected_to_original_faces", "non_nan_polygon_indices",
                                                       "antimeridian_face_indices"),
                "_line_collection_cached_parameters": ("line_collection", "periodic_elements", "projection")}
    for dname, keys in defaults.items():
        keys = _init_dict_keys(ex, dname) or keys        # the key set is read from Grid.__init__ of the tree under check
        g.fields[dname] = SymDict(f"{name}.{dname}", {k: [True, opt_opaque(f"{name}.{dname}.{k}")] for k in keys}, closed=True,
                                  owner="self")
    g.fields["_ds"].ghost["ident"] = g.ident
    if kw.get("sizes"):
        # dimension lengths tied to size symbols of the contract
        g.fields["_ds"].ghost["sizes"] = {d: env[sym] for d, sym in kw["sizes"].items()}
    if kw.get("tables"):
        from .typespec import make_value
        for vname, vspec in kw["tables"].items():
            data = make_value(ex, vspec, f"{name}.{vname}", env)
            g.fields["_ds"].entries[vname] = [True, make_dataarray(ex, f"{name}.{vname}", data=data)]
    if kw.get("ds_vars") is not None:
        # closed inventory: the dataset holds exactly these variables (iteration over it is concrete), contents unknown
        dsd = g.fields["_ds"]
        dsd.closed = True
        for vname in kw["ds_vars"]:
            if vname not in dsd.entries:
                dsd.entries[vname] = [True, make_dataarray(ex, f"{name}.{vname}")]
    if kw.get("attrs") == "dict":
        # variables already in the dataset carry an attribute mapping with unknown contents (keys materialise on demand)
        g.fields["_ds"].ghost["entry_factory"] = lambda ex_, d, key: make_dataarray(
            ex_, f"{d.name}.{key}", attrs=SymDict(f"{d.name}.{key}.attrs", {}, closed=False, owner="self"))
    else:
        g.fields["_ds"].ghost["entry_factory"] = lambda ex_, d, key: make_dataarray(ex_, f"{d.name}.{key}")
    return g


def make_dataarray(ex, name, data=None, dims=None, attrs=None):
    da = Obj("DataArray")
    da.fields["data"] = data if data is not None else Opaque(name=name + ".data")
    da.fields["dims"] = dims if dims is not None else Opaque(name=name + ".dims")
    da.fields["attrs"] = attrs if attrs is not None else Opaque(name=name + ".attrs")
    return da


@model("xarray.DataArray", "class:DataArray")
def xr_dataarray(ex, args, kwargs, node):
    trusted(ex, "xarray.DataArray(data, dims, attrs): holds exactly the given data / dims / attrs")
    data = kwargs.get("data", args[0] if args else None)
    dims = kwargs.get("dims", args[2] if len(args) > 2 else None)
    attrs = kwargs.get("attrs", None)
    return make_dataarray(ex, "da", data, dims, attrs)


@method("DataArray", "shape")
def da_shape(ex, base, node, env, fr):
    d = base.fields.get("data")
    if isinstance(d, Arr):
        return tuple(d.shape)
    raise Unsupported(".shape of a variable without a typed array")


@spec("garray")
def sp_garray(ex, args, kwargs, node):
    """garray(n, 'int'): a fresh 1-D ghost array of length n with unknown contents"""
    return Arr.fresh("ghostarr", [args[0]], args[1] if len(args) > 1 else "int")


@spec("listmap")
def sp_listmap(ex, args, kwargs, node):
    """listmap(n): ghost dict {i: [] for i in range(n)}"""
    return V.ListMap(args[0], "int", "ghostmap")


@method("Obj", "values")
def obj_values(ex, base, node, env, fr):
    if base.cls == "DataArray":
        return base.fields["data"]
    raise Unsupported(f".values of {base.cls}")


@model("copy.deepcopy")
def copy_deepcopy(ex, args, kwargs, node):
    trusted(ex, "copy.deepcopy: a new object equal to its argument")
    return as_opt(_uf("deepcopy", 1)(uterm(args[0])), "deepcopy")


for _cls in ("BallTree", "KDTree"):
    def _mk(cls):
        def ctor(ex, args, kwargs, node):
            trusted(ex, f"{cls}(grid, coordinates, coordinate_system, distance_metric, reconstruct): records its arguments")
            names = ["grid", "coordinates", "coordinate_system", "distance_metric", "reconstruct"]
            vals = dict(zip(names, args))
            vals.update(kwargs)
            o = Obj(cls)
            o.fields["_coordinates"] = vals.get("coordinates")
            o.fields["coordinate_system"] = vals.get("coordinate_system")
            o.fields["distance_metric"] = vals.get("distance_metric")
            o.fields["_source_grid"] = vals.get("grid")
            return o
        return ctor
    MODELS[f"class:{_cls}"] = _mk(_cls)
    MODELS[f"uxarray.grid.neighbors.{_cls}"] = MODELS[f"class:{_cls}"]


def _tree_set_coordinates(ex, base, node, env, fr):
    def setter(v):
        trusted(ex, "tree.coordinates setter: switches the element kind the tree answers for (setter verified separately)")
        base.fields["_coordinates"] = v
    return setter


METHODS[("BallTree", "__setattr__:coordinates")] = _tree_set_coordinates
METHODS[("KDTree", "__setattr__:coordinates")] = _tree_set_coordinates


def make_tree(ex, cls, name):
    o = Obj(cls)
    for f in ("_coordinates", "coordinate_system", "distance_metric"):
        o.fields[f] = Opaque(name=f"{name}.{f}")
    return o


@spec("item")
def sp_item(ex, args, kwargs, node):
    """item(x, i): x[i] for tuples; an unconstrained object otherwise (keeps guarded clauses total)"""
    x, i = args
    if isinstance(x, (tuple, list)) and isinstance(i, int) and -len(x) <= i < len(x):
        return x[i]
    if isinstance(x, Opaque) and isinstance(i, int):
        return abs_value(ex, "item", [x, i], {})          # element of an abstract tuple (same term as tuple unpacking yields)
    return Opaque(name="no_item")


@spec("is_tuple")
def sp_is_tuple(ex, args, kwargs, node):
    return isinstance(args[0], tuple)


# =============================================================================================
# UxDataArray record (C06 dispatch, C10 grid re-attachment)
# =============================================================================================
class SuperProxy:
    def __init__(self, obj):
        self.obj = obj


V.SuperProxy = SuperProxy


@factory("UxDataArray")
def make_uxda(ex, name, env, dims=None, **kw):
    """dims: tuple of dimension names (concrete per path); values: a symbolic object; uxgrid: a Grid record"""
    o = Obj("UxDataArray")
    g = make_grid2(ex, name + ".uxgrid", env)
    o.fields["_uxgrid"] = g
    o.fields["dims"] = tuple(dims) if dims is not None else Opaque(name=name + ".dims")
    if dims is not None:
        # element counts of the grid and lengths of the other dimensions are independent symbols (n_node == n_face is possible)
        sizes = {}
        for d in ("n_face", "n_node", "n_edge"):
            sizes[d] = z3.Int(fresh_name(d))
            ex.assume(sizes[d] >= 1)
            g.fields[d] = sizes[d]
        shape = []
        for d in dims:
            if d not in sizes:
                sizes[d] = z3.Int(fresh_name("len_" + d))
                ex.assume(sizes[d] >= 1)
            shape.append(sizes[d])
        o.fields["values"] = Arr.fresh(name + ".values", shape, "real")
        o.fields["sizes"] = sizes
        W = z3.Int(fresh_name("n_max_face_nodes"))
        ex.assume(W >= 1)
        g.fields["n_max_face_nodes"] = W
        g.fields["edge_node_connectivity"] = make_dataarray(ex, "enc", Arr.fresh("edge_node_connectivity", [sizes["n_edge"], 2], "int",
                                                            ghost={"space": "edge", "vspace": "node"}))
        g.fields["face_node_connectivity"] = make_dataarray(ex, "fnc", Arr.fresh("face_node_connectivity", [sizes["n_face"], W], "int",
                                                            ghost={"space": "face", "vspace": "node"}))
        g.fields["n_nodes_per_face"] = make_dataarray(ex, "npf", Arr.fresh("n_nodes_per_face", [sizes["n_face"]], "int"))
    else:
        o.fields["values"] = Opaque(name=name + ".values")
    o.fields["name"] = Opaque(name=name + ".name")
    return o


@model("class:UxDataArray", "uxarray.core.dataarray.UxDataArray", "uxarray.UxDataArray")
def ctor_uxda(ex, args, kwargs, node):
    trusted(ex, "UxDataArray(data, uxgrid=, dims=, name=): records its arguments (xarray.DataArray constructor assumed)")
    o = Obj("UxDataArray")
    o.fields["_uxgrid"] = kwargs.get("uxgrid")
    data = args[0] if args else kwargs.get("data")
    if isinstance(data, Obj) and data.cls in ("DataArray", "UxDataArray"):
        # wrapping an existing array keeps its data / dims / name
        o.fields["values"] = data.fields.get("values")
        o.fields["dims"] = kwargs.get("dims", data.fields.get("dims"))
        o.fields["name"] = kwargs.get("name", data.fields.get("name"))
    else:
        o.fields["values"] = data
        o.fields["dims"] = kwargs.get("dims")
        o.fields["name"] = kwargs.get("name")
    return o


def _super_copy(ex, obj, args, kwargs, node, env, fr):
    """xarray.DataArray._copy: a new array object of the same class (assumed); which grid it carries is NOT assumed"""
    trusted(ex, "xarray.DataArray._copy returns a new object of type(self) with the same dims / name (assumed)")
    s = obj.obj
    o = Obj(s.cls)
    o.fields["_uxgrid"] = opt_opaque("copied._uxgrid")
    for f in ("dims", "name"):
        o.fields[f] = s.fields.get(f)
    o.fields["values"] = Opaque(name="copied.values")
    return o


def _super_replace(ex, obj, args, kwargs, node, env, fr):
    """xarray.DataArray._replace: type(self)(variable, ...) - for a subclass whose constructor may or may not be honoured, the
    result is either a UxDataArray without grid or a plain DataArray (both cases explored)"""
    trusted(ex, "xarray.DataArray._replace returns a UxDataArray (grid not set) or a plain DataArray (both explored)")
    s = obj.obj
    if ex.nondet(2) == 0:
        o = Obj("UxDataArray")
        o.fields["_uxgrid"] = None
    else:
        o = Obj("DataArray")
    for f in ("dims", "name"):
        o.fields[f] = Opaque(name="replaced." + f)
    o.fields["values"] = Opaque(name="replaced.values")
    return o


METHODS[("SuperProxy", "call:_copy")] = _super_copy
METHODS[("SuperProxy", "call:_replace")] = _super_replace


@model("numpy.einsum")
def np_einsum(ex, args, kwargs, node):
    sub = args[0]
    if sub != "i,...i" or len(args) != 3:
        raise Unsupported("einsum other than 'i,...i'")
    trusted(ex, "numpy.einsum('i,...i', w, v) = sum over the LAST axis of v weighted by w")
    return as_opt(_uf("wsum_last_axis", 2)(uterm(args[1]), uterm(args[2])), "einsum")


# ---------------------------------------------------------------------------------------------
# abstract reduction along the last axis (C17): agg(values of the sequence, its length)
# ---------------------------------------------------------------------------------------------
F_AGG = z3.Function("agg_last_axis", z3.ArraySort(V.INT, V.REAL), V.INT, V.REAL)


class AggFn:
    """an arbitrary numpy reduction passed as a callable: f(x, axis=-1) reduces the last axis; the result at a position depends
    only on the sequence of values along that axis (and its length)"""


@factory("AggFn")
def make_aggfn(ex, name, env, **kw):
    return AggFn()


def call_aggfn(ex, fn, args, kwargs, node):
    trusted(ex, "aggregation_func(x, axis=-1): a function of the value sequence along the last axis only (numpy reductions)")
    x = args[0]
    if kwargs.get("axis") != -1 or not isinstance(x, Arr) or x.rank < 2:
        raise Unsupported("aggregation over something else than the last axis of an array")
    n = x.shape[-1]
    lead = x.shape[:-1]
    t = z3.Int(fresh_name("t"))

    def cell(*idx):
        return F_AGG(z3.Lambda([t], to_z3(x.sel(*idx, t), "real")), to_z3(n, "int"))
    # materialised: a fresh array constant with a defining axiom triggered on its own cells (usable as an E-matching pattern)
    r = Arr.fresh("agg_out", lead, "real", ghost={"owner": "fresh", "corder": True})
    idx = [z3.Int(fresh_name("a")) for _ in lead]
    ex.assume(z3.ForAll(idx, r.sel(*idx) == cell(*idx), patterns=[r.sel(*idx)]))
    return r


@spec("agg")
def sp_agg(ex, args, kwargs, node):
    """agg(lambda t: value, n): the abstract reduction of the sequence value(0..n-1)"""
    lam, n = args
    t = z3.Int(fresh_name("t"))
    from .symexec import _SpecFrame
    e2 = dict(lam.env)
    e2[lam.node.args.args[0].arg] = t
    body = ex.eval(lam.node.body, e2, _SpecFrame(ex))
    return F_AGG(z3.Lambda([t], to_z3(body, "real")), to_z3(n, "int"))


@model("builtins.getattr")
def py_getattr(ex, args, kwargs, node):
    obj, name = args[0], args[1]
    if not isinstance(name, str):
        raise Unsupported("getattr with a computed name")
    if isinstance(obj, Obj):
        if name in obj.fields:
            return obj.fields[name]
        if ex.class_member(obj.cls, name) is not None:
            return ex.get_attr(obj, name, node, {}, ex.frames[-1])
        if len(args) > 2:
            return args[2]
        from .symexec import PathRaise
        raise PathRaise("AttributeError", node)
    if isinstance(obj, Opaque):
        return opaque_attr(ex, obj, name)
    raise Unsupported(f"getattr on {type(obj).__name__}")


@model("builtins.hasattr")
def py_hasattr(ex, args, kwargs, node):
    obj, name = args[0], args[1]
    if isinstance(obj, Obj) and isinstance(name, str):
        return name in obj.fields or ex.class_member(obj.cls, name) is not None
    raise Unsupported("hasattr on a non-record object")


# =============================================================================================
# xarray.Dataset record (C07 encoders): vars / dims as symbolic mappings
# =============================================================================================
def _da_factory(owner):
    def mk(ex, d, key):
        da = make_dataarray(ex, f"{d.name}.{key}")
        da.fields["attrs"] = SymDict(f"{d.name}.{key}.attrs", closed=False, owner=owner)
        return da
    return mk


@factory("Record")
def make_record(ex, name, env, cls="Record", fields=None, **kw):
    """a plain object of a repo class with the given typed fields: obj('Record', cls='GridSubsetAccessor', fields={'uxgrid': "obj('Grid')"})
    (methods are looked up through options['classes'][cls])"""
    from .typespec import make_value
    o = Obj(cls)
    for fname, fspec in (fields or {}).items():
        o.fields[fname] = make_value(ex, fspec, f"{name}.{fname}", env)
    return o


@factory("Dataset")
def make_dataset(ex, name, env, owner="caller", **kw):
    ds = Obj("Dataset")
    closed = bool(kw.get("closed"))          # closed=True: exactly the listed variables / dimensions exist (iteration is concrete)
    ds.fields["vars"] = SymDict(name + ".vars", closed=closed, owner=owner)
    ds.fields["vars"].ghost["entry_factory"] = _da_factory(owner)
    ds.fields["dims"] = SymDict(name + ".dims", closed=closed, owner=owner)
    ds.ghost["owner"] = owner
    if kw.get("ds_attrs"):
        # opt-in: the dataset's own attrs as an open symbolic mapping (whatever an earlier owner left there may be present)
        ds.fields["attrs"] = SymDict(name + ".attrs", closed=False, owner=owner)
    for dname, dspec in (kw.get("dim_sizes") or {}).items():
        # dimension lengths: a concrete int, or 'opaque' (an unknown object), or a size symbol of the contract
        if isinstance(dspec, int):
            val = dspec
        elif dspec == "opaque":
            val = Opaque(name=f"{name}.size.{dname}")
        else:
            val = env[dspec]
        ds.fields["dims"].entries[dname] = [True, val]
    # variables with a declared type: present, holding a symbolic array owned like the dataset
    from .typespec import make_value
    for vname, vspec in (kw.get("vars") or {}).items():
        data = make_value(ex, vspec, f"{name}.{vname}", env)
        if isinstance(data, Arr):
            data.ghost.setdefault("owner", owner)
        da = make_dataarray(ex, f"{name}.{vname}", data=data)
        da.ghost["owner"] = owner
        da.fields["attrs"] = SymDict(f"{name}.{vname}.attrs", closed=False, owner=owner)
        # typed attributes: attrs={'var': {'start_index': 'absent_or(int)'}} (absent_or: the attribute may be missing)
        for aname, aspec in ((kw.get("attrs") or {}).get(vname) or {}).items():
            if aspec.startswith("absent_or(") and aspec.endswith(")"):
                if ex.nondet(2) == 0:
                    da.fields["attrs"].entries[aname] = [False, V.UNSET]
                    continue
                aspec = aspec[len("absent_or("):-1]
            da.fields["attrs"].entries[aname] = [True, make_value(ex, aspec, f"{name}.{vname}.{aname}", env)]
        ds.fields["vars"].entries[vname] = [True, da]
    for vname in (kw.get("opaque_vars") or ()):
        # present variables of unknown content (only passed on to library calls)
        da = make_dataarray(ex, f"{name}.{vname}")
        da.ghost["owner"] = owner
        da.fields["attrs"] = SymDict(f"{name}.{vname}.attrs", closed=False, owner=owner)
        ds.fields["vars"].entries[vname] = [True, da]
    for vname in (kw.get("absent_vars") or ()):
        ds.fields["vars"].entries[vname] = [False, V.UNSET]
    return ds


@model("xarray.Dataset", "class:Dataset")
def xr_dataset(ex, args, kwargs, node):
    """xr.Dataset(): a new, empty dataset owned by the function that creates it"""
    if args or kwargs:
        raise Unsupported("xr.Dataset(...) with arguments")
    ds = Obj("Dataset")
    ds.fields["vars"] = SymDict(fresh_name("new_ds") + ".vars", closed=True, owner="fresh")
    ds.fields["dims"] = SymDict(fresh_name("new_ds") + ".dims", closed=False, owner="fresh")
    ds.ghost["owner"] = "fresh"
    return ds


def _fresh_clone(ex, obj):
    """a copy whose containers are new objects (shallow Dataset.copy / DataArray.copy(deep=False): variables and attribute
    dicts are new, the data arrays are shared)"""
    c = V.clone(obj, {})

    def mark(o):
        if isinstance(o, Obj):
            o.ghost["owner"] = "fresh"
            o.ident = z3.Const(fresh_name(o.cls), USORT)
            for v in o.fields.values():
                mark(v)
        elif isinstance(o, SymDict):
            o.ghost["owner"] = "fresh"
            if o.ghost.get("entry_factory") is not None:
                o.ghost["entry_factory"] = _da_factory("fresh")
            for k, (p, v) in o.entries.items():
                mark(v)
    mark(c)
    if isinstance(obj, Obj):
        # a newly created object is distinct from every object seen so far on this path
        seen = getattr(ex.st, "_known_idents", None)
        if seen is None:
            seen = ex.st._known_idents = []
        if not any(z3.eq(obj.ident, x) for x in seen):
            seen.append(obj.ident)
        for x in seen:
            ex.assume(c.ident != x)
        seen.append(c.ident)
    return c


def _ds_copy(ex, obj, args, kwargs, node, env, fr):
    if obj.cls not in ("Dataset", "DataArray"):
        raise Unsupported(f"copy of {obj.cls}")
    trusted(ex, "xarray copy(deep=False): a new object with new variable / attribute containers")
    return _fresh_clone(ex, obj)


def _ds_drop_vars(ex, obj, args, kwargs, node, env, fr):
    trusted(ex, "xarray.Dataset.drop_vars: a new dataset without the named variables")
    c = _fresh_clone(ex, obj)
    names = args[0] if isinstance(args[0], (list, tuple)) else [args[0]]
    for nme in names:
        c.fields["vars"].entries[nme] = [False, V.UNSET]
    return c


for _c in ("Dataset", "DataArray"):
    METHODS[(_c, "call:copy")] = _ds_copy
METHODS[("Dataset", "call:drop_vars")] = _ds_drop_vars


@model("builtins.dict")
def py_dict(ex, args, kwargs, node):
    if not args:
        return dict(kwargs)
    (m,) = args
    if isinstance(m, dict):
        return dict(m)
    if isinstance(m, SymDict) and m.closed and all(p is True for p, _ in m.entries.values()):
        return {k: v for k, (p, v) in m.entries.items()}     # a NEW python dict (the source mapping is left alone)
    raise Unsupported("dict() of a symbolic mapping")


class SizesView:
    """Dataset.sizes of a grid's dataset: the length of a named dimension is a fixed attribute of the grid (dimension lengths of an
    xarray Dataset cannot change while variables using them exist)"""

    def __init__(self, d):
        self.d = d


@method("SymDict", "sizes")
def symdict_sizes(ex, base, node, env, fr):
    if base.ghost.get("ident") is None:
        raise Unsupported(".sizes of a mapping that is not a grid's dataset")
    return SizesView(base)


@method("SizesView", "__getitem__")
def sizes_getitem(ex, base, node, env, fr):
    def get(idx):
        (k,) = idx
        if not isinstance(k, str):
            raise Unsupported("dimension name is not a literal")
        if k in (base.d.ghost.get("sizes") or {}):
            return base.d.ghost["sizes"][k]
        trusted(ex, "Dataset.sizes[dim]: the length of a named dimension is fixed for a grid's dataset")
        return as_opt(_uf("dim:" + k, 1)(base.d.ghost["ident"]), "size_" + k)
    return get


@spec("dim")
def sp_dim(ex, args, kwargs, node):
    """dim(grid, 'n_face'): length of the named dimension of the grid's dataset"""
    g, k = args
    return as_opt(_uf("dim:" + k, 1)(g.ident), "size_" + k)


@spec("lib")
def sp_lib(ex, args, kwargs, node):
    """lib('numpy.expand_dims', a, b, ...): value of the (abstracted) library call for these positional arguments"""
    return abs_value(ex, "lib:" + args[0], list(args[1:]), dict(kwargs))


@spec("ds_frame")
def sp_ds_frame(ex, args, kwargs, node):
    """ds_frame(new, old, [names]): every variable other than `names` is present in `new` exactly when it was in `old`, and is the
    same object (nothing else was added, dropped or replaced)"""
    new, old, names = args
    out = []
    for k in set(new.entries) | set(old.entries):
        if k in names:
            continue
        pn = new.entries[k][0] if k in new.entries else (False if new.closed else None)
        po = old.entries[k][0] if k in old.entries else (False if old.closed else None)
        if pn is None or po is None:
            if pn is None and po is None:
                continue
            return False                       # materialised on one side only: the variable was touched
        out.append(E.eq_val(pn, po) if not (isinstance(pn, bool) and isinstance(po, bool)) else pn == po)
        vn, vo = new.entries[k][1], old.entries[k][1]
        if vn is V.UNSET and vo is V.UNSET:
            continue
        if vn is V.UNSET or vo is V.UNSET:
            out.append(E.not_val(pn) if not isinstance(pn, bool) else (not pn))
            continue
        out.append(E.or_vals([E.not_val(pn), E.is_val(vn, vo)]))
    return E.and_vals(out)


@method("UxDataArray", "data")
def uxda_data(ex, base, node, env, fr):
    return base.fields["values"]


@method("UxDataArray", "call:rename")
def uxda_rename(ex, obj, args, kwargs, node, env, fr):
    """DataArray.rename({old: new}): the same values under renamed dimensions; the uxarray hooks keep the grid (assumed: C10)"""
    trusted(ex, "UxDataArray.rename(mapping): same values / name / grid, dimensions renamed (xarray + the C10 re-attachment hooks)")
    (m,) = args
    if not isinstance(m, dict) or not isinstance(obj.fields.get("dims"), tuple):
        raise Unsupported("rename with a symbolic mapping")
    o = Obj("UxDataArray")
    o.fields.update(obj.fields)
    o.fields["dims"] = tuple(m.get(d, d) for d in obj.fields["dims"])
    return o


@method("Dataset", "call:set_coords")
def ds_set_coords(ex, obj, args, kwargs, node, env, fr):
    trusted(ex, "Dataset.set_coords(names): a dataset with the same variables (some of them marked as coordinates)")
    return obj


@method("Dataset", "variables")
def ds_variables(ex, base, node, env, fr):
    return base.fields["vars"]


@method("Dataset", "dims")
def ds_dims(ex, base, node, env, fr):
    return base.fields["dims"]


@method("Dataset", "sizes")
def ds_sizes(ex, base, node, env, fr):
    return base.fields["dims"]          # mapping dimension name -> length


@method("SymDict", "call:get")
def symdict_get(ex, obj, args, kwargs, node, env, fr):
    """mapping.get(key, default=None) with a literal key: forks on the key's presence"""
    k = args[0]
    dflt = args[1] if len(args) > 1 else kwargs.get("default")
    if not isinstance(k, str):
        raise Unsupported("get() with a non-literal key")
    p = obj.present(k)
    if ex.decide(p):
        return ex.load_subscript(obj, (k,), node, env, fr)
    return dflt


@method("SymDict", "call:copy")
def symdict_copy(ex, obj, args, kwargs, node, env, fr):
    """Dataset.copy(deep=...) of a grid's dataset in abstract mode: an uninterpreted value determined by the dataset (as it is at the
    time of the call) and the flags; python-dict copies keep their precise model"""
    if obj.ghost.get("ident") is None or not ex.abstract:
        raise Unsupported("copy() of a symbolic mapping")
    trusted(ex, "Dataset.copy(**flags) of the grid's dataset: a function of the dataset at the time of the call and of the flags")
    return abs_value(ex, "meth:Dataset.copy", [as_opt(obj.ghost["ident"], "ds")] + list(args), kwargs)


F_CTOR = z3.Function("ctor_args", USORT, USORT)


def construct_abstract(ex, clsname, args, kwargs):
    """abstract mode: Class(args) yields a NEW object (distinct from None and from every object seen so far on this path) that
    remembers what it was constructed from: ctor_args(o) == (class, args, keywords)"""
    trusted(ex, "abstract mode: constructing an unmodelled class yields a new object that records its constructor arguments")
    o = Opaque(name="new_" + clsname.split(".")[-1])
    ex.assume(o.term != NONE_U)
    seen = getattr(ex.st, "_known_idents", None)
    if seen is None:
        seen = ex.st._known_idents = []
    for x in seen:
        ex.assume(o.term != x)
    seen.append(o.term)
    # ... and from the objects that were passed in
    for pv in (getattr(ex.st, "param_objs", None) or {}).values():
        if isinstance(pv, Obj):
            ex.assume(o.term != pv.ident)
        elif isinstance(pv, Opaque):
            ex.assume(o.term != pv.term)
    ex.assume(F_CTOR(o.term) == _ctor_term(clsname, args, kwargs))
    o.ghost["truth"] = z3.BoolVal(True)
    return o


def _ctor_term(clsname, args, kwargs):
    kw = sorted(kwargs)
    name = "ctor:" + clsname.split(".")[-1] + ("|" + ",".join(kw) if kw else "")
    terms = [uterm(a) for a in args] + [uterm(kwargs[k]) for k in kw]
    return _uf(name, len(terms))(*terms) if terms else z3.Const("uf_" + name, USORT)


@spec("constructed")
def sp_constructed(ex, args, kwargs, node):
    """constructed(o, 'Class', a, b, kw=c): o is an object built by Class(a, b, kw=c)"""
    o, cls = args[0], args[1]
    return F_CTOR(uterm(o)) == _ctor_term(cls, list(args[2:]), dict(kwargs))


_UFR = {}


@spec("ufr")
def sp_ufr(ex, args, kwargs, node):
    """ufr('name', r1, ..., rn): real-valued uninterpreted function of real arguments (numerical kernels whose value is not the
    subject of the obligation, e.g. the spherical-triangle Jacobian at a quadrature point)"""
    name, rest = args[0], list(args[1:])
    flat = []
    for a in rest:
        if isinstance(a, Small):
            flat.extend(a.flat())
        elif isinstance(a, (list, tuple)):
            flat.extend(a)
        else:
            flat.append(a)
    key = (name, len(flat))
    if key not in _UFR:
        _UFR[key] = z3.Function("ufr_" + name, *([V.REAL] * len(flat)), V.REAL)
    return _UFR[key](*[to_z3(x, "real") for x in flat])


_UFARR = {}
F_MEAN = z3.Function("mean_1d", z3.ArraySort(V.INT, V.REAL), V.INT, V.REAL)


@model("numpy.mean")
def np_mean(ex, args, kwargs, node):
    """np.mean(a) of a 1-D array: an uninterpreted function of the array value and its length (A-REAL; the arithmetic mean itself
    is numpy's)"""
    a = args[0]
    if isinstance(a, Arr) and a.rank == 2 and kwargs.get("axis") in (1, -1) and len(args) == 1 and len(kwargs) == 1 \
            and isinstance(E._conc(a.shape[1]), int) and 1 <= E._conc(a.shape[1]) <= 8 and a.kind == "real":
        # mean over a short, fixed number of columns: (a[:, 0] + ... + a[:, w-1]) / w  (real arithmetic)
        w = E._conc(a.shape[1])
        trusted(ex, "numpy.mean(axis=1) over a fixed small number of columns: their sum divided by the count (A-REAL)")
        r = Arr.from_lambda([a.shape[0]], "real", lambda i: sum((a.sel(i, j) for j in range(1, w)), a.sel(i, 0)) / w, name="rowmean")
        r.ghost.update(owner="fresh", corder=True)
        return r
    if len(args) > 1 or kwargs or not isinstance(a, Arr) or a.rank != 1 or a.kind != "real":
        raise Unsupported("np.mean other than of a 1-D real array")
    trusted(ex, "numpy.mean(1-D array): a function of the array's values and length")
    return F_MEAN(a.term, to_z3(a.shape[0], "int"))


@spec("mean1")
def sp_mean1(ex, args, kwargs, node):
    a = args[0]
    return F_MEAN(a.term, to_z3(a.shape[0], "int"))



@spec("ufarr")
def sp_ufarr(ex, args, kwargs, node):
    """ufarr('name', a1, ..., ak, n): real-valued uninterpreted function of 1-D real arrays (as array values) and an integer"""
    name, arrs, n = args[0], list(args[1:-1]), args[-1]
    key = (name, len(arrs))
    if key not in _UFARR:
        _UFARR[key] = z3.Function("ufarr_" + name, *([z3.ArraySort(V.INT, V.REAL)] * len(arrs)), V.INT, V.REAL)
    ts = []
    for a in arrs:
        if not isinstance(a, Arr) or a.rank != 1:
            raise Unsupported("ufarr of something else than 1-D arrays")
        t = a.term
        if a.kind != "real":
            i = z3.Int(fresh_name("i"))
            t = z3.Lambda([i], z3.ToReal(z3.Select(t, i)))
        ts.append(t)
    return _UFARR[key](*ts, to_z3(n, "int"))


@spec("lib_ref")
def sp_lib_ref(ex, args, kwargs, node):
    """lib_ref('numpy.mean'): the library function object itself (as passed around as a callable)"""
    return V.ModRef(args[0])


@spec("meth")
def sp_meth(ex, args, kwargs, node):
    """meth('query', obj, a, b, k=c): value of the (abstracted) method call obj.query(a, b, k=c)"""
    return abs_value(ex, "meth:" + args[0], list(args[1:]), dict(kwargs))


@spec("getitem")
def sp_getitem(ex, args, kwargs, node):
    """getitem(x, i, j, ...): value of the (abstracted) subscript x[i, j, ...]"""
    return abs_value(ex, "getitem", [args[0], tuple(args[1:])], {})


@spec("dscopy")
def sp_dscopy(ex, args, kwargs, node):
    """dscopy(grid._ds, deep=True): value of Dataset.copy(**flags) of the grid's dataset"""
    d = args[0]
    return abs_value(ex, "meth:Dataset.copy", [as_opt(d.ghost["ident"], "ds")] + list(args[1:]), dict(kwargs))


@method("SymDict", "call:items")
def symdict_items(ex, obj, args, kwargs, node, env, fr):
    if obj.closed and all(p is True for p, _ in obj.entries.values()):
        return [(k, v) for k, (p, v) in obj.entries.items()]
    raise Unsupported("items() of a symbolic mapping")


# ---------------------------------------------------------------------------------------------
# full BallTree / KDTree record for verifying the `coordinates` setter (C08 / C11)
# ---------------------------------------------------------------------------------------------
def _make_full_tree(cls):
    def mk(ex, name, env, **kw):
        o = Obj(cls)
        g = Obj("Grid")
        for d in ("n_node", "n_face", "n_edge"):
            g.fields[d] = z3.Int(fresh_name(d))
            ex.assume(g.fields[d] >= 1)
        o.fields["_source_grid"] = g
        o.fields["_coordinates"] = Opaque(name=name + "._coordinates")
        o.fields["coordinate_system"] = Opaque(name=name + ".coordinate_system")
        o.fields["distance_metric"] = Opaque(name=name + ".distance_metric")
        o.fields["reconstruct"] = z3.Bool(fresh_name("reconstruct"))
        o.fields["_n_elements"] = z3.Int(fresh_name("_n_elements"))
        for k in ("nodes", "face_centers", "edge_centers"):
            o.fields["_tree_from_" + k] = opt_opaque(f"{name}._tree_from_{k}")
        return o
    return mk


FACTORIES_TREES = {}
for _cls in ("BallTree", "KDTree"):
    factory(_cls)(_make_full_tree(_cls))


# ---------------------------------------------------------------------------------------------
# xarray.DataArray: .max() / .data setter (used by _set_desired_longitude_range)
# ---------------------------------------------------------------------------------------------
def _da_max(ex, obj, args, kwargs, node, env, fr):
    a = obj.fields.get("data")
    if not isinstance(a, Arr) or a.rank != 1 or a.kind != "real":
        raise Unsupported(".max() of something else than a 1-D real variable")
    trusted(ex, "DataArray.max(): an upper bound of all entries that is attained (non-empty array)")
    m = z3.Real(fresh_name("max"))
    i = z3.Int(fresh_name("i"))
    w = z3.Int(fresh_name("argmax"))
    n = to_z3(a.shape[0], "int")
    ex.assume(z3.ForAll([i], z3.Implies(z3.And(i >= 0, i < n), a.sel(i) <= m), patterns=[a.sel(i)]))
    ex.assume(z3.Implies(n > 0, z3.And(w >= 0, w < n, a.sel(w) == m)))
    return m


METHODS[("DataArray", "call:max")] = _da_max


def _arr_max(ex, obj, args, kwargs, node, env, fr):
    if args or kwargs or obj.rank != 1 or obj.kind != "real":
        raise Unsupported(".max() of something else than a 1-D real array")
    o = Obj("DataArray")
    o.fields["data"] = obj
    return _da_max(ex, o, args, kwargs, node, env, fr)


METHODS[("Arr", "call:max")] = _arr_max


def _da_set_data(ex, base, node, env, fr):
    def setter(v):
        # assigning `.data` re-binds the variable of the dataset this DataArray belongs to: a store into that dataset
        ex.frame_store(base, node, env, fr)
        base.fields["data"] = v
    return setter


METHODS[("DataArray", "__setattr__:data")] = _da_set_data



# ---- the grid's dataset as a mapping with a closed inventory: Dataset.isel / drop_vars / data_vars / variables (abstract mode) ----------
def _is_dataset_dict(obj):
    return isinstance(obj, SymDict) and (obj.ghost.get("ident") is not None or obj.ghost.get("dataset"))


def _derived_dataset(obj, name):
    d = SymDict(fresh_name(name), {}, closed=obj.closed, owner="fresh")
    d.ghost["dataset"] = True
    d.ghost["ident"] = z3.Const(fresh_name("dataset"), USORT)       # a new object
    d.ghost["entry_factory"] = obj.ghost.get("entry_factory")
    return d


@method("SymDict", "call:isel")
def symdict_isel(ex, obj, args, kwargs, node, env, fr):
    """Dataset.isel(dim=indices): a NEW dataset with the same variables, each one indexed along that dimension (variables without
    the dimension are unchanged - not distinguished here: every variable becomes isel(variable, dim, indices))"""
    if not _is_dataset_dict(obj) or not ex.abstract or not obj.closed or args or len(kwargs) != 1:
        raise Unsupported("isel on something else than a dataset with a closed inventory (one dimension per call)")
    trusted(ex, "Dataset.isel(dim=indices): same variables, each indexed along the dimension by those indices")
    (dim, idx), = kwargs.items()
    d = _derived_dataset(obj, "ds_isel")
    for k, (p, v) in obj.entries.items():
        if p is True:
            if v is V.UNSET:
                v = obj.ghost["entry_factory"](ex, obj, k) if obj.ghost.get("entry_factory") else Opaque(name=f"{obj.name}.{k}")
                obj.materialise(k, v)
            d.entries[k] = [True, abs_value(ex, "xr:isel", [v, dim, idx], {})]
        elif p is False:
            d.entries[k] = [False, V.UNSET]
        else:
            raise Unsupported("isel of a dataset with a variable of unknown presence")
    return d


@method("SymDict", "call:drop_vars")
def symdict_drop_vars(ex, obj, args, kwargs, node, env, fr):
    if not _is_dataset_dict(obj) or len(args) != 1 or kwargs:
        raise Unsupported("drop_vars on something else than a dataset")
    names = args[0]
    names = [names] if isinstance(names, str) else list(names)
    if not all(isinstance(n_, str) for n_ in names):
        raise Unsupported("drop_vars with non-literal names")
    d = _derived_dataset(obj, "ds_drop")
    d.entries = {k: list(e) for k, e in obj.entries.items()}
    for n_ in names:
        p = obj.present(n_)
        if p is not True:
            if p is False:
                from .symexec import PathRaise
                raise PathRaise("ValueError", node)
            raise Unsupported("drop_vars of a variable of unknown presence")
        d.entries[n_] = [False, V.UNSET]
    return d


@method("SymDict", "data_vars")
def symdict_data_vars(ex, base, node, env, fr):
    if not _is_dataset_dict(base):
        raise Unsupported("data_vars of something else than a dataset")
    return base


@method("SymDict", "variables")
def symdict_variables(ex, base, node, env, fr):
    if not _is_dataset_dict(base):
        raise Unsupported("variables of something else than a dataset")
    return base
