"""Models for opaque python objects (xarray DataArray handles, Grid seen from outside) and the
factories for record objects named in typespecs (obj('Grid') ...)."""
import z3

from . import engine as E
from . import values as V
from .npmodels import METHODS, MODELS, SPEC_BUILTINS, method, model, spec, trusted
from .typespec import factory
from .values import Arr, Obj, Opaque, Small, SymDict, Unsupported, fresh_name, to_z3, USORT

_ATTR_FUNCS = {}


def attr_term(term, name):
    f = _ATTR_FUNCS.get(name)
    if f is None:
        f = _ATTR_FUNCS[name] = z3.Function("attr_" + name, USORT, USORT)
    return f(term)


def ident_of(v):
    if isinstance(v, Obj):
        return v.ident
    if isinstance(v, Opaque):
        return v.term
    raise Unsupported(f"identity of {type(v).__name__}")


def opaque_attr(ex, base, name):
    o = Opaque(term=attr_term(ident_of(base), name), name=name)
    o.ghost["bound"] = (base, name)
    return o


@spec("attr")
def sp_attr(ex, args, kwargs, node):
    base, name = args
    return opaque_attr(ex, base, name)


F_DA_EQUALS = z3.Function("da_equals", USORT, USORT, V.BOOL)


def da_equals(ex, a, b):
    ta, tb = ident_of(a), ident_of(b)
    r = F_DA_EQUALS(ta, tb)
    # assumed contract of xarray.DataArray.equals: an equivalence (same dims, shape, values)
    ex.assume(F_DA_EQUALS(ta, tb) == F_DA_EQUALS(tb, ta))
    ex.assume(F_DA_EQUALS(ta, ta))
    ex.assume(F_DA_EQUALS(tb, tb))
    trusted(ex, "xarray.DataArray.equals is an equivalence relation on (dims, shape, values) [assumed]")
    return r


@spec("da_equals")
def sp_da_equals(ex, args, kwargs, node):
    return da_equals(ex, args[0], args[1])


@method("Opaque", "call:equals")
def opaque_equals(ex, obj, args, kwargs, node, env, fr):
    return da_equals(ex, obj, args[0])


@spec("isinstance_of")
def sp_isinstance_of(ex, args, kwargs, node):
    return MODELS["builtins.isinstance"](ex, [args[0], V.ClassRef("?", args[1])], {}, node)


# --------------------------------------------------------------------------- Grid record

@factory("Grid")
def make_grid(ex, name, env, **kw):
    g = Obj("Grid")
    g.fields["source_grid_spec"] = Opaque(name=name + ".source_grid_spec")
    g.fields["_ds"] = SymDict(name + "._ds", closed=False, owner="self")
    return g
