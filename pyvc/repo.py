"""Extraction of the real function bodies from the repository working tree.

What is verified is the text that runs: for a qualified name the *last* module
level definition of that name is taken (as CPython binds it), or the method of the
named class.  Extraction drops exactly: docstrings, type annotations, decorators
(@njit/@property/@classmethod/@staticmethod are honoured in call resolution only).
"""
import ast
import hashlib
import os

REPO_ROOT = os.environ.get("VERIF_REPO", "/repo")


class FuncInfo:
    def __init__(self, modname, cls, name, node, file):
        self.modname = modname
        self.cls = cls
        self.name = name
        self.node = node
        self.file = file
        self.line = node.lineno
        self.decorators = [ast.unparse(d) for d in node.decorator_list]
        body = list(node.body)
        if body and isinstance(body[0], ast.Expr) and isinstance(getattr(body[0], "value", None), ast.Constant) \
                and isinstance(body[0].value.value, str):
            body = body[1:]
        self.body = body
        # sha of the executable text: arguments + body without docstring
        txt = ast.unparse(node.args) + "\n" + "\n".join(ast.unparse(s) for s in body)
        self.sha256 = hashlib.sha256(txt.encode()).hexdigest()

    @property
    def qualname(self):
        if self.cls:
            return f"{self.modname}.{self.cls}.{self.name}"
        return f"{self.modname}.{self.name}"

    @property
    def is_property(self):
        return any(d == "property" for d in self.decorators)

    @property
    def is_classmethod(self):
        return any(d == "classmethod" for d in self.decorators)

    @property
    def is_staticmethod(self):
        return any(d == "staticmethod" for d in self.decorators)

    def params(self):
        a = self.node.args
        names = [x.arg for x in a.posonlyargs + a.args]
        defaults = [None] * (len(names) - len(a.defaults)) + list(a.defaults)
        out = list(zip(names, defaults))
        for x, d in zip(a.kwonlyargs, a.kw_defaults):
            out.append((x.arg, d))
        return out, (a.vararg.arg if a.vararg else None), (a.kwarg.arg if a.kwarg else None)


class ModuleInfo:
    def __init__(self, modname, file):
        self.modname = modname
        self.file = file
        with open(file) as f:
            self.src = f.read()
        self.tree = ast.parse(self.src, filename=file)
        self.funcs = {}
        self.classes = {}
        self.imports = {}  # local name -> ("module", modname) | ("from", modname, orig)
        self.assigns = {}  # module-level simple assignments name -> ast expr (last wins)
        for st in self.tree.body:
            self._scan(st)

    def _scan(self, st):
        if isinstance(st, ast.FunctionDef):
            self.funcs[st.name] = FuncInfo(self.modname, None, st.name, st, self.file)
        elif isinstance(st, ast.ClassDef):
            meths = {}
            for s in st.body:
                if isinstance(s, ast.FunctionDef):
                    # property setters share the name; keep getter unless decorated x.setter
                    decs = [ast.unparse(d) for d in s.decorator_list]
                    if any(d.endswith(".setter") for d in decs):
                        meths[s.name + ".setter"] = FuncInfo(self.modname, st.name, s.name, s, self.file)
                    else:
                        meths[s.name] = FuncInfo(self.modname, st.name, s.name, s, self.file)
            self.classes[st.name] = meths
        elif isinstance(st, ast.Import):
            for a in st.names:
                self.imports[(a.asname or a.name).split(".")[0]] = ("module", a.name if a.asname else a.name.split(".")[0])
        elif isinstance(st, ast.ImportFrom):
            mod = st.module or ""
            if st.level:
                base = self.modname.split(".")
                base = base[: len(base) - st.level]
                mod = ".".join(base + ([mod] if mod else []))
            for a in st.names:
                self.imports[a.asname or a.name] = ("from", mod, a.name)
        elif isinstance(st, ast.Assign) and len(st.targets) == 1 and isinstance(st.targets[0], ast.Name):
            self.assigns[st.targets[0].id] = st.value
        elif isinstance(st, (ast.If, ast.Try)):
            for s in st.body:
                self._scan(s)


class Repo:
    def __init__(self, root=None):
        self.root = root or REPO_ROOT
        self._mods = {}

    def module_file(self, modname):
        p = os.path.join(self.root, *modname.split("."))
        if os.path.isdir(p):
            return os.path.join(p, "__init__.py")
        return p + ".py"

    def has_module(self, modname):
        return modname.startswith("uxarray") and os.path.exists(self.module_file(modname))

    def module(self, modname):
        if modname not in self._mods:
            self._mods[modname] = ModuleInfo(modname, self.module_file(modname))
        return self._mods[modname]

    def get_function(self, qualname):
        """qualname: uxarray.pkg.mod.func or uxarray.pkg.mod.Class.method"""
        parts = qualname.split(".")
        for k in range(len(parts) - 1, 0, -1):
            modname = ".".join(parts[:k])
            if self.has_module(modname) and not os.path.isdir(os.path.join(self.root, *parts[:k + 1])):
                rest = parts[k:]
                m = self.module(modname)
                if len(rest) == 1 and rest[0] in m.funcs:
                    return m.funcs[rest[0]]
                if len(rest) == 2 and rest[0] in m.classes and rest[1] in m.classes[rest[0]]:
                    return m.classes[rest[0]][rest[1]]
                if len(rest) == 3 and rest[2] == "setter" and rest[0] in m.classes:
                    return m.classes[rest[0]].get(rest[1] + ".setter")
        return None

    def resolve(self, modname, name, _depth=0):
        """Resolve a global name used in module `modname`.
        Returns ("func", FuncInfo) | ("class", modname, clsname) | ("module", modname)
                | ("assign", modname, ast_expr) | None"""
        if _depth > 6 or not self.has_module(modname):
            return None
        m = self.module(modname)
        if name in m.funcs:
            return ("func", m.funcs[name])
        if name in m.classes:
            return ("class", modname, name)
        if name in m.assigns:
            return ("assign", modname, m.assigns[name])
        if name in m.imports:
            imp = m.imports[name]
            if imp[0] == "module":
                return ("module", imp[1])
            _, src, orig = imp
            if self.has_module(src + "." + orig):
                return ("module", src + "." + orig)
            if self.has_module(src):
                r = self.resolve(src, orig, _depth + 1)
                if r:
                    return r
            return ("extern", src, orig)
        return None
