"""PyVC: a verification-condition generator for the subset of Python/numpy used by
uxarray.  Re-reads /repo sources on every run (nothing of /repo is imported in the
solver interpreter), executes function bodies symbolically against sidecar contracts
(/verif/contracts) and discharges every obligation with z3."""
