"""Per-property driver: verify every function under contract, replay counter-models on the
real code, run the bounded stand-ins, write evidence, print VIOLATION / KNOWN-FINDING lines."""
import hashlib
import importlib
import json
import multiprocessing as mp
import os
import re
import subprocess
import sys
import time

VERIF = os.path.dirname(os.path.dirname(os.path.abspath(__file__)))
VENV_PY = "/venv/bin/python"

ASSUMPTIONS_COMMON = [
    "A-INT: python ints are mathematical integers; numpy intp overflow is a separate obligation where arithmetic is stored",
    "A-REAL: float64 is treated as the real field (rounding is not modelled); float literals are read as decimals",
    "A-NUMBA: @njit code computes what the same python text computes; prange is range plus a per-iteration frame obligation",
    "A-EXTRACT: verified text = last module-level def / class method in /repo working tree; docstrings, annotations, decorators dropped",
    "A-LIB: numpy/xarray/sklearn primitives behave as their library models (trusted_base lists the ones used)",
    "loop/history induction: invariant entry+preservation are SMT obligations; the induction principle itself is the meta-argument",
]


def _verify_one(job):
    q, options, timeout_ms = job
    sys.path.insert(0, VERIF)
    from pyvc.verify import verify_function
    try:
        return verify_function(q, options, timeout_ms)
    except Exception as e:  # noqa
        import traceback
        return {"function": q, "status": "error", "reason": f"{type(e).__name__}: {e}\n{traceback.format_exc()[-1200:]}",
                "obligations": [], "paths": 0, "trusted": [], "seconds": 0, "callees_assumed": []}


def _run_extra(job):
    modname, fname, tier = job
    sys.path.insert(0, VERIF)
    m = importlib.import_module(modname)
    try:
        return getattr(m, fname)(tier)
    except Exception as e:  # noqa
        import traceback
        return {"function": f"{modname}.{fname}", "status": "error",
                "reason": f"{type(e).__name__}: {e}\n{traceback.format_exc()[-1200:]}", "obligations": [], "paths": 0,
                "trusted": [], "seconds": 0, "callees_assumed": []}


def load_known():
    p = os.path.join(VERIF, "known_findings.json")
    if not os.path.exists(p):
        return {"findings": [], "fixed": []}
    with open(p) as f:
        return json.load(f)


def match_known(known, pid, ob_name, clause, fn):
    base = re.sub(r"#\d+$", "", ob_name)
    for k in known.get("findings", []):
        if k.get("property") != pid or k.get("standin_key") is not None:
            continue
        if not k.get("obligation") and not k.get("clause_contains"):
            continue
        if k.get("obligation") and not base.endswith(k["obligation"]) and k["obligation"] not in base:
            continue
        if k.get("clause_contains") and k["clause_contains"] not in (clause or ""):
            continue
        return k
    return None


def match_known_standin(known, pid, name, key):
    """a recorded finding suppresses exactly one stand-in failure key (the specific input / call site that fails)"""
    for k in known.get("findings", []):
        if k.get("property") == pid and k.get("standin_key") is not None and k["standin_key"] == key \
                and k.get("standin", name) == name:
            return k
    return None


def run_py(script, arg_json, timeout=600):
    os.makedirs(os.path.join(VERIF, "replays", "_tmp"), exist_ok=True)
    p = os.path.join(VERIF, "replays", "_tmp", f"job_{os.getpid()}_{hashlib.md5(json.dumps(arg_json, sort_keys=True, default=str).encode()).hexdigest()[:10]}.json")
    with open(p, "w") as f:
        json.dump(arg_json, f, default=str)
    env = dict(os.environ)
    env["UXARRAY_VERIF"] = "1"
    env.setdefault("NUMBA_DISABLE_JIT", "0")
    env["PYTHONPATH"] = VERIF + os.pathsep + os.path.join(VERIF, "harness")
    alt = os.environ.get("VERIF_REPO")
    if alt and os.path.abspath(alt) != "/repo":
        # development aid only (seed sweeps on scratch worktrees); registered commands always run against /repo
        env["PYTHONPATH"] = os.path.abspath(alt) + os.pathsep + env["PYTHONPATH"]
    try:
        out = subprocess.run([VENV_PY, os.path.join(VERIF, "harness", script), p], capture_output=True, text=True,
                             timeout=timeout, env=env, cwd=VERIF)
    except subprocess.TimeoutExpired:
        return {"error": "timeout"}
    finally:
        pass
    try:
        os.remove(p)
    except OSError:
        pass
    line = out.stdout.strip().splitlines()[-1] if out.stdout.strip() else ""
    if out.returncode < 0 and script == "run_standin.py":
        # the interpreter running the REAL library under the stand-in was killed by a signal (typically SIGSEGV from an
        # out-of-bounds access in a compiled kernel): the library did not return a result where the property promises one
        where = [l.strip() for l in out.stderr.splitlines() if "uxarray" in l and "File" in l][:3]
        return {"cases": 0, "distinct": 0, "bound": "aborted: interpreter killed by signal %d" % (-out.returncode), "samples": [],
                "failures": [{"key": "interpreter_crash:signal%d" % (-out.returncode),
                              "what": "the interpreter running uxarray inside the stand-in was killed by signal %d" % (-out.returncode),
                              "violated": "the operation returns a result", "inputs": {"stand-in": arg_json.get("name")},
                              "observed": (where or out.stderr[-600:]), "expected": "a result"}]}
    try:
        return json.loads(line)
    except Exception:
        return {"error": "no json", "stdout": out.stdout[-500:], "stderr": out.stderr[-800:]}


def standin_spec(c, q, n, seed, extra=None):
    spec = {"function": q, "params": c.params, "ghost_params": c.ghost_params, "sizes": c.sizes,
            "requires": c.requires + c.size_constraints, "ensures": c.ensures, "raises": c.raises, "n": n, "seed": seed}
    if c.replay:
        spec.update(c.replay)
    if extra:
        spec.update(extra)
    return spec


def run_property(mod, tier="quick", replay_path=None):
    t0 = time.time()
    pid = mod.PROPERTY
    seed = int(os.environ.get("VERIF_SEED", "0") or 0)
    sys.path.insert(0, VERIF)
    from pyvc.contracts import load_all
    reg = load_all()
    known = load_known()
    timeout_ms = 10000 if tier == "quick" else 60000
    jobs = []
    for f in mod.FUNCTIONS:
        q = f if isinstance(f, str) else f["q"]
        opts = {"canary": True}
        if not isinstance(f, str):
            opts.update(f.get("options", {}))
        jobs.append((q, opts, timeout_ms))
        # finite-scope refutation instances (phase 2) are separate jobs
        c = reg.get(q)
        if c is not None and c.finite_sizes:
            for fs in c.finite_sizes:
                o2 = dict(opts)
                o2["finite"] = fs
                o2["prefix"] = "finite" + "".join(f"_{k}{v}" for k, v in fs.items()) + ":"
                jobs.append((q, o2, timeout_ms))
    extras = [(mod.__name__, name, tier) for name in getattr(mod, "EXTRA", [])]
    nproc = min(16, max(1, len(jobs) + len(extras)))
    ctx = mp.get_context("fork")
    with ctx.Pool(nproc) as pool:
        r1 = pool.map_async(_verify_one, jobs, chunksize=1)
        r2 = pool.map_async(_run_extra, extras, chunksize=1)
        results = r1.get() + r2.get()

    violations = []
    known_lines = []
    undecided = []
    errors = []
    total = discharged = 0
    by_backend = {}
    solver_s = 0.0
    trusted = set()
    functions = []
    samples = []
    distinct_obs = set()
    failed_obs = []
    for res, job in zip(results, jobs + [None] * len(extras)):
        finite = bool(job and job[1].get("finite"))
        q = res["function"]
        fo = {"function": q, "file": res.get("file"), "line": res.get("line"), "sha256": res.get("sha256"),
              "paths": res.get("paths"), "status": res["status"], "seconds": res.get("seconds"),
              "finite_scope": job[1].get("finite") if job else None}
        if res["status"] == "error":
            errors.append(f"{q}: {res.get('reason')}")
        elif res["status"] == "undecided":
            undecided.append({"function": q, "reason": res.get("reason")})
        obs = res["obligations"]
        real = [o for o in obs if "canary" not in o["kind"]]
        can = [o for o in obs if "canary" in o["kind"]]
        if res["status"] == "ok" and not finite:
            if not real:
                errors.append(f"{q}: zero obligations generated (vacuity guard)")
            fcan = [o for o in can if o["kind"] == "canary"]
            if fcan and all(o["status"] == "discharged" for o in fcan):
                errors.append(f"{q}: every return path is infeasible under the contract (contradictory requires / models)")
            loops = {}
            for o in can:
                if o["kind"] != "canary":
                    loops.setdefault(o["kind"], []).append(o)
            for k, lst in loops.items():
                if all(o["status"] == "discharged" for o in lst):
                    errors.append(f"{q}: {k}: loop body unreachable under its invariant (vacuous invariant)")
        fo["obligations"] = len(real)
        fo["discharged"] = sum(o["status"] == "discharged" for o in real)
        functions.append(fo)
        for t in res.get("trusted", []):
            trusted.add(t)
        for t in res.get("callees_assumed", []):
            trusted.add("contract of callee (verified separately or assumed): " + t)
        for o in real:
            if finite:
                # finite-scope instances only refute; they are never counted as proof
                if o["status"] == "failed":
                    failed_obs.append((res, o))
                continue
            total += 1
            solver_s += o.get("seconds") or 0
            by_backend[o["backend"]] = by_backend.get(o["backend"], 0) + 1
            if o["status"] == "discharged":
                discharged += 1
                distinct_obs.add(re.sub(r"#\d+$", "", o["name"]))
                if len(samples) < 6 and o["kind"] in ("ensures", "ghost_assert") or len(samples) < 2:
                    samples.append({"obligation": o["name"], "clause": (o["clause"] or "")[:240], "backend": o["backend"]})
            elif o["status"] == "failed":
                failed_obs.append((res, o))
            else:
                undecided.append({"obligation": o["name"], "reason": o.get("reason"), "clause": (o["clause"] or "")[:200]})

    # ---------------------------------------------------------------- failed obligations -> replay
    os.makedirs(os.path.join(VERIF, "replays", pid), exist_ok=True)
    seen_groups = set()
    known_matched = []
    for res, o in failed_obs:
        q = res["function"]
        base = re.sub(r"#\d+$", "", o["name"])
        k = match_known(known, pid, o["name"], o["clause"], q)
        if k is not None:
            if k["id"] not in [x["id"] for x in known_matched]:
                known_matched.append(k)
            continue
        if base in seen_groups:
            continue
        seen_groups.add(base)
        c = reg.get(q)
        rp = {"property": pid, "obligation": o["name"], "function": q, "source_sha256": res.get("sha256"),
              "file": res.get("file"), "line": res.get("line"), "clause": o["clause"], "kind": o["kind"],
              "loc": o.get("loc"), "solver": "z3 " + _z3_version(), "status": "sat", "model": o.get("model"),
              "inputs": o.get("concrete") or {}, "backend": o.get("backend")}
        if c is not None:
            rp.update(requires=c.requires + c.size_constraints, ensures=c.ensures, raises=c.raises, params=list(c.params))
            for kk in ("rtol", "atol"):
                if c.replay and kk in c.replay:
                    rp[kk] = c.replay[kk]
        custom = getattr(mod, "CUSTOM_REPLAY", {}).get(q) or (res.get("custom_replay"))
        if custom:
            rp["custom_replay"] = custom
        fname = re.sub(r"[^A-Za-z0-9_.#:-]", "_", o["name"])[:150] + ".json"
        path = os.path.join(VERIF, "replays", pid, fname)
        verdict = {"verdict": "not-run"}
        objstate = c is not None and any("obj(" in str(t) for t in c.params.values()) and not custom
        if objstate:
            # counter-model over abstract object state (cache slots, history): not directly executable; the bounded
            # stand-ins of the property (operation sequences on real grids) look for a concrete failing history
            verdict = {"verdict": "not-reproduced", "reason": "abstract object-state counter-model; see the model and the stand-in results"}
            with open(path, "w") as f:
                json.dump(rp, f, indent=1, default=str)
        elif (c is not None or custom) and o.get("backend") != "ghost-static" or custom:
            with open(path, "w") as f:
                json.dump(rp, f, indent=1, default=str)
            verdict = run_py("replay.py", rp)
        if verdict.get("verdict") != "reproduced" and c is not None and not custom and not objstate and getattr(mod, "STANDIN_SEARCH", True):
            sr = run_py("standin.py", standin_spec(c, q, 1500, seed))
            if sr.get("failures"):
                verdict = {"verdict": "reproduced", "by": "bounded stand-in search", "failure": sr["failures"][0]}
                rp["inputs_found_by_standin"] = sr["failures"][0]
        hook = getattr(mod, "find_failing_input", None)
        if verdict.get("verdict") != "reproduced" and hook is not None:
            try:
                hv = hook(q, o, rp)
                if hv:
                    verdict = hv
            except Exception as e:  # noqa
                verdict = {"verdict": "not-reproduced", "hook_error": repr(e)}
        rp["verdict"] = verdict
        with open(path, "w") as f:
            json.dump(rp, f, indent=1, default=str)
        # "mirror" clauses of dataflow (abstract-mode) contracts equate a stored / returned value with a term built from
        # uninterpreted library calls and summarised functions.  When such a clause fails and no input was reproduced, the change may
        # be a semantics-preserving rewrite that the abstraction cannot see through: it is reported as a violation only if the
        # bounded stand-ins of the property confirm a violating input, otherwise as UNDECIDED (never a false alarm).
        mirror = (o["kind"] == "ensures" and verdict.get("verdict") != "reproduced"
                  and re.search(r"\b(summary|lib|meth|getitem|constructed|dscopy|lib_ref)\(", o.get("clause") or "") is not None)
        violations.append((o["name"], path, verdict.get("verdict") == "reproduced") + (("mirror",) if mirror else ()))

    # ---------------------------------------------------------------- bounded stand-ins
    standins = []
    n_cases = {"quick": 300, "thorough": 5000}[tier]
    for f in mod.FUNCTIONS:
        q = f if isinstance(f, str) else f["q"]
        cfg = None if isinstance(f, str) else f.get("standin")
        c = reg.get(q)
        if c is None or cfg is False:
            continue
        if cfg is None and not getattr(mod, "STANDIN_ALL", False):
            continue
        sr = run_py("standin.py", standin_spec(c, q, n_cases, seed, cfg if isinstance(cfg, dict) else None))
        entry = {"function": q, "kind": "bounded", "cases": sr.get("cases", 0), "distinct": sr.get("distinct", 0),
                 "bound": f"{n_cases} generated inputs satisfying the precondition (seed {seed})",
                 "failures": len(sr.get("failures", [])), "error": sr.get("error")}
        standins.append(entry)
        if sr.get("error"):
            errors.append(f"stand-in {q}: {sr.get('error')} {sr.get('stderr', '')[:300]}")
        for fl in sr.get("failures", []):
            kf = match_known(known, pid, "standin:" + q, fl.get("violated"), q)
            if kf is not None:
                if kf["id"] not in [x["id"] for x in known_matched]:
                    known_matched.append(kf)
                continue
            path = os.path.join(VERIF, "replays", pid, "standin_" + q.split(".")[-1] + ".json")
            with open(path, "w") as fh:
                json.dump({"property": pid, "function": q, "kind": "bounded stand-in", "failure": fl}, fh, indent=1, default=str)
            violations.append(("standin:" + q, path, True))
            break
    for name in getattr(mod, "STANDINS", []):
        sr = run_py("run_standin.py", {"module": mod.__name__, "name": name, "tier": tier, "seed": seed,
                                       "property": pid}, timeout=3000)
        entry = {"function": name, "kind": "bounded", "cases": sr.get("cases", 0), "distinct": sr.get("distinct", 0),
                 "bound": sr.get("bound"), "failures": len(sr.get("failures", [])), "error": sr.get("error"),
                 "samples": sr.get("samples", [])[:2]}
        standins.append(entry)
        if sr.get("error"):
            errors.append(f"stand-in {name}: {sr.get('error')} {str(sr.get('stderr', ''))[:400]} {str(sr.get('trace', ''))[-600:]}")
        for fl in sr.get("failures", []):
            key = fl.get("key") or fl.get("violated") or fl.get("what")
            kf = match_known_standin(known, pid, name, key)
            if kf is not None:
                if kf["id"] not in [x["id"] for x in known_matched]:
                    known_matched.append(kf)
                continue
            tag = hashlib.md5(str(key).encode()).hexdigest()[:8]
            path = os.path.join(VERIF, "replays", pid, f"standin_{name}_{tag}.json")
            with open(path, "w") as fh:
                json.dump({"property": pid, "standin": name, "kind": "bounded stand-in", "key": key, "tier": tier, "seed": seed,
                           "failure": fl, "replay": f"./check {pid} --replay {os.path.relpath(path, VERIF)}"}, fh, indent=1, default=str)
            violations.append((f"standin:{name}:{key}", path, True))
            if len([v for v in violations if v[0].startswith("standin:")]) >= 8:
                break

    if not any(v[0].startswith("standin:") for v in violations):
        kept = []
        for v in violations:
            if len(v) > 3 and v[3] == "mirror":
                undecided.append({"function": v[0].split("/")[0], "reason": f"dataflow clause {v[0]} no longer matches the code, but the bounded "
                                  f"stand-ins found no violating input (possibly an equivalent rewrite): see {os.path.relpath(v[1], VERIF)}"})
            else:
                kept.append(v)
        violations = kept
    violations = [v[:3] for v in violations]
    wall = time.time() - t0
    # ---------------------------------------------------------------- evidence
    proof_ok = total > 0 and discharged == total and not undecided and not errors
    level = getattr(mod, "LEVEL", "proof")
    if level == "proof" and not getattr(mod, "FUNCTIONS", []) and not getattr(mod, "EXTRA", []):
        level = "exploration"   # nothing under contract yet: the bounded stand-ins alone are an exploration, never a proof
    cov = {
        "obligations": total, "discharged": discharged,
        "checker_cmd": f"./check {pid} --tier {tier}",
        "trusted_base": sorted(trusted),
        "backends": by_backend, "solver_seconds": round(solver_s, 2),
        "functions_under_contract": functions,
        "bounded_standins": standins,
        "undecided": undecided[:40],
        "known_findings_matched": [k["id"] for k in known_matched],
        "samples": (samples + [{"standin": s["function"], "input": x} for s in standins for x in (s.get("samples") or [])[:1]])
        or [{"note": "no discharged obligation to show"}],
        "evaluations": total + sum(s["cases"] for s in standins),
        "distinct_nontrivial": len(distinct_obs) + sum(int(s.get("distinct") or 0) for s in standins),
        "rule": "evaluations = named proof obligations generated from the current /repo source + cases evaluated by the bounded "
                "stand-ins; distinct_nontrivial = distinct obligation names (path duplicates '#n' merged, canaries excluded) + the "
                "stand-ins' own count of distinct inputs",
        "explanation": getattr(mod, "EXPLANATION", ""),
        "failed_obligations": [v[0] for v in violations],
    }
    ev_level = level
    if level == "proof" and not proof_ok:
        # never call an incomplete run a proof
        ev_level = "exploration" if (total + sum(s["cases"] for s in standins)) > 0 else "other"
        cov["explanation"] = (cov["explanation"] + " | this run did not discharge every obligation "
                              f"({discharged}/{total}, undecided {len(undecided)}, errors {len(errors)}): level downgraded").strip(" |")
    ev = {"property_id": pid, "tier": tier, "seed": seed, "level": ev_level, "coverage": cov,
          "assumptions": ASSUMPTIONS_COMMON + list(getattr(mod, "ASSUMPTIONS", [])),
          "wall_s": round(wall, 2), "violations": len(violations)}
    os.makedirs(os.path.join(VERIF, "evidence"), exist_ok=True)
    with open(os.path.join(VERIF, "evidence", f"{pid}.json"), "w") as f:
        json.dump(ev, f, indent=1, default=str)

    # ---------------------------------------------------------------- report
    print(f"[{pid}] tier={tier} functions={len(functions)} obligations={total} discharged={discharged} "
          f"undecided={len(undecided)} standin_cases={sum(s['cases'] for s in standins)} wall={wall:.1f}s")
    for k in known_matched:
        print(f"KNOWN-FINDING: property={pid} {k['what']}")
    for u in undecided[:10]:
        print(f"UNDECIDED: {u}")
    for e in errors:
        print(f"CHECKER-ERROR: {e}")
    for name, path, reproduced in violations:
        tail = "" if reproduced else " no-failing-input-found"
        print(f"  failed obligation: {name}")
        print(f"VIOLATION property={pid} replay={path}{tail}")
    if violations:
        return 1
    if errors:
        return 3
    return 0


def _z3_version():
    try:
        import z3
        return z3.get_version_string()
    except Exception:
        return "?"
