"""Path-by-path symbolic execution of real function bodies (re-execution DFS).

Every symbolic branch asks `decide()`; the function is re-executed from its first
statement for every feasible decision vector.  Obligations emitted before the flip point
of a re-execution were already emitted by the path that shares the prefix and are
suppressed, so each obligation appears once per distinct path prefix.
"""
import ast
import re as _re_mod
import itertools

import z3

from . import engine as E
from . import values as V
from .engine import (NAN, PI, Ctx, DType, Frame, State, Obligation, and_vals, arith, compare, eq_val, ite_val, not_val,
                     or_vals, truth, forall_ranges, exists_ranges, BINOPS, loc_of)
from .values import (Arr, BoundMethod, Builtin, ClassRef, FuncRef, LambdaVal, ListMap, ModRef, Obj, Opaque, Small,
                     SymDict, Unsupported, fresh_name, is_scalar, is_sym_bool, is_z3, kind_of, to_z3)


NORESULT = object()   # eval_clause: do not bind the name `result` (invariants / ghost asserts may mention a local called result)


class PathEnd(Exception):
    """this path is complete (loop body finished, infeasible, or budget)"""


class PathRaise(Exception):
    def __init__(self, exc, node=None, args=()):
        self.exc = exc
        self.node = node
        self.args_ = args


class _Return(Exception):
    def __init__(self, value):
        self.value = value


class _Continue(Exception):
    pass


class _Break(Exception):
    pass


class ExcVal:
    def __init__(self, name, args=()):
        self.name = name
        self.args = args


MAX_PATHS = 4000


class Exec:
    def __init__(self, ctx):
        self.ctx = ctx
        self.st = None
        self.plan = []
        self.log = []
        self.plans = []
        self.frames = []
        self._psolver = None
        from . import npmodels
        self.models = npmodels.MODELS
        self.methods = npmodels.METHODS
        self.spec_builtins = npmodels.SPEC_BUILTINS
        self.spec_consts = npmodels.SPEC_CONSTS
        from . import specs, objmodels, arrmodels  # noqa: F401  (registers models)
        self._arrm = arrmodels
        specs.install(self.spec_builtins)

    # ------------------------------------------------------------------ path machinery
    @property
    def emitting(self):
        return len(self.log) >= len(self.plan)

    def hyps(self):
        return self.ctx.global_axioms + list(E.PENDING_FACTS) + self.st.facts + self.st.pc

    def feasible(self, extra=None):
        # incremental solver per path: hypotheses only grow along a path
        ps = self._psolver
        if ps is None:
            ps = self._psolver = z3.Solver()
            ps.set("timeout", self.ctx.prune_solver_ms)
            # the wall-clock timeout is not honoured inside some nonlinear procedures; the resource limit is (and is deterministic)
            ps.set("rlimit", int(self.ctx.options.get("prune_rlimit", 2000000)))
            self._pcount = [0, 0, 0]
            for h in self.ctx.global_axioms:
                ps.add(h)
        if len(E.STR_CONSTS) != getattr(self, "_nstr", 0) or self._pcount == [0, 0, 0]:
            # distinct string literals (and None / True / False) denote distinct objects: lets the path solver prune e.g.
            # x == 'a' and x == 'b'
            from .objmodels import NONE_U, TRUE_U, FALSE_U
            ps.add(z3.Distinct(NONE_U, TRUE_U, FALSE_U, *E.STR_CONSTS.values()))
            self._nstr = len(E.STR_CONSTS)
        srcs = (E.PENDING_FACTS, self.st.facts, self.st.pc)
        for k, src in enumerate(srcs):
            for h in src[self._pcount[k]:]:
                # nonlinear hypotheses are left out of the PRUNING solver (fewer hypotheses = more paths kept: sound); with them
                # the incremental solver can spend unbounded time in nonlinear procedures that ignore its timeout
                if not _is_nonlinear(h):
                    ps.add(h)
            self._pcount[k] = len(src)
        from .solve import safe_check
        if extra is None:
            return safe_check(ps, self.ctx.prune_solver_ms) != z3.unsat
        ps.push()
        ps.add(extra)
        r = safe_check(ps, self.ctx.prune_solver_ms)
        ps.pop()
        return r != z3.unsat

    def decide(self, cond):
        """branch on a (possibly symbolic) condition; returns python bool"""
        if isinstance(cond, bool):
            return cond
        cond = to_z3(cond, "bool")
        cond = z3.simplify(cond)
        if z3.is_true(cond):
            return True
        if z3.is_false(cond):
            return False
        pos = len(self.log)
        if pos < len(self.plan):
            choice = self.plan[pos]
        else:
            ft = self.feasible(cond) if self.ctx.prune else True
            ff = self.feasible(z3.Not(cond)) if self.ctx.prune else True
            if ft and ff:
                self.plans.append(self.log + [False])
                choice = True
            elif ft:
                choice = True
            elif ff:
                choice = False
            else:
                raise PathEnd()
        self.log.append(choice)
        self.st.pc.append(cond if choice else z3.Not(cond))
        return choice

    def nondet(self, n=2):
        """nondeterministic choice among n alternatives (used for loop body / loop exit)"""
        pos = len(self.log)
        if pos < len(self.plan):
            choice = self.plan[pos]
        else:
            for k in range(1, n):
                self.plans.append(self.log + [k])
            choice = 0
        self.log.append(choice)
        return choice

    def assume(self, fact):
        if isinstance(fact, bool):
            if not fact:
                raise PathEnd()
            return
        self.st.facts.append(to_z3(fact, "bool"))

    # ------------------------------------------------------------------ abstract ("dataflow") mode
    # options["abstract"]: values the engine has no model for are uninterpreted objects; library calls, operators, subscripts and
    # non-mutating method calls on them are deterministic, side-effect-free functions of their operands (recorded assumption).
    # options["summaries"]: repo functions abstracted the same way (callee must be pure; recorded per function).
    _MUTATING = {"sort", "fill", "put", "resize", "itemset", "setflags", "append", "extend", "insert", "remove", "pop", "clear",
                 "update", "setdefault", "popitem", "add", "discard", "partition", "byteswap", "close", "load", "persist"}
    _MUTATING_LIB = {"numpy.put", "numpy.copyto", "numpy.place", "numpy.putmask", "numpy.fill_diagonal", "numpy.put_along_axis"}

    @property
    def abstract(self):
        return bool(self.ctx.options.get("abstract"))

    def abs_apply(self, name, args, kwargs=None):
        from .objmodels import abs_value
        return abs_value(self, name, args, kwargs or {})

    def oblige(self, kind, goal, clause, node=None, tag=None, static=None, backend="z3"):
        if not self.emitting:
            return None
        if getattr(self, "_spec_depth", 0) > 0:
            # contract clauses are total spec-level terms: no index / shape obligations arise from evaluating them
            return None
        fr = self.frames[0] if self.frames else None
        loc = loc_of(self.frames[-1], node) if (node is not None and self.frames) else None
        if isinstance(goal, bool) and "canary" not in kind:
            # a goal that is literally True needs no solver; a literally False goal still holds if the path is infeasible, which
            # only the full solver (with the nonlinear hypotheses the pruning solver leaves out) can tell
            static = (True if goal else None) if static is None else static
        ob = self.ctx.oblige(_HypView(self.hyps()), kind, goal if not isinstance(goal, bool) else z3.BoolVal(goal),
                             clause, loc, static=static, backend=backend, tag=tag)
        ob.path = list(self.log)
        ob.inputs = self.st.old
        ob.sizes = dict(self.ctx.sizes)
        return ob

    # ------------------------------------------------------------------ entry point
    def verify_function(self, info, contract, make_inputs):
        """explore all paths of `info` under `contract`.  make_inputs(ex) -> env dict (fresh symbolic inputs,
        and assumes the preconditions)."""
        self.plans = [[]]
        npaths = 0
        self.ctx.fn_under_check = short_name(info.qualname)
        outcomes = []
        while self.plans:
            self.plan = self.plans.pop()
            self.log = []
            npaths += 1
            if npaths > MAX_PATHS:
                raise Unsupported(f"path budget exceeded ({MAX_PATHS}) in {info.qualname}")
            V._counter = itertools.count()
            E.PENDING_FACTS.clear()
            self._psolver = None
            self.st = State()
            self.frames = []
            fr = Frame(info, contract)
            try:
                env = make_inputs(self)
                self.st.env = env
                self.st.param_objs = dict(env)  # the objects passed in (in-place mutations visible, rebinding of the local name not)
                self.st.old = V.clone({k: v for k, v in env.items()}, {})
                self.assume_requires(contract, env)
                if not self.feasible():
                    if self.emitting:
                        raise Unsupported(f"precondition of {info.qualname} is unsatisfiable (vacuous contract)")
                    continue
                self.frames.append(fr)
                try:
                    # proof hint: exhaustive case split at entry (sound: both branches of every condition are explored)
                    for cl in contract.options.get("split", []):
                        self.decide(to_z3(self.eval_clause(cl, env, None), "bool"))
                    try:
                        self.exec_block(info.body, env, fr)
                        result, exc = None, None
                    except _Return as r:
                        result, exc = r.value, None
                    except PathRaise as pr:
                        result, exc = None, pr
                    self.check_post(info, contract, env, result, exc)
                    outcomes.append((list(self.log), "raise:" + exc.exc if exc else "return"))
                finally:
                    self.frames.pop()
            except PathEnd:
                continue
        self.ctx.paths += npaths
        if not outcomes and self.emitting and not any(z3.is_false(z3.simplify(ob.goal)) for ob in self.ctx.obligations):
            # (a path that ends at an assertion which is literally false in its state is not vacuity: that obligation fails)
            # vacuity guard: every path died as infeasible before a return / raise - contradictory hypotheses (contract or models)
            raise Unsupported(f"no path of {info.qualname} reaches a return or a raise: every path is infeasible under the contract "
                              f"and the models (contradictory hypotheses)")
        for key in (contract.asserts or {}):
            if not self.ctx.__dict__.get("anchor_hits", {}).get(key):
                raise Unsupported(f"ghost anchor {key!r} of the contract was never reached: the statement it names no longer exists "
                                  f"(contract out of date)")
        for (cname, cloc), (entered, survived) in self.ctx.__dict__.get("call_survival", {}).items():
            if entered and not survived:
                dead = self.ctx.__dict__.get("call_dead_clause", {}).get((cname, cloc))
                raise Unsupported(f"no path survives the assumed postcondition of {cname} at {cloc}: it is inconsistent with the "
                                  f"caller's state (missing modifies clause?)" + (f"; statically false clause: {dead[:160]}" if dead else ""))
        return outcomes

    def assume_requires(self, contract, env):
        for cl in contract.requires:
            self.assume(self.eval_clause(cl, env, None))

    def check_post(self, info, contract, env, result, exc):
        cenv = dict(self.st.old)  # parameters denote their entry values unless mutated objects (aliases kept)
        pobj = getattr(self.st, "param_objs", {})
        for k in pobj:
            if k in contract.params or k in self.st.old:
                # mutable objects: post-state is visible through the same object; entry value through old().  The
                # parameter denotes the object that was passed in, even if the body rebinds the local name.
                cenv[k] = pobj[k] if isinstance(pobj[k], (Arr, Small, Obj, SymDict, ListMap, list, dict)) else self.st.old.get(k, pobj[k])
        cenv.update(self.st.ghostvars)
        if exc is not None:
            # exceptional exit: must be allowed by a raises clause
            allowed = []
            for (ename, cond, mode) in contract.raises:
                if ename == exc.exc or ename == "*":
                    allowed.append(self.eval_clause(cond, cenv, None))
            goal = or_vals(allowed) if allowed else False
            self.oblige("raises", goal, f"raise {exc.exc} only if: " + " or ".join(c for e, c, m in contract.raises if e in (exc.exc, "*")) if allowed else f"unexpected raise {exc.exc}", exc.node, tag=exc.exc)
            return
        for (ename, cond, mode) in contract.raises:
            if mode == "iff":
                c = self.eval_clause(cond, cenv, None)
                self.oblige("must_raise", not_val(c), f"returns normally only if not ({cond}) [{ename}]", None, tag=ename)
        for i, cl in enumerate(contract.ensures):
            g = self.eval_clause(cl, cenv, result)
            self.oblige("ensures", g, cl, None, tag=str(i))
        if self.ctx.options.get("canary") and self.emitting:
            ob = self.oblige("canary", False, "False (reachability canary: must NOT be provable)", None)

    def eval_clause(self, clause, env, result, extra=None):
        node = ast.parse(clause.strip(), mode="eval").body
        cenv = dict(env)
        if result is not NORESULT:
            cenv["result"] = result
        if extra:
            cenv.update(extra)
        self._spec_depth = getattr(self, "_spec_depth", 0) + 1
        try:
            v = self.eval(node, cenv, _SpecFrame(self))
        except PathRaise as pr:
            # the clause mentions an attribute / key / index that does not exist in the current code (e.g. after a rename):
            # the contract cannot be evaluated -> UNDECIDED, never a violation
            raise Unsupported(f"contract clause cannot be evaluated on the current code ({pr.exc}): {clause.strip()[:120]}")
        finally:
            self._spec_depth -= 1
        if isinstance(v, Small):
            v = and_vals(v.flat())
        return v

    # ------------------------------------------------------------------ statements
    def exec_block(self, stmts, env, fr):
        for s in stmts:
            self.exec_stmt(s, env, fr)

    def exec_stmt(self, s, env, fr):
        m = getattr(self, "st_" + type(s).__name__, None)
        if m is None:
            raise Unsupported(f"statement {type(s).__name__} at {loc_of(fr, s)}")
        self._ghost_anchor(s, env, fr, before=True)
        m(s, env, fr)
        self._ghost_anchor(s, env, fr, before=False)

    def _ghost_anchor(self, s, env, fr, before):
        c = fr.contract
        if c is None or not c.asserts:
            return
        line = ast.unparse(s).split("\n")[0]
        when = "before" if before else "after"
        hits = self.ctx.__dict__.setdefault("anchor_hits", {})
        for key, stmts in c.asserts.items():
            # "after:<statement>" exact first line; "after^<prefix>" / "after^<prefix>#k": the k-th statement executed on this path
            # whose first line starts with <prefix> (robust against edits of the right-hand side)
            if key.startswith(when + ":"):
                ok = key[len(when) + 1:] == line
            elif key.startswith(when + "^"):
                pref, _, kth = key[len(when) + 1:].partition("#")
                ok = line.startswith(pref)
                if ok:
                    cnt = self.st.__dict__.setdefault("_anchor_counts", {})
                    seen_k = cnt.get(key, 0)
                    cnt[key] = seen_k + 1
                    ok = seen_k == int(kth or 0)
            else:
                ok = False
            if ok:
                hits[key] = hits.get(key, 0) + 1
                for cl in stmts:
                    self.run_ghost(cl, env, fr, s)

    def run_ghost(self, cl, env, fr, node):
        """ghost statement: 'assert <clause>' proves then assumes; 'assume' is not available."""
        kind, _, body = cl.partition(" ")
        cenv = dict(env)
        cenv.update(self.st.ghostvars)
        if kind == "lemma" and " using " in body:
            # lemma <goal> using <p1>; <p2>; ... : the goal is proved from the listed premises ALONE (a clean context for nonlinear
            # arithmetic); every premise is itself an obligation under the full hypotheses of the path
            goal_src, _, prem_src = body.partition(" using ")
            prems = []
            for ps in [x.strip() for x in prem_src.split(";") if x.strip()]:
                pz = to_z3(self.eval_clause(ps, cenv, NORESULT), "bool")
                self.oblige("lemma_premise", pz, ps, node)
                prems.append(pz)
            g = self.eval_clause(goal_src, cenv, NORESULT)
            ob = self.oblige("lemma", g, goal_src.strip(), node)
            if ob is not None:
                # generalise: every maximal subterm that is not polynomial arithmetic over variables (ite, division, function
                # applications ...) becomes a fresh variable, consistently in premises and goal - the generalised implication
                # entails this instance, and the solver sees a pure polynomial problem
                memo = {}
                ob.hyps = [_poly_abstract(h, memo) for h in prems]
                ob.goal = _poly_abstract(to_z3(g, "bool"), memo)
            self.assume(g)
            return
        if kind in ("assert", "lemma"):
            g = self.eval_clause(body, cenv, NORESULT)
            ob = self.oblige("ghost_assert" if kind == "assert" else "lemma", g, body, node)
            if kind == "lemma" and ob is not None:
                # lemma <clause>: proved from the quantifier-free hypotheses in the cone of influence of the clause only (dropping
                # hypotheses is sound and keeps nonlinear goals away from the trig / array axioms), then available like an assert
                from .objmodels import _relevant_hyps
                gz = to_z3(g, "bool")
                hs = [h for h in ob.hyps if not z3.is_quantifier(h) and not _has_quant(h)]
                ob.hyps = _relevant_hyps(hs, [gz], {})
            self.assume(g)
        elif kind == "define":
            # define f(a1, ..., an) = e : ghost definition of the spec function f at these arguments.  Well-definedness (e is a function
            # of a1..an over all pairs of paths) is an obligation; the defining equation is then available to later clauses.
            from .objmodels import two_safety, uterm, _uf
            head, _, ex = body.partition("=")
            fname, _, rest = head.strip().partition("(")
            argsrc = "(" + rest.strip()[:-1] + ",)"
            avals = self.eval_clause(argsrc, cenv, NORESULT)
            val = self.eval_clause(ex.strip(), cenv, NORESULT)
            aterms = [uterm(a) for a in avals]
            vterm = uterm(val)
            g = two_safety(self, "define:" + fname.strip(), aterms, vterm)
            self.oblige("define", g, f"{fname.strip()} is well defined: {ex.strip()} is a function of {rest.strip()[:-1]} only", node,
                        tag=fname.strip())
            self.assume(_uf(fname.strip(), len(aterms))(*aterms) == vterm)
        elif kind == "defrec":
            # defrec f(a, b) : real = <body mentioning f> - recursive spec function defined at this point of the execution (its body
            # may mention the current values of locals, e.g. a quadrature table just obtained)
            import re as _re
            m_ = _re.match(r"\s*(\w+)\s*\(([^)]*)\)\s*:\s*(\w+)\s*=\s*(.*)$", body, _re.S)
            if not m_:
                raise Unsupported("ghost statement " + cl)
            rname, rargs, rsort, rbody = m_.group(1), [a.strip() for a in m_.group(2).split(",") if a.strip()], m_.group(3), m_.group(4)
            from . import verify as _vf
            _vf._REC_COUNTER[0] += 1
            f_ = z3.RecFunction(f"rec_{rname}_{_vf._REC_COUNTER[0]}", *([z3.IntSort()] * len(rargs)), V.sort_of(rsort))
            zs_ = [z3.Int(fresh_name("r_" + a)) for a in rargs]
            if not hasattr(self.ctx, "recfuns"):
                self.ctx.recfuns = {}
            self.ctx.recfuns[rname] = (lambda ex_, a_, k_, n_, f=f_: f(*[to_z3(x, "int") for x in a_]))
            e2_ = dict(cenv)
            e2_.update(dict(zip(rargs, zs_)))
            z3.RecAddDefinition(f_, zs_, to_z3(self.eval_clause(rbody, e2_, NORESULT), rsort))
        elif kind == "defun":
            # defun f(a, b) : real = <body over a, b and the inputs> - a NON-recursive spec function introduced by definition (a
            # conservative extension): an uninterpreted symbol whose defining equation is made available only where the contract
            # asks for it (`unfold f(x, y)`), so that the body (e.g. nonlinear arithmetic) stays out of every other goal
            import re as _re
            m_ = _re.match(r"\s*(\w+)\s*\(([^)]*)\)\s*:\s*(\w+)\s*=\s*(.*)$", body, _re.S)
            if not m_:
                raise Unsupported("ghost statement " + cl)
            dname, dargs, dsort, dbody = m_.group(1), [a.strip() for a in m_.group(2).split(",") if a.strip()], m_.group(3), m_.group(4)
            from . import verify as _vf
            _vf._REC_COUNTER[0] += 1
            F_ = z3.Function(f"def_{dname}_{_vf._REC_COUNTER[0]}", *([z3.IntSort()] * len(dargs)), V.sort_of(dsort))
            if not hasattr(self.ctx, "recfuns"):
                self.ctx.recfuns = {}
            self.ctx.recfuns[dname] = (lambda ex_, a_, k_, n_, f=F_: f(*[to_z3(x, "int") for x in a_]))
            self.ctx.__dict__.setdefault("defuns", {})[dname] = (F_, dargs, dsort, dbody, dict(cenv))
        elif kind == "unfold":
            import re as _re
            m_ = _re.match(r"\s*(\w+)\s*\((.*)\)\s*$", body, _re.S)
            if not m_ or m_.group(1) not in self.ctx.__dict__.get("defuns", {}):
                raise Unsupported("ghost statement " + cl)
            F_, dargs, dsort, dbody, denv = self.ctx.defuns[m_.group(1)]
            vals = self.eval_clause("(" + m_.group(2) + ",)", cenv, NORESULT)
            e2_ = dict(denv)
            e2_.update(dict(zip(dargs, vals)))
            self.assume(F_(*[to_z3(x, "int") for x in vals]) == to_z3(self.eval_clause(dbody, e2_, NORESULT), dsort))
        elif kind == "store":
            # store <ghost array>, <index>, <value>: ghost assignment arr[index] = value
            arr_, idx_, val_ = self.eval_clause("(" + body + ",)", cenv, NORESULT)
            if not isinstance(arr_, Arr) or arr_.rank != 1:
                raise Unsupported("ghost store into something else than a 1-D ghost array")
            arr_.set_term(z3.Store(arr_.term, to_z3(idx_, "int"), to_z3(val_, arr_.kind)))
        elif kind == "append":
            # append <listmap>, <key>, <value>: ghost append to row <key> of a ghost dict-of-lists
            lm_, key_, val_ = self.eval_clause("(" + body + ",)", cenv, NORESULT)
            h_ = self.methods[("_ListMapRow", "call:append")]
            h_(self, _ListMapRow(lm_, key_), [val_], {}, node, env, fr)
        elif kind == "let":
            name, _, ex = body.partition("=")
            self.st.ghostvars[name.strip()] = self.eval_clause(ex, cenv, NORESULT)
        else:
            raise Unsupported("ghost statement " + cl)

    def st_Pass(self, s, env, fr):
        pass

    def st_Expr(self, s, env, fr):
        if isinstance(s.value, ast.Constant):
            return
        if isinstance(s.value, ast.Call):
            f = s.value.func
            nm = ast.unparse(f)
            if nm in ("warnings.warn", "warn", "print"):
                return
        self.eval(s.value, env, fr)

    def st_Import(self, s, env, fr):
        for a in s.names:
            env[(a.asname or a.name).split(".")[0]] = ModRef(a.name if a.asname else a.name.split(".")[0])

    def st_ImportFrom(self, s, env, fr):
        if getattr(s, "level", 0):
            # relative import inside a function: resolve against the package of the module being executed
            pkg = fr.info.modname.split(".")[:-s.level]
            s = ast.ImportFrom(module=".".join(pkg + ([s.module] if s.module else [])), names=s.names, level=0)
        for a in s.names:
            r = self.ctx.repo.resolve(s.module, a.name) if self.ctx.repo.has_module(s.module or "") else None
            if r is None and self.ctx.repo.has_module(f"{s.module}.{a.name}"):
                env[a.asname or a.name] = ModRef(f"{s.module}.{a.name}")
            elif r is None:
                env[a.asname or a.name] = ModRef(f"{s.module}.{a.name}")
            else:
                env[a.asname or a.name] = self.global_from_resolution(r, a.name)

    def st_Assign(self, s, env, fr):
        v = self.eval(s.value, env, fr)
        for t in s.targets:
            self.assign(t, v, env, fr)

    def st_AnnAssign(self, s, env, fr):
        if s.value is not None:
            self.assign(s.target, self.eval(s.value, env, fr), env, fr)

    def st_AugAssign(self, s, env, fr):
        if isinstance(s.target, ast.Subscript):
            # base and index are evaluated once (python semantics; also keeps a mask index identical for load and store)
            base = self.eval(s.target.value, env, fr)
            idx = self.eval_index(s.target.slice, env, fr)
            cur = self.load_subscript(base, idx, s.target, env, fr)
            v = self.eval(s.value, env, fr)
            op = BINOPS.get(type(s.op))
            if op is None:
                raise Unsupported(f"augmented operator {type(s.op).__name__}")
            self.store_subscript(base, idx, self.binop(op, cur, v, s), s.target, env, fr)
            return
        cur = self.eval(_as_load(s.target), env, fr)
        v = self.eval(s.value, env, fr)
        op = BINOPS.get(type(s.op))
        if op is None:
            raise Unsupported(f"augmented operator {type(s.op).__name__}")
        if isinstance(cur, Arr) and isinstance(s.target, ast.Name):
            # in-place numpy update: mutates the object (aliases see it)
            self.frame_store(cur, s, env, fr)
            new = self.binop(op, cur, v, s)
            if isinstance(new, Opaque):
                # abstract mode: the new contents are unknown, the in-place write itself is what matters (frame obligation above)
                if cur.base is not None:
                    raise Unsupported("in-place update through a view")
                cur.set_term(z3.Const(fresh_name(cur.name or "arr"), cur.term.sort()))
                return
            cur.set_term(new.term) if cur.base is None else self._bulk_store_view(cur, new)
            if new.kind != cur.kind:
                if cur.kind == "int" and new.kind == "real":
                    raise Unsupported("in-place true division on an integer array")
            return
        if isinstance(cur, Small) and isinstance(s.target, ast.Name):
            new = self.binop(op, cur, v, s)
            _small_assign_inplace(cur, new)
            return
        self.assign(s.target, self.binop(op, cur, v, s), env, fr)

    def _bulk_store_view(self, view, new):
        b, mp = view.base
        raise Unsupported("in-place update through a view")

    def assign(self, t, v, env, fr):
        if isinstance(t, ast.Name):
            env[t.id] = v
        elif isinstance(t, (ast.Tuple, ast.List)):
            items = self.unpack(v, len(t.elts), t, fr)
            for tt, vv in zip(t.elts, items):
                self.assign(tt, vv, env, fr)
        elif isinstance(t, ast.Subscript):
            base = self.eval(t.value, env, fr)
            idx = self.eval_index(t.slice, env, fr)
            self.store_subscript(base, idx, v, t, env, fr)
        elif isinstance(t, ast.Attribute):
            base = self.eval(t.value, env, fr)
            self.store_attr(base, t.attr, v, t, env, fr)
        elif isinstance(t, ast.Starred):
            raise Unsupported("starred assignment")
        else:
            raise Unsupported(f"assignment target {type(t).__name__}")

    def unpack(self, v, n, node, fr):
        if isinstance(v, (tuple, list)):
            if len(v) != n:
                raise PathRaise("ValueError", node)
            return list(v)
        if isinstance(v, Small):
            if v.shape[0] != n:
                raise PathRaise("ValueError", node)
            return [(_small_view(v, i)) for i in range(n)]
        if isinstance(v, Arr):
            c = E._conc(v.shape[0])
            if c is not None and c != n:
                raise PathRaise("ValueError", node)
            if c is None:
                self.oblige("unpack_len", eq_val(v.shape[0], n), f"len == {n}", node)
            return [self.index_arr(v, (i,), node) for i in range(n)]
        if isinstance(v, Opaque) and self.abstract:
            return [self.abs_apply("item", [v, i]) for i in range(n)]
        raise Unsupported(f"unpacking {type(v).__name__} at {loc_of(fr, node)}")

    def st_Return(self, s, env, fr):
        raise _Return(self.eval(s.value, env, fr) if s.value is not None else None)

    def st_Raise(self, s, env, fr):
        if s.exc is None:
            raise PathRaise("reraise", s)
        e = s.exc
        if isinstance(e, ast.Call):
            name = ast.unparse(e.func)
        else:
            name = ast.unparse(e)
        raise PathRaise(name.split(".")[-1], s)

    def st_Assert(self, s, env, fr):
        c = truth(self.eval(s.test, env, fr))
        if not self.decide(c):
            raise PathRaise("AssertionError", s)

    def st_If(self, s, env, fr):
        c = truth(self.eval(s.test, env, fr))
        if not isinstance(c, bool) and self._if_convert_dict_store(s, c, env, fr):
            return
        if self.decide(c):
            self.exec_block(s.body, env, fr)
        else:
            self.exec_block(s.orelse, env, fr)

    def _if_convert_dict_store(self, s, c, env, fr):
        """`if cond: d["key"] = <literal>` with a symbolic cond and no else: a conditional entry of a symbolic mapping instead of
        two paths (keeps encoders that set a dozen optional attributes at a few paths instead of thousands)"""
        if s.orelse or len(s.body) != 1 or not isinstance(s.body[0], ast.Assign) or len(s.body[0].targets) != 1:
            return False
        t = s.body[0].targets[0]
        if not (isinstance(t, ast.Subscript) and isinstance(t.value, ast.Name) and t.value.id in env):
            return False
        d = env[t.value.id]
        if not isinstance(d, (dict, SymDict)) or _has_call(s.body[0].value):
            return False
        if isinstance(d, SymDict) and d.ghost.get("owner") not in (None, "fresh", "self"):
            return False   # stores into foreign mappings go through the frame obligation on the ordinary path
        try:
            key = self.eval(t.slice, env, fr)
            val = self.eval(s.body[0].value, env, fr)
        except Unsupported:
            return False
        if not isinstance(key, str) or not isinstance(val, (str, int, bool)):
            return False
        if isinstance(d, dict):
            if not all(isinstance(k, str) for k in d):
                return False
            sd = SymDict(t.value.id, {k: [True, v] for k, v in d.items()}, closed=True)
            # replace the python dict by the symbolic mapping everywhere it is bound in this frame
            for k2, v2 in list(env.items()):
                if v2 is d:
                    env[k2] = sd
            d = sd
        cz = to_z3(c, "bool")
        if key in d.entries:
            p0, v0 = d.entries[key]
            if not (isinstance(v0, (str, int, bool)) and v0 == val):
                return False
            d.entries[key] = [or_vals([p0, cz]), val]
        else:
            if not d.closed:
                return False
            d.entries[key] = [cz, val]
        return True

    def st_Continue(self, s, env, fr):
        raise _Continue()

    def st_Break(self, s, env, fr):
        raise _Break()

    def st_Global(self, s, env, fr):
        raise Unsupported("global statement")

    def st_Delete(self, s, env, fr):
        for t in s.targets:
            if isinstance(t, ast.Name):
                env.pop(t.id, None)
            else:
                raise Unsupported("del of non-name")

    def st_With(self, s, env, fr):
        raise Unsupported("with statement")

    def st_Try(self, s, env, fr):
        raise Unsupported("try statement")

    def st_FunctionDef(self, s, env, fr):
        raise Unsupported("nested function definition")

    # ------------------------------------------------------------------ loops
    def st_While(self, s, env, fr):
        ordinal = self._loop_ordinal(s, fr)
        spec = fr.contract.loops.get(ordinal) if fr.contract else None
        if spec is None:
            # bounded unrolling is not a proof: only concrete conditions are followed
            n = 0
            while True:
                c = truth(self.eval(s.test, env, fr))
                if not isinstance(c, bool):
                    raise Unsupported(f"while loop without invariant at {loc_of(fr, s)}")
                if not c:
                    break
                try:
                    self.exec_block(s.body, env, fr)
                except _Continue:
                    pass
                except _Break:
                    return
                n += 1
                if n > 10000:
                    raise Unsupported("concrete while loop too long")
            self.exec_block(s.orelse, env, fr)
            return
        self._check_inv(spec, env, fr, s, "entry", ordinal, None)
        self._havoc(s.body, env, fr, spec)
        choice = self.nondet(2)
        self._assume_inv(spec, env, fr, None)
        c = truth(self.eval(s.test, env, fr))
        if choice == 0:
            self.assume(c)
            if not self.feasible():
                raise PathEnd()
            try:
                self.exec_block(s.body, env, fr)
            except _Continue:
                pass
            except _Break:
                return
            self._check_inv(spec, env, fr, s, "preserved", ordinal, None)
            raise PathEnd()
        self.assume(not_val(c))
        if not self.feasible():
            raise PathEnd()

    def _loop_ordinal(self, s, fr):
        """static ordinal of a loop statement: position among the For/While statements of its function in source order"""
        ids = getattr(fr, "_loop_ids", None)
        if ids is None:
            ids = {}
            body = getattr(fr.info, "body", None) or []
            k = 0
            stack = list(reversed(body))
            # pre-order traversal in source order
            def walk(stmts):
                nonlocal k
                for st in stmts:
                    if isinstance(st, (ast.For, ast.While)):
                        ids[id(st)] = k
                        k += 1
                    for fld in ("body", "orelse", "finalbody"):
                        sub = getattr(st, fld, None)
                        if isinstance(sub, list):
                            walk(sub)
                    for h in getattr(st, "handlers", []) or []:
                        walk(h.body)
            walk(body)
            fr._loop_ids = ids
        if id(s) in ids:
            return ids[id(s)]
        return next(fr.loop_ordinal) + 1000

    def st_For(self, s, env, fr):
        ordinal = self._loop_ordinal(s, fr)
        spec = fr.contract.loops.get(ordinal) if fr.contract else None
        it = self.eval_iter(s.iter, env, fr)
        if it[0] == "concrete":
            # unrolled: the loop's ghost state and counter (if the contract names them) still exist for anchored ghost statements
            if spec is not None:
                for g in spec.ghost_init:
                    self.run_ghost(g, env, fr, s)
            for pos_, item in enumerate(it[1]):
                if spec is not None and spec.counter:
                    env[spec.counter] = pos_
                self.assign(s.target, item, env, fr)
                try:
                    self.exec_block(s.body, env, fr)
                except _Continue:
                    continue
                except _Break:
                    return
                if spec is not None:
                    for g in spec.ghost_step:
                        self.run_ghost(g, env, fr, s)
            self.exec_block(s.orelse, env, fr)
            return
        # symbolic iteration: ('indexed', lo, hi, item_fn(k) -> value, counter_hint)
        _, lo, hi, item_fn, counter_target = it
        if spec is None:
            raise Unsupported(f"for loop over a symbolic range without invariant at {loc_of(fr, s)} "
                              f"(loop ordinal {ordinal} of {fr.info.qualname})")
        cname = spec.counter or counter_target or f"_k{ordinal}"
        # entry
        for g in spec.ghost_init:
            self.run_ghost(g, env, fr, s)
        env[cname] = lo
        self._check_inv(spec, env, fr, s, "entry", ordinal, cname)
        # arbitrary iteration
        self._havoc(s.body + [ast.Assign(targets=[s.target], value=ast.Constant(0))], env, fr, spec)
        k = z3.Int(fresh_name(cname))
        choice = self.nondet(2)
        if choice == 0:
            env[cname] = k
            self.assume(z3.And(to_z3(lo, "int") <= k, k < to_z3(hi, "int")))
            self._assume_inv(spec, env, fr, cname)
            if not self.feasible():
                raise PathEnd()
            self.assign(s.target, item_fn(k), env, fr)
            if counter_target and counter_target != cname:
                env[counter_target] = k
            try:
                self.exec_block(s.body, env, fr)
            except _Continue:
                pass
            except _Break:
                return
            for g in spec.ghost_step:
                self.run_ghost(g, env, fr, s)
            env[cname] = k + 1
            self._check_inv(spec, env, fr, s, "preserved", ordinal, cname)
            raise PathEnd()
        # exit
        lo_z, hi_z = to_z3(lo, "int"), to_z3(hi, "int")
        final = z3.If(hi_z >= lo_z, hi_z, lo_z)
        if isinstance(lo, int) and isinstance(hi, int):
            final = max(lo, hi)
        env[cname] = final
        self._assume_inv(spec, env, fr, cname)
        if not self.feasible():
            raise PathEnd()
        if s.orelse:
            self.exec_block(s.orelse, env, fr)

    def _check_inv(self, spec, env, fr, node, phase, ordinal, cname):
        cenv = dict(env)
        cenv.update(self.st.ghostvars)
        for i, cl in enumerate(spec.invariants):
            g = self.eval_clause(cl, cenv, NORESULT)
            self.oblige(f"loop{ordinal}_inv_{phase}", g, cl, node, tag=str(i))
        if self.ctx.options.get("canary") and phase == "preserved":
            self.oblige(f"loop{ordinal}_canary", False, "False (loop body reachability canary)", node)

    def _assume_inv(self, spec, env, fr, cname):
        cenv = dict(env)
        cenv.update(self.st.ghostvars)
        for cl in spec.invariants:
            self.assume(self.eval_clause(cl, cenv, NORESULT))

    def _havoc(self, body, env, fr, spec):
        names = set(spec.modifies) if spec.modifies is not None else modified_names(body)
        mutated = mutated_names(body)
        for n in names:
            if n in env:
                v = env[n]
                if isinstance(v, Arr) and n not in mutated:
                    # the NAME is re-bound in the body (e.g. it is a loop target), the object it pointed to is not written:
                    # bind a new arbitrary array and leave the old object (possibly a parameter, or being iterated) alone
                    shape = [z3.Int(fresh_name(f"{n}_dim{d}")) for d in range(v.rank)]
                    for sdim in shape:
                        self.assume(sdim >= 0)
                    env[n] = Arr.fresh(n, shape if v.base is None else list(v.shape), v.kind, ghost=dict(v.ghost))
                    continue
                env[n] = self.havoc_value(v, n, in_place=True)
        # ghost containers written by ghost statements anchored INSIDE this loop's body are part of what the loop modifies
        lines = set()
        for st_ in body:
            for x_ in ast.walk(st_):
                if isinstance(x_, ast.stmt) and hasattr(x_, "lineno"):
                    lines.add(ast.unparse(x_).split("\n")[0])

        def _inside(key):
            kind_, _, rest = key.partition(":") if ":" in key.split("^")[0] else key.partition("^")
            if "^" in key and not key.split("^")[0].endswith(":"):
                pref = key.split("^", 1)[1].partition("#")[0]
                return any(l.startswith(pref) for l in lines)
            return key.split(":", 1)[1] in lines
        anchored = [x for k_, xs in ((fr.contract.asserts or {}).items() if fr.contract else []) if _inside(k_) for x in xs
                    if x.startswith(("append ", "store "))]
        for g in list(self.st.ghostvars):
            if spec.modifies is None or g in names:
                if any(g in x for x in spec.ghost_step) or any(x.split(" ", 1)[1].split(",")[0].strip() == g for x in anchored):
                    self.st.ghostvars[g] = self.havoc_value(self.st.ghostvars[g], g, in_place=False)

    def havoc_value(self, v, name, in_place):
        if isinstance(v, bool):
            return z3.Bool(fresh_name(name))
        if isinstance(v, int):
            return z3.Int(fresh_name(name))
        if isinstance(v, float):
            return z3.Real(fresh_name(name))
        if is_z3(v):
            return z3.Const(fresh_name(name), v.sort())
        if isinstance(v, Arr):
            t = z3.Const(fresh_name(name), z3.ArraySort(*([V.INT] * v.rank), V.sort_of(v.kind)))
            if v.base is not None:
                raise Unsupported("havoc of an array view")
            v.set_term(t)
            return v
        if isinstance(v, Small):
            def rec(d, path):
                if isinstance(d, list):
                    for i in range(len(d)):
                        if isinstance(d[i], list):
                            rec(d[i], path + [i])
                        else:
                            k = kind_of(d[i]) or v.kind or "real"
                            d[i] = z3.Const(fresh_name(name), V.sort_of(k))
            rec(v.data, [])
            return v
        if isinstance(v, ListMap):
            v.len = z3.Const(fresh_name(name + ".len"), z3.ArraySort(V.INT, V.INT))
            v.elems = z3.Const(fresh_name(name + ".e"), z3.ArraySort(V.INT, V.INT, V.sort_of(v.kind)))
            return v
        if isinstance(v, tuple):
            return tuple(self.havoc_value(x, name, False) for x in v)
        if v is None:
            return None
        raise Unsupported(f"havoc of {type(v).__name__} ({name}) in a loop")

    def eval_iter(self, node, env, fr):
        """classify the iterable of a for loop"""
        if isinstance(node, ast.Call) and isinstance(node.func, ast.Name) and node.func.id in ("range", "prange") \
                or isinstance(node, ast.Call) and ast.unparse(node.func) in ("numba.prange", "nb.prange"):
            args = [self.eval(a, env, fr) for a in node.args]
            if len(args) == 1:
                lo, hi = 0, args[0]
            elif len(args) == 2:
                lo, hi = args
            else:
                raise Unsupported("range with step")
            if isinstance(lo, int) and isinstance(hi, int) and not isinstance(hi, bool):
                return ("concrete", list(range(lo, hi)))
            return ("indexed", lo, hi, lambda k: k, None)
        if isinstance(node, ast.Call) and isinstance(node.func, ast.Name) and node.func.id == "enumerate":
            inner = self.eval_iter(node.args[0], env, fr)
            if inner[0] == "concrete":
                return ("concrete", [(i, x) for i, x in enumerate(inner[1])])
            _, lo, hi, fn, _ = inner
            return ("indexed", lo, hi, lambda k: (k, fn(k)), "enumerate")
        if isinstance(node, ast.Call) and isinstance(node.func, ast.Name) and node.func.id == "zip":
            inners = [self.eval_iter(a, env, fr) for a in node.args]
            if all(i[0] == "concrete" for i in inners):
                return ("concrete", [tuple(x) for x in zip(*[i[1] for i in inners])])
            if any(i[0] == "concrete" for i in inners):
                raise Unsupported("zip of concrete and symbolic iterables")
            los = [i[1] for i in inners]
            his = [i[2] for i in inners]
            fns = [i[3] for i in inners]
            hi = his[0]
            # zip stops at the shortest: lengths are required equal (obligation)
            for h in his[1:]:
                if not (isinstance(h, int) and isinstance(hi, int) and h == hi):
                    self.oblige("zip_len", eq_val(h, hi), "zip operands have equal length", node)
            return ("indexed", los[0], hi, lambda k: tuple(f(k) for f in fns), None)
        v = self.eval(node, env, fr)
        if isinstance(v, (list, tuple)):
            return ("concrete", list(v))
        if isinstance(v, dict):
            return ("concrete", list(v.keys()))
        if isinstance(v, Small):
            return ("concrete", [_small_view(v, i) for i in range(v.shape[0])])
        if isinstance(v, Arr):
            n = v.shape[0]
            c = E._conc(n)
            if c is not None and c <= 16 and not self.ctx.options.get("no_unroll"):
                return ("concrete", [self.index_arr(v, (i,), node) for i in range(c)])
            return ("indexed", 0, n, lambda k: self.index_arr(v, (k,), node, check=False), None)
        if isinstance(v, _ListMapValues):
            lm = v.lm
            return ("indexed", 0, lm.n, lambda k: _ListMapRow(lm, k), None)
        if isinstance(v, ListMap) and v.__dict__.get("as_rows"):
            return ("indexed", 0, v.n, lambda k, lm=v: _ListMapRow(lm, k), None)
        if isinstance(v, _RangeVal):
            return ("indexed", v.lo, v.hi, lambda k: k, None)
        if isinstance(v, SymDict) and v.closed and all(p is True for p, _ in v.entries.values()):
            return ("concrete", list(v.entries.keys()))          # iterating a mapping yields its keys
        raise Unsupported(f"iteration over {type(v).__name__} at {loc_of(fr, node)}")

    # ------------------------------------------------------------------ expressions
    def eval(self, node, env, fr):
        m = getattr(self, "ev_" + type(node).__name__, None)
        if m is None:
            raise Unsupported(f"expression {type(node).__name__}: {ast.unparse(node)[:60]}")
        return m(node, env, fr)

    def ev_Constant(self, n, env, fr):
        return n.value

    def ev_JoinedStr(self, n, env, fr):
        return "<fstring>"

    def ev_Name(self, n, env, fr):
        if n.id in env:
            return env[n.id]
        if isinstance(fr, _SpecFrame):
            rf = getattr(self.ctx, "recfuns", {}).get(n.id)
            if rf is not None:
                return Builtin(n.id, rf)
            if n.id in self.spec_builtins:
                return Builtin(n.id, self.spec_builtins[n.id])
            if n.id in self.spec_consts:
                return self.spec_consts[n.id]
            if n.id in self.ctx.sizes:
                return self.ctx.sizes[n.id]
            if n.id in self.st.ghostvars:
                return self.st.ghostvars[n.id]
            g = self.global_name("uxarray.constants", n.id)
            if g is not _MISSING:
                return g
            if n.id in _PY_BUILTINS:
                return Builtin(n.id, None)
            raise Unsupported(f"unknown name {n.id!r} in contract clause")
        g = self.global_name(fr.info.modname, n.id)
        if g is not _MISSING:
            return g
        if n.id in _PY_BUILTINS:
            return Builtin(n.id, None)
        if n.id in ("True", "False", "None"):
            return {"True": True, "False": False, "None": None}[n.id]
        raise Unsupported(f"unknown name {n.id!r} at {loc_of(fr, n)}")

    def global_name(self, modname, name):
        key = (modname, name)
        mv = self.ctx.module_values
        if key in mv:
            return mv[key]
        r = self.ctx.repo.resolve(modname, name)
        if r is None:
            return _MISSING
        v = self.global_from_resolution(r, name)
        return v

    def global_from_resolution(self, r, name):
        if r[0] == "func":
            return FuncRef(r[1])
        if r[0] == "class":
            return ClassRef(r[1], r[2])
        if r[0] == "module":
            return ModRef(r[1])
        if r[0] == "extern":
            return ModRef(f"{r[1]}.{r[2]}")
        if r[0] == "assign":
            modname, expr = r[1], r[2]
            key = (modname, name)
            mv = self.ctx.module_values
            if key not in mv:
                info = _ModuleFrameInfo(modname, self.ctx.repo.module(modname).file)
                v = self.eval(expr, {}, Frame(info, None))
                if isinstance(v, (dict, list, SymDict)):
                    v = _tag_module_owner(v, f"{modname}.{name}")
                mv[key] = v
            return mv[key]
        return _MISSING

    def ev_Attribute(self, n, env, fr):
        base = self.eval(n.value, env, fr)
        return self.get_attr(base, n.attr, n, env, fr)

    def get_attr(self, base, attr, n, env, fr):
        if isinstance(base, ModRef):
            full = f"{base.name}.{attr}"
            full = _canon_mod(full)
            if full in _MODULE_CONSTS:
                return _MODULE_CONSTS[full]
            if full in self.models:
                return Builtin(full, self.models[full])
            if self.ctx.repo.has_module(base.name):
                g = self.global_name(base.name, attr)
                if g is not _MISSING:
                    return g
            if self.ctx.repo.has_module(full):
                return ModRef(full)
            return ModRef(full)
        if isinstance(base, Obj) and attr in base.fields:
            return base.fields[attr]
        h = self.methods.get((type(base).__name__, attr))
        if h is not None:
            return h(self, base, n, env, fr)
        if isinstance(base, Obj):
            if attr in base.fields:
                return base.fields[attr]
            # property / method of a repo class
            cm = self.class_member(base.cls, attr)
            if cm is not None:
                if cm.is_property:
                    return self.call_function(cm, [base], {}, n, env, fr)
                return BoundMethod(base, attr)
            if self.methods.get((base.cls, "call:" + attr)) is not None:
                return BoundMethod(base, attr)
            h2 = self.methods.get((base.cls, attr))
            if h2 is not None:
                return h2(self, base, n, env, fr)
            if base.cls == "DataArray" and isinstance(base.fields.get("attrs"), SymDict) and attr in base.fields["attrs"].entries:
                # xarray: da.name_of_attribute reads da.attrs[...] (AttributeError if there is no such attribute); only for
                # attribute names the contract (or the code so far) has put into the attribute mapping
                ad = base.fields["attrs"]
                p_ = ad.present(attr)
                if self.decide(p_):
                    return self.load_subscript(ad, (attr,), n, env, fr)
                raise PathRaise("AttributeError", n)
            if base.cls == "Dataset" and attr in base.fields["vars"].entries and base.fields["vars"].entries[attr][0] is True:
                return self.load_subscript(base.fields["vars"], (attr,), n, env, fr)       # xarray: ds.name is ds["name"]
            if self.abstract:
                # the record models only part of the real class: an attribute it does not know is an uninterpreted function of
                # the object (never a spurious AttributeError)
                from .objmodels import opaque_attr
                o = opaque_attr(self, base, attr)
                return o
            raise PathRaise("AttributeError", n)
        if isinstance(base, Opaque):
            from .objmodels import opaque_attr
            return opaque_attr(self, base, attr)
        if isinstance(base, (Arr, Small, SymDict, ListMap, list, dict, tuple, str, _ListMapRow, V.Masked)):
            return BoundMethod(base, attr)
        if is_scalar(base):
            return BoundMethod(base, attr)
        if type(base).__name__ == "SuperProxy":
            return BoundMethod(base, attr)
        raise Unsupported(f"attribute .{attr} of {type(base).__name__} at {loc_of(fr, n)}")

    def class_member(self, cls, attr):
        for modname, cname in self.ctx.options.get("classes", {}).get(cls, []) or _CLASS_HOMES.get(cls, []):
            m = self.ctx.repo.module(modname)
            if cname in m.classes and attr in m.classes[cname]:
                return m.classes[cname][attr]
        return None

    def ev_Tuple(self, n, env, fr):
        out = []
        for e in n.elts:
            if isinstance(e, ast.Starred):
                out.extend(self.eval(e.value, env, fr))
            else:
                out.append(self.eval(e, env, fr))
        return tuple(out)

    def ev_List(self, n, env, fr):
        return list(self.ev_Tuple(n, env, fr))

    def ev_Set(self, n, env, fr):
        return set(self.ev_Tuple(n, env, fr))

    def ev_Dict(self, n, env, fr):
        d = {}
        for k, v in zip(n.keys, n.values):
            if k is None:
                d.update(self.eval(v, env, fr))
            else:
                d[self.eval(k, env, fr)] = self.eval(v, env, fr)
        return d

    def ev_Lambda(self, n, env, fr):
        return LambdaVal(n, env)

    def ev_IfExp(self, n, env, fr):
        c = truth(self.eval(n.test, env, fr))
        if isinstance(c, bool):
            return self.eval(n.body if c else n.orelse, env, fr)
        if not isinstance(fr, _SpecFrame) and (_has_call(n.body) or _has_call(n.orelse)):
            # a branch with calls may raise / have obligations valid only under the guard: fork
            if self.decide(c):
                return self.eval(n.body, env, fr)
            return self.eval(n.orelse, env, fr)
        a = self.eval(n.body, env, fr)
        b = self.eval(n.orelse, env, fr)
        try:
            return ite_val(c, a, b)
        except Unsupported:
            return a if self.decide(c) else b

    def ev_BoolOp(self, n, env, fr):
        is_and = isinstance(n.op, ast.And)
        vals = []
        for i, e in enumerate(n.values):
            v = self.eval(e, env, fr)
            last = i == len(n.values) - 1
            if last and not vals:
                return v
            t = truth(v) if not (isinstance(v, bool) or is_sym_bool(v)) else v
            if isinstance(t, bool):
                if is_and and not t:
                    return v if not vals else and_vals(vals + [False])
                if not is_and and t:
                    return v if not vals else or_vals(vals + [True])
                continue
            # symbolic: if later operands have calls (could raise / index), fork to keep short-circuit semantics
            if not isinstance(fr, _SpecFrame) and not last and any(_has_call(x) or (_has_subscript(x) and not self._total_subscripts(x, env, fr))
                                                                   for x in n.values[i + 1:]):
                d = self.decide(t)
                if is_and and not d:
                    return False
                if not is_and and d:
                    return True
                continue
            vals.append(t)
        if not vals:
            return is_and
        return and_vals(vals) if is_and else or_vals(vals)

    def _total_subscripts(self, x, env, fr):
        """every subscript in x is a literal-key lookup in a mapping that certainly has the key (cannot raise): evaluating x eagerly
        is then equivalent to python's short-circuit evaluation"""
        for sub in ast.walk(x):
            if not isinstance(sub, ast.Subscript):
                continue
            if not (isinstance(sub.slice, ast.Constant) and isinstance(sub.slice.value, str)) or _has_call(sub.value):
                return False
            b = sub.value
            while isinstance(b, ast.Attribute):
                b = b.value
            if not isinstance(b, ast.Name) or b.id not in env:
                return False
            try:
                base = self.eval(sub.value, env, fr)
            except (Unsupported, PathRaise):
                return False
            k = sub.slice.value
            if isinstance(base, dict):
                if k not in base:
                    return False
            elif isinstance(base, SymDict):
                e = base.entries.get(k)
                if e is None or e[0] is not True:
                    return False
            else:
                return False
        return True

    def ev_UnaryOp(self, n, env, fr):
        v = self.eval(n.operand, env, fr)
        if self.abstract and isinstance(v, Opaque) and not isinstance(n.op, ast.Not):
            return self.abs_apply("unop:" + type(n.op).__name__, [v])
        if isinstance(n.op, ast.Not):
            return not_val(truth(v) if not (isinstance(v, bool) or is_sym_bool(v)) else v)
        if isinstance(n.op, ast.USub):
            return self.binop("-", 0, v, n) if not isinstance(v, (int, float)) or isinstance(v, bool) else -v
        if isinstance(n.op, ast.UAdd):
            return v
        if isinstance(n.op, ast.Invert):
            if isinstance(v, bool) or is_sym_bool(v) or (isinstance(v, (Arr, Small)) and _elem_kind(v) == "bool"):
                return not_val(v)
            raise Unsupported("bitwise invert on non-bool")
        raise Unsupported("unary op")

    def ev_BinOp(self, n, env, fr):
        a = self.eval(n.left, env, fr)
        b = self.eval(n.right, env, fr)
        if isinstance(n.op, (ast.BitAnd, ast.BitOr)):
            f = and_vals if isinstance(n.op, ast.BitAnd) else or_vals
            return self.elementwise2(a, b, lambda x, y: f([_as_boolish(x), _as_boolish(y)]), "bool")
        op = BINOPS.get(type(n.op))
        if op is None:
            raise Unsupported(f"operator {type(n.op).__name__}")
        return self.binop(op, a, b, n)

    def binop(self, op, a, b, node):
        if self.abstract and (isinstance(a, Opaque) or isinstance(b, Opaque)):
            return self.abs_apply("op:" + op, [a, b])
        if isinstance(a, (list, tuple)) and isinstance(b, (list, tuple)) and op == "+":
            return type(a)(list(a) + list(b))
        if isinstance(a, str) and isinstance(b, str) and op == "+":
            return a + b
        if isinstance(a, str) or isinstance(b, str):
            return "<str>"
        if isinstance(a, (Arr, Small, V.Masked)) or isinstance(b, (Arr, Small, V.Masked)):
            kind = None
            if op == "/":
                kind = "real"
            return self.elementwise2(a, b, lambda x, y: arith(op, x, y), kind)
        if isinstance(a, list) and isinstance(b, int) and op == "*":
            return a * b
        return arith(op, a, b)

    def elementwise2(self, a, b, fn, kind=None):
        if isinstance(a, V.Masked) or isinstance(b, V.Masked):
            return self._arrm.masked_binop(self, a, b, fn, kind)
        if isinstance(a, Arr) or isinstance(b, Arr):
            arr = a if isinstance(a, Arr) else b
            if isinstance(a, Arr) and isinstance(b, Arr) and self._needs_bcast(a, b):
                return self._bcast2(a, b, fn, kind)
            if isinstance(a, Arr) and isinstance(b, Arr):
                if a.rank != b.rank:
                    # broadcasting (n,m) op (m,) / (n,) op (n,1) are not needed by the verified functions
                    if b.rank < a.rank:
                        d = a.rank - b.rank
                        sel_b = lambda idx: b.sel(*idx[d:])
                        sel_a = lambda idx: a.sel(*idx)
                        shape = a.shape
                    else:
                        d = b.rank - a.rank
                        sel_a = lambda idx: a.sel(*idx[d:])
                        sel_b = lambda idx: b.sel(*idx)
                        shape = b.shape
                else:
                    sel_a = lambda idx: a.sel(*idx)
                    sel_b = lambda idx: b.sel(*idx)
                    shape = a.shape
                    self._same_shape(a, b)
            elif isinstance(a, Arr):
                if isinstance(b, Small):
                    raise Unsupported("Arr op Small broadcasting")
                sel_a = lambda idx: a.sel(*idx)
                sel_b = lambda idx: b
                shape = a.shape
            else:
                if isinstance(a, Small):
                    raise Unsupported("Small op Arr broadcasting")
                sel_a = lambda idx: a
                sel_b = lambda idx: b.sel(*idx)
                shape = b.shape
            idx = [z3.Int(fresh_name("i")) for _ in shape]
            before = len(E.PENDING_FACTS)
            body = fn(sel_a(idx), sel_b(idx))
            self._quantify_pending(before, idx, shape)
            k = kind or kind_of(body)
            r = Arr(z3.Lambda(idx, to_z3(body, k)), shape, k)
            r.ghost = _merge_ghost(a, b)
            return r
        if isinstance(a, Small) or isinstance(b, Small):
            r = Small.zip_map(a, b, fn)
            r.ghost = _merge_ghost(a, b)
            return r
        return fn(a, b)

    def _quantify_pending(self, before, idx, shape):
        """facts produced by term constructors (fmod / sqrt / trig axiom instances) while building an elementwise body mention the
        bound index variables: they hold for every element, so they are assumed universally over the index range"""
        new = E.PENDING_FACTS[before:]
        del E.PENDING_FACTS[before:]
        if new and self.st is not None:
            guard = z3.And(*[z3.And(i >= 0, i < to_z3(s_, "int")) for i, s_ in zip(idx, shape)])
            self.assume(z3.ForAll(idx, z3.Implies(guard, z3.And(*new))))

    def _needs_bcast(self, a, b):
        ra, rb = a.rank, b.rank
        for k in range(1, min(ra, rb) + 1):
            x, y = E._conc(a.shape[-k]), E._conc(b.shape[-k])
            if (x == 1) != (y == 1):
                return True
        return False

    def _bcast2(self, a, b, fn, kind):
        """numpy broadcasting with length-1 axes (shapes aligned at the trailing dimension)"""
        r = max(a.rank, b.rank)
        sa = [1] * (r - a.rank) + list(a.shape)
        sb = [1] * (r - b.rank) + list(b.shape)
        shape = []
        for x, y in zip(sa, sb):
            cx, cy = E._conc(x), E._conc(y)
            if cx == 1:
                shape.append(y)
            elif cy == 1:
                shape.append(x)
            else:
                if cx is not None and cy is not None and cx != cy:
                    raise PathRaise("ValueError")
                if cx is None or cy is None:
                    if not z3.eq(z3.simplify(to_z3(x, "int")), z3.simplify(to_z3(y, "int"))):
                        self.oblige("broadcast", eq_val(x, y), f"operand shapes agree ({x} == {y})")
                shape.append(x)
        idx = [z3.Int(fresh_name("i")) for _ in shape]

        def pick(arr, sh):
            off = r - arr.rank
            sel = []
            for d in range(arr.rank):
                sel.append(0 if E._conc(sh[off + d]) == 1 and E._conc(shape[off + d]) != 1 else idx[off + d])
            return arr.sel(*sel)
        before = len(E.PENDING_FACTS)
        body = fn(pick(a, sa), pick(b, sb))
        self._quantify_pending(before, idx, shape)
        k = kind or kind_of(body)
        out = Arr(z3.Lambda(idx, to_z3(body, k)), shape, k)
        out.ghost = _merge_ghost(a, b)
        return out

    def _same_shape(self, a, b):
        for x, y in zip(a.shape, b.shape):
            cx, cy = E._conc(x), E._conc(y)
            if cx is not None and cy is not None:
                if cx != cy and cx != 1 and cy != 1:
                    raise PathRaise("ValueError")
            elif not z3.eq(to_z3(x, "int"), to_z3(y, "int")):
                self.oblige("broadcast", eq_val(x, y), f"operand shapes agree ({x} == {y})")

    def ev_Compare(self, n, env, fr):
        left = self.eval(n.left, env, fr)
        res = []
        for op, c in zip(n.ops, n.comparators):
            right = self.eval(c, env, fr)
            if isinstance(op, (ast.In, ast.NotIn)):
                r = self.contains(right, left, n, fr)
                r = r if isinstance(op, ast.In) else not_val(r)
            elif isinstance(left, (Arr, Small, V.Masked)) or isinstance(right, (Arr, Small, V.Masked)):
                r = self.elementwise2(left, right, lambda x, y, op=op: compare(op, x, y), "bool")
            elif self.abstract and (isinstance(left, Opaque) or isinstance(right, Opaque)) \
                    and not isinstance(op, (ast.Is, ast.IsNot)) and left is not None and right is not None:
                if isinstance(op, (ast.Eq, ast.NotEq)):
                    # == on uninterpreted values: equal exactly when they denote the same value (term equality)
                    from .objmodels import uterm
                    r = uterm(left) == uterm(right)
                    r = r if isinstance(op, ast.Eq) else z3.Not(r)
                else:
                    r = self.abs_apply("cmp:" + type(op).__name__, [left, right])
            else:
                r = compare(op, left, right)
            res.append(r)
            left = right
        if len(res) == 1:
            return res[0]
        if any(isinstance(r, (Arr, Small)) for r in res):
            raise Unsupported("chained comparison on arrays")
        return and_vals(res)

    def contains(self, container, item, node, fr):
        if isinstance(container, str) and isinstance(item, str) and container != "<str>" and item != "<str>":
            return item in container                    # substring test on literal strings
        if isinstance(container, SymDict):
            if not isinstance(item, str):
                raise Unsupported("membership of a non-literal key")
            return container.present(item)
        if isinstance(container, (list, tuple, set)):
            if all(isinstance(x, (str, int)) for x in container) and isinstance(item, (str, int)):
                return item in container
            return or_vals([eq_val(item, x) for x in container])
        if isinstance(container, dict):
            if isinstance(item, (str, int)):
                return item in container
            return or_vals([eq_val(item, x) for x in container])
        if isinstance(container, _ListMapRow):
            # x in <python list with symbolic length>
            lm, kk = container.lm, to_z3(container.key, "int")
            t = z3.Int(fresh_name("t"))
            return z3.Exists([t], z3.And(t >= 0, t < z3.Select(lm.len, kk), z3.Select(lm.elems, kk, t) == to_z3(item, lm.kind)))
        if isinstance(container, Obj) and container.cls == "Dataset":
            if not isinstance(item, str):
                raise Unsupported("membership of a non-literal name in a dataset")
            return container.fields["vars"].present(item)
        if isinstance(container, Obj) and container.cls in ("Grid",):
            raise Unsupported("membership on object")
        raise Unsupported(f"`in` on {type(container).__name__} at {loc_of(fr, node)}")

    def _abstract_comprehension(self, n, env, fr, why):
        """abstract mode: a comprehension over an uninterpreted iterable is a NEW container that is a deterministic function of the
        free variables of the comprehension (its element / filter expressions are pure under A-ABSTRACT)"""
        from .objmodels import abs_value
        targets = {x.id for g in n.generators for x in ast.walk(g.target) if isinstance(x, ast.Name)}
        free = sorted({x.id for x in ast.walk(n) if isinstance(x, ast.Name) and isinstance(x.ctx, ast.Load)} - targets)
        vals = []
        for nm in free:
            try:
                vals.append(self.eval(ast.Name(id=nm, ctx=ast.Load()), env, fr))
            except Unsupported:
                raise why
        r = abs_value(self, "comp:" + ast.unparse(n), vals, {})
        r.ghost["fresh_alloc"] = True
        return r

    def ev_ListComp(self, n, env, fr):
        if self.abstract:
            try:
                return self._ev_ListComp(n, env, fr)
            except Unsupported as e:
                if "iterable" in str(e) or "iteration over" in str(e):
                    return self._abstract_comprehension(n, env, fr, e)
                raise
        return self._ev_ListComp(n, env, fr)

    def ev_DictComp(self, n, env, fr):
        if self.abstract:
            try:
                return self._ev_DictComp(n, env, fr)
            except Unsupported as e:
                if "iterable" in str(e) or "iteration over" in str(e):
                    return self._abstract_comprehension(n, env, fr, e)
                raise
        return self._ev_DictComp(n, env, fr)

    def _ev_ListComp(self, n, env, fr):
        if len(n.generators) != 1:
            raise Unsupported("nested comprehension")
        g = n.generators[0]
        it = self.eval_iter(g.iter, env, fr)
        if it[0] != "concrete":
            # [c for _ in range(n)] with an element that does not depend on the loop variable: n copies of c
            tnames = {x.id for x in ast.walk(g.target) if isinstance(x, ast.Name)}
            if not g.ifs and not (tnames & {x.id for x in ast.walk(n.elt) if isinstance(x, ast.Name)}) and not _has_call(n.elt):
                v = self.eval(n.elt, env, fr)
                if is_scalar(v):
                    return V.ConstList(v, arith("-", it[2], it[1]))
            if not g.ifs and len(it) == 5:
                # [f(row) for row in rows]: evaluated for a generic position k; equal-length 1-D results form a 2-D array
                _, lo, hi, item_fn, _ct = it
                kq = z3.Int(fresh_name("comp_k"))
                self.assume(z3.And(to_z3(lo, "int") <= kq, kq < to_z3(hi, "int")))
                e2 = dict(env)
                self.assign(g.target, item_fn(kq), e2, fr)
                v = self.eval(n.elt, e2, fr)
                if isinstance(v, Arr) and v.rank == 1 and isinstance(lo, int) and lo == 0:
                    width = z3.simplify(to_z3(v.shape[0], "int"))
                    if not _mentions(width, kq):
                        cell = v.sel(z3.Int("__t"))
                        tq = z3.Int("__t")
                        r = Arr.from_lambda([hi, width], v.kind,
                                            lambda f, t, cell=cell: z3.substitute(cell, (kq, to_z3(f, "int")), (tq, to_z3(t, "int"))),
                                            name="rows")
                        r.ghost.update(owner="fresh", corder=True)
                        return r
            raise Unsupported(f"comprehension over a symbolic iterable at {loc_of(fr, n)}")
        out = []
        for item in it[1]:
            e2 = dict(env)
            self.assign(g.target, item, e2, fr)
            ok = True
            for cond in g.ifs:
                c = truth(self.eval(cond, e2, fr))
                if not isinstance(c, bool):
                    raise Unsupported("comprehension filter on a symbolic condition")
                ok = ok and c
            if ok:
                out.append(self.eval(n.elt, e2, fr))
        return out

    ev_GeneratorExp = ev_ListComp

    def _ev_DictComp(self, n, env, fr):
        if len(n.generators) != 1:
            raise Unsupported("nested comprehension")
        g = n.generators[0]
        # {i: [] for i in range(n)} idiom
        if isinstance(n.value, ast.List) and not n.value.elts:
            it = self.eval_iter(g.iter, env, fr)
            if it[0] == "indexed":
                return ListMap(it[2], "int")
            return ListMap(len(it[1]), "int")
        # {k: v for k, v in M.items() if k not in <literal names>} on a symbolic mapping: M without those keys
        if (isinstance(g.iter, ast.Call) and isinstance(g.iter.func, ast.Attribute) and g.iter.func.attr == "items"
                and isinstance(g.target, ast.Tuple) and len(g.target.elts) == 2 and len(g.ifs) == 1
                and isinstance(n.key, ast.Name) and isinstance(n.value, ast.Name)
                and n.key.id == g.target.elts[0].id and n.value.id == g.target.elts[1].id):
            m = self.eval(g.iter.func.value, env, fr)
            cond = g.ifs[0]
            if isinstance(m, SymDict) and isinstance(cond, ast.Compare) and len(cond.ops) == 1 and isinstance(cond.ops[0], ast.NotIn) \
                    and isinstance(cond.left, ast.Name) and cond.left.id == n.key.id:
                drop = self.eval(cond.comparators[0], env, fr)
                if isinstance(drop, (tuple, list, set)) and all(isinstance(x, str) for x in drop):
                    r = V.clone(m, {})
                    r.ghost = {"owner": "fresh"}
                    for k in drop:
                        r.entries[k] = [False, V.UNSET]
                    return r
        it = self.eval_iter(g.iter, env, fr)
        if it[0] != "concrete":
            raise Unsupported("dict comprehension over a symbolic iterable")
        out = {}
        for item in it[1]:
            e2 = dict(env)
            self.assign(g.target, item, e2, fr)
            ok = True
            for cond in g.ifs:
                c = truth(self.eval(cond, e2, fr))
                if not isinstance(c, bool):
                    raise Unsupported("dict comprehension filter on a symbolic condition")
                ok = ok and c
            if ok:
                out[self.eval(n.key, e2, fr)] = self.eval(n.value, e2, fr)
        return out

    def ev_Starred(self, n, env, fr):
        raise Unsupported("starred expression")

    def ev_Slice(self, n, env, fr):
        return _SliceVal(self.eval(n.lower, env, fr) if n.lower else None,
                         self.eval(n.upper, env, fr) if n.upper else None,
                         self.eval(n.step, env, fr) if n.step else None)

    def eval_index(self, sl, env, fr):
        if isinstance(sl, ast.Tuple):
            return tuple(self.eval(e, env, fr) for e in sl.elts)
        return (self.eval(sl, env, fr),)

    def ev_Subscript(self, n, env, fr):
        base = self.eval(n.value, env, fr)
        idx = self.eval_index(n.slice, env, fr)
        return self.load_subscript(base, idx, n, env, fr)

    # ---- loads
    def load_subscript(self, base, idx, n, env, fr):
        if isinstance(base, (list, tuple)):
            (i,) = idx
            if isinstance(i, _SliceVal):
                return base[slice(i.lo, i.hi, i.step)]
            if isinstance(i, int):
                try:
                    return base[i]
                except IndexError:
                    raise PathRaise("IndexError", n)
            if is_z3(i) and all(is_scalar(x) for x in base) and base:
                # symbolic index into a concrete list of scalars
                self.oblige("index", z3.And(i >= 0, i < len(base)), f"0 <= {ast.unparse(n.slice)} < {len(base)}", n)
                r = base[-1]
                for k in range(len(base) - 2, -1, -1):
                    r = ite_val(i == k, base[k], r)
                return r
            raise Unsupported(f"list index of type {type(i).__name__}")
        if isinstance(base, dict):
            (k,) = idx
            if isinstance(k, (str, int)):
                if k in base:
                    return base[k]
                raise PathRaise("KeyError", n)
            raise Unsupported("dict lookup with symbolic key")
        if isinstance(base, Small):
            return self.index_small(base, idx, n)
        if isinstance(base, Arr):
            return self.index_arr(base, idx, n)
        if isinstance(base, V.Masked):
            raise Unsupported("indexing a compressed array")
        if isinstance(base, SymDict):
            (k,) = idx
            if not isinstance(k, str):
                raise Unsupported("mapping lookup with non-literal key")
            p = base.present(k)
            if getattr(self, "_spec_depth", 0) > 0:
                # contract clauses are total: the value under an absent key is an arbitrary object (clauses guard it with has())
                if k not in base.entries:
                    return Opaque(name=f"{base.name}.{k}.absent")
            elif not self.decide(p):
                raise PathRaise("KeyError", n)
            v = base.entries[k][1]
            if v is V.UNSET:
                v = self.fresh_entry(base, k)
                base.materialise(k, v)
            return v
        if isinstance(base, ListMap):
            (k,) = idx
            if getattr(self, "_spec_depth", 0) == 0 and kind_of(k) == "int" and not isinstance(k, int):
                # {i: [] for i in range(n)}[k]: KeyError unless 0 <= k < n
                self.oblige("dict_key", z3.And(to_z3(k, "int") >= 0, to_z3(k, "int") < to_z3(base.n, "int")),
                            f"key {ast.unparse(n)[:50]} is one of the keys 0..n-1 of the mapping", n)
            return _ListMapRow(base, k)
        if isinstance(base, _ListMapRow):
            (k,) = idx
            return z3.Select(base.lm.elems, to_z3(base.key, "int"), to_z3(k, "int"))
        h = self.methods.get((type(base).__name__, "__getitem__"))
        if h is not None:
            return h(self, base, n, env, fr)(idx)
        if isinstance(base, Obj) and base.cls == "Dataset":
            return self.load_subscript(base.fields["vars"], idx, n, env, fr)
        if isinstance(base, Obj):
            cm = self.class_member(base.cls, "__getitem__")
            if cm is not None:
                return self.call_function(cm, [base, idx[0]], {}, n, env, fr)
        if isinstance(base, Opaque) and self.abstract:
            return self.abs_apply("getitem", [base, tuple(idx)])
        raise Unsupported(f"subscript of {type(base).__name__} at {loc_of(fr, n)}")

    def fresh_entry(self, d, key):
        mk = d.ghost.get("entry_factory")
        if mk is not None:
            return mk(self, d, key)
        return Opaque(name=f"{d.name}.{key}")

    def index_small(self, s, idx, n):
        cur = s.data
        out_kind = s.kind
        for pos, i in enumerate(idx):
            if isinstance(i, _SliceVal):
                if i.lo is None and i.hi is None and i.step is None and pos == len(idx) - 1:
                    continue
                if isinstance(cur, list) and all(isinstance(x, (int, type(None))) for x in (i.lo, i.hi, i.step)):
                    rest = idx[pos + 1:]
                    rows = cur[slice(i.lo, i.hi, i.step)]
                    if rest:
                        return Small([self.index_small(Small(r), rest, n) if isinstance(r, list) else r for r in rows]) \
                            if False else Small([_unwrap_small(self.index_small(Small(r), rest, n)) for r in rows])
                    return Small(rows, out_kind)
                raise Unsupported("symbolic slice of a small array")
            if isinstance(i, bool):
                raise Unsupported("bool index")
            if isinstance(i, int):
                try:
                    cur = cur[i]
                except IndexError:
                    raise PathRaise("IndexError", n)
                continue
            if is_z3(i) and isinstance(cur, list):
                # symbolic index into small array: select by ite chain
                m = len(cur)
                self.oblige("index", z3.And(i >= -m, i < m), f"index in range of small array", n)
                rest = idx[pos + 1:]
                items = [(_unwrap_small(self.index_small(Small(c), rest, n)) if (rest and isinstance(c, list)) else c) for c in cur]
                r = items[-1]
                for k in range(m - 2, -1, -1):
                    r = ite_val(z3.Or(i == k, i == k - m), items[k], r)
                if isinstance(r, list):
                    return Small(r)
                return r
            if isinstance(i, Small) and _elem_kind(i) == "bool":
                raise Unsupported("boolean mask on small array")
            raise Unsupported(f"small-array index {type(i).__name__}")
        if isinstance(cur, list):
            return Small(cur, out_kind, s.ghost)  # shares the inner list: a view
        return cur

    def index_arr(self, a, idx, n, check=True):
        """numpy basic + integer-array indexing on symbolic arrays"""
        idx = list(idx)
        if any(i is Ellipsis for i in idx):
            p = idx.index(Ellipsis)
            fill = a.rank - (len(idx) - 1)
            idx = idx[:p] + [_SliceVal(None, None, None)] * fill + idx[p + 1:]
        if len(idx) == 1 and isinstance(idx[0], Arr) and idx[0].kind == "bool" and idx[0].rank == a.rank and a.rank > 1:
            return self.models["__mask_select__"](self, [a, idx[0]], {}, n)
        n_new = sum(1 for i in idx if i is None)
        while len(idx) - n_new < a.rank:
            idx.append(_SliceVal(None, None, None))
        if len(idx) - n_new > a.rank:
            raise PathRaise("IndexError", n)
        if n_new:
            # a[..., None]: new axes of length 1 (a view); index the rest first, then re-wrap
            rest = [i for i in idx if i is not None]
            if any(not isinstance(i, _SliceVal) for i in rest):
                raise Unsupported("newaxis combined with integer / array indices")
            base = self.index_arr(a, rest, n, check) if any((i.lo, i.hi) != (None, None) for i in rest) else a
            pos = []
            k = 0
            shape = []
            for i in idx:
                if i is None:
                    shape.append(1)
                    pos.append(None)
                else:
                    shape.append(base.shape[k])
                    pos.append(k)
                    k += 1
            keep = [q for q, p_ in enumerate(pos) if p_ is not None]
            r = Arr.from_lambda(shape, base.kind, lambda *o: base.sel(*[o[q] for q in keep]))
            r.ghost = dict(base.ghost)
            return r
        # boolean mask a[mask] / a[mask, 0] / a[..., mask]
        if any(isinstance(i, Arr) and i.kind == "bool" for i in idx):
            h = self.models.get("__mask_select__")
            return h(self, [a] + idx, {}, n)
        if any(isinstance(i, V.Masked) for i in idx):
            return self._arrm.gather_masked(self, a, idx, n)
        if isinstance(a, V.Masked):
            raise Unsupported("indexing a compressed array")
        out_shape = []
        sel = []  # per base dim: ('fix', term) | ('map', fn(outidx)->term, out_dim_pos)
        gather = [i for i in idx if isinstance(i, Arr)]
        if len(gather) > 1:
            raise Unsupported("multiple index arrays")
        pos_out = 0
        plan = []
        for d, i in enumerate(idx):
            dim = a.shape[d]
            if isinstance(i, _SliceVal):
                lo, hi = self.norm_slice(i, dim, n)
                out_shape.append(_len_sub(hi, lo))
                plan.append(("slice", lo, pos_out, 1))
                pos_out += 1
            elif isinstance(i, Arr):
                if i.kind != "int":
                    raise Unsupported("non-integer index array")
                if check:
                    self.check_gather(a, d, i, n)
                for sdim in i.shape:
                    out_shape.append(sdim)
                plan.append(("gather", i, pos_out, i.rank))
                pos_out += i.rank
                if a.ghost.get("space") and i.ghost.get("vspace") and self.emitting:
                    ok = a.ghost["space"] == i.ghost["vspace"]
                    self.oblige("ghost_space", ok, f"index array holds {i.ghost['vspace']} indices, indexed array is "
                                f"laid out over {a.ghost['space']}", n, static=ok, backend="ghost-static")
            elif isinstance(i, (list, Small)):
                raise Unsupported("list index into symbolic array")
            else:
                ii = self.norm_index(i, dim, n, check)
                plan.append(("fix", ii, None, 0))
        nout = pos_out

        def mp(oidx):
            res = []
            for kind, x, p, w in plan:
                if kind == "fix":
                    res.append(x)
                elif kind == "slice":
                    res.append(oidx[p] + to_z3(x, "int") if not (isinstance(x, int) and x == 0) else oidx[p])
                else:
                    g = x.sel(*oidx[p:p + w])
                    res.append(g)   # index arrays are required to hold indices in [0, size): see check_gather
            return tuple(res)
        if nout == 0:
            return a.sel(*mp(()))
        # basic slicing only -> view; gather -> copy
        if gather:
            r = Arr.from_lambda(out_shape, a.kind, lambda *o: a.sel(*mp(tuple(o))))
            r.ghost = dict(a.ghost)
            r.ghost["owner"] = "fresh"
            if gather[0].ghost.get("space_of_rows"):
                r.ghost["space"] = gather[0].ghost["space_of_rows"]
            return r
        root, rootmap = a, mp
        if a.base is not None:
            b, bmp = a.base
            root, rootmap = b, (lambda o: bmp(mp(o)))
        r = Arr(None, out_shape, a.kind, name=a.name + "[v]", base=(root, rootmap), ghost=a.ghost)
        return r

    def norm_index(self, i, dim, n, check=True):
        if isinstance(i, bool):
            raise Unsupported("bool as index")
        if isinstance(i, int):
            c = E._conc(dim)
            if i < 0:
                if c is not None:
                    if i + c < 0:
                        raise PathRaise("IndexError", n)
                    return i + c
                return to_z3(dim, "int") + i
            if c is not None and i >= c:
                raise PathRaise("IndexError", n)
            if c is None and check and self.ctx.options.get("index_checks", True):
                self.oblige("index", to_z3(dim, "int") > i, f"{i} < size", n)
            return i
        if kind_of(i) == "int":
            dz = to_z3(dim, "int")
            if getattr(self, "_spec_depth", 0) > 0:
                return i  # spec-level arrays are total functions of their (non-negative) index
            if check and self.ctx.options.get("index_checks", True):
                self.oblige("index", z3.And(i >= -dz, i < dz), f"index {ast.unparse(n)[:50]} within [-size, size)", n)
            if not self.feasible(i < 0):
                return i  # provably non-negative on this path: no wrap-around term
            return z3.If(i < 0, i + dz, i)
        raise Unsupported(f"array index of type {type(i).__name__}")

    def check_gather(self, a, d, i, n):
        if not self.ctx.options.get("index_checks", True):
            return
        dz = to_z3(a.shape[d], "int")
        # stricter than numpy on purpose: a negative entry of an index ARRAY would silently wrap around; for connectivity
        # tables that is always a defect (e.g. a -1 / fill value used as an index), so it is an obligation
        g = forall_ranges([(0, s) for s in i.shape], lambda *o: z3.And(i.sel(*o) >= 0, i.sel(*o) < dz),
                          patterns_fn=lambda *o: [i.sel(*o)])
        self.oblige("index_gather", g, f"every entry of the index array is within [0, size) ({ast.unparse(n)[:50]})", n)

    def norm_slice(self, sl, dim, n):
        if sl.step is not None and sl.step != 1:
            raise Unsupported("slice step")
        lo = 0 if sl.lo is None else sl.lo
        hi = dim if sl.hi is None else sl.hi
        if isinstance(lo, int) and lo < 0:
            lo = arith("+", dim, lo)
        if isinstance(hi, int) and hi < 0:
            hi = arith("+", dim, hi)
        if is_z3(hi) and not (sl.hi is None) and not isinstance(sl.hi, int):
            # symbolic upper bound: numpy clamps; we require it in range (obligation) to keep the model simple
            dz = to_z3(dim, "int")
            self.oblige("slice_bound", z3.And(hi >= 0, hi <= dz), f"slice bound {ast.unparse(n)[:50]} within [0, size]", n)
        if is_z3(lo) and not isinstance(sl.lo, (int, type(None))):
            dz = to_z3(dim, "int")
            self.oblige("slice_bound", z3.And(lo >= 0, lo <= dz), f"slice lower bound within [0, size]", n)
        return lo, hi

    # ---- stores
    def store_subscript(self, base, idx, v, node, env, fr):
        self.frame_store(base, node, env, fr)
        if isinstance(base, list):
            (i,) = idx
            if isinstance(i, int):
                base[i] = v
                return
            raise Unsupported("list store with symbolic index")
        if isinstance(base, dict):
            (k,) = idx
            if isinstance(k, (str, int)):
                base[k] = v
                return
            raise Unsupported("dict store with symbolic key")
        if isinstance(base, SymDict):
            (k,) = idx
            if not isinstance(k, str):
                raise Unsupported("mapping store with non-literal key")
            base.entries[k] = [True, v]
            return
        if isinstance(base, Small):
            return self.store_small(base, idx, v, node)
        if isinstance(base, Arr):
            return self.store_arr(base, idx, v, node)
        if isinstance(base, Obj) and base.cls == "Dataset":
            return self.store_subscript(base.fields["vars"], idx, v, node, env, fr)
        if isinstance(base, _ListMapRow):
            raise Unsupported("store into list row")
        h = self.methods.get((type(base).__name__, "__setitem__"))
        if h is not None:
            return h(self, base, node, env, fr)(idx, v)
        if isinstance(base, Opaque) and self.abstract and base.ghost.get("fresh_alloc"):
            # an array allocated by this function (np.zeros / empty / full / copy ...): the store is a functional update of its
            # uninterpreted value; no one else can hold a reference to it
            from .objmodels import uterm, _uf, F_TRUTH
            base.term = _uf("setitem", 3)(base.term, uterm(tuple(idx)), uterm(v))
            base.ghost["truth"] = F_TRUTH(base.term)
            return
        raise Unsupported(f"store into {type(base).__name__} at {loc_of(fr, node)}")

    def frame_store(self, target, node, env, fr):
        """ownership frame: a store into an object owned by the caller / a module is an obligation"""
        if not self.ctx.options.get("frames"):
            return
        owner = getattr(target, "ghost", {}).get("owner") if not isinstance(target, (list, dict)) else None
        if isinstance(target, Arr) and target.base is not None:
            owner = target.base[0].ghost.get("owner")
        if owner is None or owner == "fresh" or owner == "self":
            return
        allowed = self.frames[0].contract.modifies if self.frames and self.frames[0].contract else []
        ok = owner in allowed
        self.oblige("frame", ok, f"store into storage owned by `{owner}` (not in modifies {allowed}): "
                    f"{ast.unparse(node)[:70]}", node, static=ok, backend="ghost-static", tag=str(owner))

    def store_small(self, s, idx, v, node):
        cur = s.data
        for pos, i in enumerate(idx[:-1]):
            if not isinstance(i, int):
                raise Unsupported("symbolic index in small-array store")
            cur = cur[i]
        i = idx[-1]
        if isinstance(i, _SliceVal):
            if i.lo is None and i.hi is None:
                vv = v.data if isinstance(v, Small) else v
                if isinstance(vv, list):
                    if len(vv) != len(cur):
                        raise PathRaise("ValueError", node)
                    cur[:] = _deep_list(vv)
                else:
                    _fill_list(cur, vv)
                return
            raise Unsupported("slice store in small array")
        if not isinstance(i, int):
            if is_z3(i) and isinstance(cur, list) and not isinstance(v, (Small, list)):
                m = len(cur)
                self.oblige("index", z3.And(i >= -m, i < m), "index in range of small array", node)
                for k in range(m):
                    if isinstance(cur[k], list):
                        raise Unsupported("symbolic row store in small array")
                    cur[k] = ite_val(z3.Or(i == k, i == k - m), v, cur[k])
                return
            raise Unsupported("symbolic index in small-array store")
        try:
            old = cur[i]
        except IndexError:
            raise PathRaise("IndexError", node)
        if isinstance(old, list):
            vv = v.data if isinstance(v, Small) else v
            if isinstance(vv, (list, tuple)):
                vv = _deep_list(list(vv))
                if len(vv) != len(old):
                    raise PathRaise("ValueError", node)
                old[:] = vv  # keep aliasing with views of this row
            else:
                _fill_list(old, vv)
        else:
            if isinstance(v, (Small, list)):
                raise PathRaise("ValueError", node)
            cur[i] = v

    def store_arr(self, a, idx, v, node):
        idx = list(idx)
        while len(idx) < a.rank:
            idx.append(_SliceVal(None, None, None))
        if all(not isinstance(i, (_SliceVal, Arr, list, Small)) for i in idx):
            ii = [self.norm_index(i, a.shape[d], node) for d, i in enumerate(idx)]
            if isinstance(v, (Arr, Small)):
                raise PathRaise("ValueError", node)
            a.store(ii, self.coerce_elem(a, v, node))
            return
        # bulk store: slices / masks / index arrays
        h = self.models["__bulk_store__"]
        h(self, a, idx, v, node)

    def coerce_elem(self, a, v, node):
        k = kind_of(v)
        if k is None:
            raise Unsupported(f"store of {type(v).__name__} into array")
        if a.kind == "int" and k == "real":
            # numpy silently truncates a float stored into an integer array: always an obligation (named, decided statically)
            self.oblige("dtype_truncation", False, "a real (float) value is stored into an integer array: numpy truncates it silently "
                        f"({ast.unparse(node)[:70]})", node, static=False, backend="ghost-static")
            return z3.ToInt(to_z3(v, "real"))
        return to_z3(v, a.kind)

    def store_attr(self, base, attr, v, node, env, fr):
        if isinstance(base, Obj):
            h = self.methods.get((base.cls, "__setattr__:" + attr))
            if h is not None:
                return h(self, base, node, env, fr)(v)
            cm = self.class_member(base.cls, attr + ".setter")
            if cm is not None:
                # property setter of a repository class: executed in place (they are one-line stores)
                (pn, _), (vn, _) = cm.params()[0][:2]
                self.inline_call(cm, None, {pn: base, vn: v}, node)
                return
            self.frame_store(base, node, env, fr)
            base.fields[attr] = v
            return
        h = self.methods.get((type(base).__name__, "__setattr__:" + attr))
        if h is not None:
            return h(self, base, node, env, fr)(v)
        raise Unsupported(f"attribute store .{attr} on {type(base).__name__} at {loc_of(fr, node)}")

    # ------------------------------------------------------------------ calls
    def ev_Call(self, n, env, fr):
        if isinstance(fr, _SpecFrame) and isinstance(n.func, ast.Name) and n.func.id == "old":
            e2 = dict(env)
            e2.update(self.st.old)
            return self.eval(n.args[0], e2, fr)
        if isinstance(n.func, ast.Name) and n.func.id == "super" and not n.args and "self" in env:
            return V.SuperProxy(env["self"])
        fn = self.eval(n.func, env, fr)
        args = []
        for a in n.args:
            if isinstance(a, ast.Starred):
                v = self.eval(a.value, env, fr)
                if not isinstance(v, (list, tuple)):
                    raise Unsupported("*args of non-tuple")
                args.extend(v)
            else:
                args.append(self.eval(a, env, fr))
        kwargs = {}
        for k in n.keywords:
            if k.arg is None:
                d = self.eval(k.value, env, fr)
                if not isinstance(d, dict):
                    raise Unsupported("**kwargs of non-dict")
                kwargs.update(d)
            else:
                kwargs[k.arg] = self.eval(k.value, env, fr)
        return self.call(fn, args, kwargs, n, env, fr)

    def call(self, fn, args, kwargs, n, env, fr):
        _keep = ("DataArray", "xarray.DataArray", "xr.DataArray", "dict", "isinstance", "len", "copy.deepcopy")
        if isinstance(fn, Builtin) and fn.name == "len" and self.abstract and len(args) == 1 and isinstance(args[0], Opaque):
            return self.abs_apply("lib:len", args)
        if isinstance(fn, Builtin) and not (self.abstract and fn.name not in _keep
                                            and (any(isinstance(a, Opaque) for a in list(args) + list(kwargs.values()))
                                                 or _canon_mod(fn.name).startswith("numpy."))):
            if fn.fn is not None:
                return fn.fn(self, args, kwargs, n)
            h = self.models.get("builtins." + fn.name)
            if h is None:
                raise Unsupported(f"builtin {fn.name}")
            return h(self, args, kwargs, n)
        if isinstance(fn, FuncRef):
            return self.call_function(fn.info, args, kwargs, n, env, fr)
        if isinstance(fn, BoundMethod):
            return self.call_method(fn.obj, fn.name, args, kwargs, n, env, fr)
        if isinstance(fn, (Builtin, ModRef)) and self.abstract and fn.name not in _keep \
                and (any(isinstance(a, Opaque) for a in list(args) + list(kwargs.values()))
                     or _canon_mod(fn.name).startswith("numpy.")):
            cname = _canon_mod(fn.name)
            if cname in self._MUTATING_LIB:
                raise Unsupported(f"library function {cname} mutates its argument (no abstraction)")
            h = (fn.fn if isinstance(fn, Builtin) else None) or self.models.get(cname) or self.models.get("builtins." + cname)
            if h is not None:
                try:
                    return h(self, args, kwargs, n)
                except (Unsupported, TypeError, AttributeError):
                    pass              # the model handles symbolic arrays / scalars only: fall back to the abstraction
            return self.abs_apply("lib:" + cname, args, kwargs)
        if isinstance(fn, ModRef):
            h = self.models.get(_canon_mod(fn.name))
            if h is not None:
                return h(self, args, kwargs, n)
            if self.abstract and _canon_mod(fn.name) not in self._MUTATING_LIB:
                return self.abs_apply("lib:" + _canon_mod(fn.name), args, kwargs)
            raise Unsupported(f"call of unmodelled library function {fn.name} at {loc_of(fr, n)}")
        if isinstance(fn, ClassRef):
            h = self.models.get(f"class:{fn.name}")
            if h is not None:
                return h(self, args, kwargs, n)
            if self.abstract:
                from .objmodels import construct_abstract
                return construct_abstract(self, fn.name, args, kwargs)
            raise Unsupported(f"construction of {fn.name}")
        if isinstance(fn, LambdaVal):
            e2 = dict(fn.env)
            for a, v in zip(fn.node.args.args, args):
                e2[a.arg] = v
            return self.eval(fn.node.body, e2, fr)
        if isinstance(fn, DType):
            (v,) = args
            return v
        if type(fn).__name__ == "AggFn":
            from .objmodels import call_aggfn
            return call_aggfn(self, fn, args, kwargs, n)
        if isinstance(fn, Opaque) and fn.ghost.get("bound"):
            b, name = fn.ghost["bound"]
            return self.call_method(b, name, args, kwargs, n, env, fr)
        if isinstance(fn, Opaque) and self.abstract:
            # an uninterpreted callable (e.g. np.vectorize(f)): its result is a deterministic function of the callable and its arguments
            from .objmodels import abs_value
            return abs_value(self, "lib:call", [fn] + list(args), kwargs)
        raise Unsupported(f"call of {type(fn).__name__} at {loc_of(fr, n)}")

    def call_method(self, obj, name, args, kwargs, n, env, fr):
        h = self.methods.get((type(obj).__name__, "call:" + name))
        if h is None and is_scalar(obj):
            h = self.methods.get(("scalar", "call:" + name))
        if h is not None:
            if self.abstract and isinstance(obj, (Arr, Small)) and name not in self._MUTATING and not name.startswith("set"):
                try:
                    return h(self, obj, args, kwargs, n, env, fr)
                except (Unsupported, TypeError):
                    # the model does not cover these arguments: the (non-mutating) method is an uninterpreted function
                    return self.abs_apply("meth:" + name, [obj] + list(args), kwargs)
            return h(self, obj, args, kwargs, n, env, fr)
        if isinstance(obj, Obj):
            cm = self.class_member(obj.cls, name)
            if cm is not None:
                return self.call_function(cm, [obj] + list(args), kwargs, n, env, fr)
            h = self.methods.get((obj.cls, "call:" + name))
            if h is not None:
                return h(self, obj, args, kwargs, n, env, fr)
        if isinstance(obj, Obj) and obj.cls in ("DataArray", "Dataset") and self.abstract and self.class_member(obj.cls, name) is None:
            if name in self._MUTATING or name.startswith("set"):
                raise Unsupported(f"method .{name}() may mutate a record object at {loc_of(fr, n)}")
            from .objmodels import as_opt
            return self.abs_apply("meth:" + name, [as_opt(obj.ident, obj.cls)] + list(args), kwargs)
        if type(obj).__name__ == "SuperProxy" and self.abstract and name not in self._MUTATING and not name.startswith("set"):
            # a base-class (xarray) method this engine has no model for: an uninterpreted function of the object and the arguments
            return self.abs_apply("meth:super." + name, [obj.obj] + list(args), kwargs)
        if isinstance(obj, Opaque) and self.abstract:
            if name in self._MUTATING or name.startswith("set"):
                if self.ctx.options.get("frames") and name in ("sort", "fill", "put", "itemset", "partition", "resize", "byteswap") \
                        and any(obj is v for v in getattr(self.st, "param_objs", {}).values()):
                    # an in-place ndarray method on an argument: the caller's array is written (ownership frame)
                    self.oblige("frame", False, f"in-place method .{name}() on an argument owned by the caller: {ast.unparse(n)[:70]}", n,
                                static=False, backend="ghost-static", tag="caller")
                raise Unsupported(f"method .{name}() may mutate an abstract object at {loc_of(fr, n)}")
            return self.abs_apply("meth:" + name, [obj] + list(args), kwargs)
        raise Unsupported(f"method .{name}() on {type(obj).__name__}" + (f"<{obj.cls}>" if isinstance(obj, Obj) else "")
                          + f" at {loc_of(fr, n)}")

    def bind_args(self, info, args, kwargs, env, fr):
        params, vararg, kwarg = info.params()
        bound = {}
        names = [p for p, _ in params]
        if len(args) > len(names) and not vararg:
            raise PathRaise("TypeError")
        for name, v in zip(names, args):
            bound[name] = v
        if vararg:
            bound[vararg] = tuple(args[len(names):])
        extra = {}
        for k, v in kwargs.items():
            if k in names:
                if k in bound:
                    raise PathRaise("TypeError")
                bound[k] = v
            elif kwarg:
                extra[k] = v
            else:
                raise PathRaise("TypeError")
        if kwarg:
            bound[kwarg] = extra
        minfo = _ModuleFrameInfo(info.modname, info.file)
        for name, d in params:
            if name not in bound:
                if d is None:
                    raise PathRaise("TypeError")
                bound[name] = self.eval(d, {}, Frame(minfo, None))
        return bound

    def call_function(self, info, args, kwargs, n, env, fr):
        q = info.qualname
        c = self.ctx.registry.get(q)
        cv = (self.ctx.options.get("callee_variants") or {}).get(q)
        if cv is not None:
            c = self.ctx.registry.get(f"{q}@{cv}")
            if c is None:
                raise Unsupported(f"no contract variant {q}@{cv}")
        if q in (self.ctx.options.get("summaries") or ()):
            bound = self.bind_args(info, args, kwargs, env, fr)
            from .objmodels import trusted as _trusted
            _trusted(self, f"summary: {q} is a deterministic, side-effect-free function of its arguments")
            ps_, va_, kw_ = info.params()
            return self.abs_apply("fn:" + q, [bound[a] for a, _ in ps_ if a in bound]
                                  + ([bound[va_]] if va_ else []) + ([bound[kw_]] if kw_ else []))
        bound = self.bind_args(info, args, kwargs, env, fr)
        if c is not None and not c.inline and not (self.frames and self.frames[0].info is info and len(self.frames) == 0):
            return self.call_contract(info, c, bound, n, fr)
        if q in self.ctx.registry.inline or (c is not None and c.inline) or self.ctx.options.get("inline_all"):
            return self.inline_call(info, c, bound, n)
        raise Unsupported(f"call of {q} which has neither a contract nor an inline declaration at {loc_of(fr, n)}")

    def inline_call(self, info, c, bound, n):
        if len(self.frames) > 8:
            raise Unsupported("inline depth")
        f2 = Frame(info, c)
        self.frames.append(f2)
        try:
            try:
                self.exec_block(info.body, bound, f2)
                return None
            except _Return as r:
                return r.value
        finally:
            self.frames.pop()

    def call_contract(self, info, c, bound, n, fr):
        """modular call: check requires, havoc result and modifies, assume ensures"""
        name = short_name(info.qualname)
        self.ctx.trust_callee = getattr(self.ctx, "trust_callee", set())
        self.ctx.trust_callee.add(info.qualname)
        cenv = dict(bound)
        old = V.clone(bound, {})
        # size symbols of the callee's contract: bound to the shapes of the actual array arguments, otherwise fresh
        csizes = {}
        for pname, spec in c.params.items():
            if not isinstance(spec, str) or pname not in bound or not isinstance(bound[pname], Arr):
                continue
            try:
                node = ast.parse(spec.strip(), mode="eval").body
            except SyntaxError:
                continue
            if isinstance(node, ast.Call) and getattr(node.func, "id", None) == "arr":
                for d, dn in enumerate(node.args[1:]):
                    if isinstance(dn, ast.Name) and dn.id in c.sizes and dn.id not in csizes and d < bound[pname].rank:
                        csizes[dn.id] = bound[pname].shape[d]
        for sname in c.sizes:
            if sname not in csizes:
                csizes[sname] = z3.Int(fresh_name(sname))
                self.assume(csizes[sname] >= 0)
        for k_, v_ in csizes.items():
            cenv.setdefault(k_, v_)
        # ghost parameters of the callee are existentially supplied by the caller's ghost state: not supported -> treat as
        # universally fresh is unsound; so callee contracts with ghost params may only be *assumed* when caller passes them.
        for i, cl in enumerate(c.requires):
            g = self.eval_clause(cl, cenv, None)
            self.oblige(f"call:{name}/pre", g, cl, n, tag=str(i))
            self.assume(g)
        # exceptional outcomes
        for (ename, cond, mode) in c.raises:
            if mode == "iff":
                cv = self.eval_clause(cond, cenv, None)
                if self.decide(cv):
                    raise PathRaise(ename, n)
        for m in c.modifies:
            if m in bound:
                bound[m] = self.havoc_value(bound[m], m, True)
            elif "[" in m:
                # "param.attr['key']": one entry of a symbolic mapping (e.g. a variable of the grid's dataset) is replaced
                mnode = ast.parse(m, mode="eval").body
                field = None
                if isinstance(mnode, ast.Attribute) and isinstance(mnode.value, ast.Subscript):
                    field, mnode = mnode.attr, mnode.value          # "param['key'].data": one field of the stored object is replaced
                if not (isinstance(mnode, ast.Subscript) and isinstance(mnode.slice, ast.Constant) and isinstance(mnode.slice.value, str)):
                    raise Unsupported(f"modifies clause {m}")
                self._spec_depth = getattr(self, "_spec_depth", 0) + 1
                try:
                    d = self.eval(mnode.value, dict(cenv), _SpecFrame(self))
                finally:
                    self._spec_depth -= 1
                if isinstance(d, Obj) and d.cls == "Dataset":
                    d = d.fields["vars"]
                if not isinstance(d, SymDict):
                    raise Unsupported(f"modifies clause {m}: not a symbolic mapping")
                key_ = mnode.slice.value
                if field is None:
                    d.entries[key_] = [z3.Bool(fresh_name(f"{d.name}.has.{key_}")), V.UNSET]
                else:
                    d.present(key_)
                    e_ = d.entries.get(key_)
                    if e_ is not None and e_[0] is not False:
                        if e_[1] is V.UNSET:
                            d.materialise(key_, self.fresh_entry(d, key_))
                        tgt = d.entries[key_][1]
                        if not (isinstance(tgt, Obj) and field in tgt.fields):
                            raise Unsupported(f"modifies clause {m}: no such field")
                        tgt.fields[field] = Opaque(name=f"{d.name}.{key_}.{field}")
        was_feasible = self.feasible() if self.emitting else True
        result = self.make_result(c, cenv, info)
        cenv2 = dict(bound)
        for k_, v_ in csizes.items():
            cenv2.setdefault(k_, v_)
        if c.ghost_returns:
            from .typespec import make_value
            for gname, gspec in c.ghost_returns.items():
                self.st.ghostvars[gname] = make_value(self, gspec, gname, {**self.ctx.sizes, **cenv})
            for k_, v_ in csizes.items():
                self.st.ghostvars.setdefault(k_, v_)   # the callee's size witnesses (e.g. number of partitions) stay nameable
            cenv2.update(self.st.ghostvars)
        # ghost names the callee's own proof introduces with `let` are existential witnesses for the caller: fresh unknown values
        for gls in (c.asserts or {}).values():
            for g_ in gls:
                if g_.startswith("let "):
                    gname = g_[4:].partition("=")[0].strip()
                    if gname not in cenv2:
                        from .objmodels import opt_opaque
                        cenv2[gname] = opt_opaque("witness_" + gname)
        # ghost names of the callee's own proof that have no meaning for the caller (ghost arrays of its loops, spec functions it
        # defines): the clauses of its postcondition that mention them are not assumed (assuming less is sound)
        callee_ghost = set()
        for gls in list((c.asserts or {}).values()) + [getattr(lp, "ghost_init", None) or [] for lp in (c.loops or {}).values()]:
            for g_ in gls:
                for kw in ("let ", "defun ", "defrec ", "define "):
                    if g_.startswith(kw):
                        callee_ghost.add(_re_mod.split(r"[\s=(:]", g_[len(kw):].strip(), 1)[0])
        callee_ghost -= set(cenv2)
        saved_old = self.st.old
        self.st.old = old
        # ghost-static facts the callee proves about its result (ownership, dtype) become the ghost state of the value handed back
        import re as _re
        for cl in c.ensures:
            m_ = _re.fullmatch(r"\s*(owner_is|dtype_is)\(\s*(result(?:\[\d+\])?)\s*,\s*'([^']+)'\s*\)\s*", cl)
            if m_:
                tgt = result
                if m_.group(2) != "result":
                    tgt = result[int(m_.group(2)[7:-1])] if isinstance(result, tuple) else None
                if isinstance(tgt, (Arr, Small)):
                    tgt.ghost["owner" if m_.group(1) == "owner_is" else "dtype"] = m_.group(3)
        site = self.ctx.__dict__.setdefault("call_survival", {}).setdefault((name, loc_of(fr, n)), [0, 0]) \
            if (was_feasible and self.emitting) else None
        try:
            for cl in c.ensures:
                if callee_ghost and any(isinstance(x, ast.Name) and x.id in callee_ghost for x in ast.walk(ast.parse(cl, mode="eval"))):
                    continue
                try:
                    self.assume(self.eval_clause(cl, cenv2, result))
                except PathEnd:
                    # the clause is statically false in the caller's state: same vacuity as an infeasible path below
                    if site is not None:
                        site[0] += 1
                        self.ctx.__dict__.setdefault("call_dead_clause", {})[(name, loc_of(fr, n))] = cl
                    raise
        finally:
            self.st.old = saved_old
        if was_feasible and self.emitting:
            # vacuity guard: a call site through which NO path survives the callee's assumed postcondition means the postcondition
            # contradicts what the caller knows (typically a missing modifies clause); decided when all paths have been explored
            site = self.ctx.__dict__.setdefault("call_survival", {}).setdefault((name, loc_of(fr, n)), [0, 0])
            site[0] += 1
            if self.feasible():
                site[1] += 1
            else:
                raise PathEnd()
        return result

    def make_result(self, c, cenv, info):
        from .typespec import make_value
        if c.returns is None:
            return None
        return make_value(self, c.returns, "ret_" + info.name, cenv, ghost=c.result_ghost)

    # spec-level helpers used by npmodels / typespec
    def fresh_scalar(self, kind, name):
        return z3.Const(fresh_name(name), V.sort_of(kind))


class _HypView:
    def __init__(self, hyps):
        self._h = hyps

    def hyps(self):
        return self._h


class _SpecFrame:
    """frame marker for evaluating contract clauses"""

    def __init__(self, ex):
        self.info = ex.frames[-1].info if ex.frames else _ModuleFrameInfo("uxarray.constants", "/repo/uxarray/constants.py")
        self.contract = None
        self.loop_ordinal = itertools.count()


class _ModuleFrameInfo:
    def __init__(self, modname, file):
        self.modname = modname
        self.file = file
        self.qualname = modname


class _SliceVal:
    def __init__(self, lo, hi, step):
        self.lo, self.hi, self.step = lo, hi, step


class _RangeVal:
    def __init__(self, lo, hi):
        self.lo, self.hi = lo, hi


class _ListMapValues:
    def __init__(self, lm):
        self.lm = lm


class _ListMapRow:
    def __init__(self, lm, key):
        self.lm = lm
        self.key = key


_MISSING = object()

_PY_BUILTINS = {"len", "range", "min", "max", "abs", "int", "float", "bool", "str", "enumerate", "zip", "isinstance",
                "list", "tuple", "set", "dict", "sum", "any", "all", "sorted", "getattr", "hasattr", "type", "print",
                "ValueError", "Exception", "RuntimeError", "TypeError", "round", "id", "callable", "reversed", "map",
                "KeyError", "IndexError", "AttributeError", "NotImplementedError", "prange", "divmod", "slice"}

_MODULE_CONSTS = {
    "numpy.pi": PI, "math.pi": PI,
    "numpy.nan": NAN, "numpy.NaN": NAN, "math.nan": NAN,
    "numpy.intp": DType("intp"), "numpy.int64": DType("int64"), "numpy.int32": DType("int32"),
    "numpy.float64": DType("float64"), "numpy.float32": DType("float32"), "numpy.bool_": DType("bool"),
    "numpy.integer": DType("integer"), "numpy.floating": DType("floating"), "numpy.uint32": DType("uint32"),
    "numpy.int16": DType("int16"), "numpy.int8": DType("int8"),
    "numpy.newaxis": None,
}

_CLASS_HOMES = {
    "Grid": [("uxarray.grid.grid", "Grid")],
    "DataArray": [],
    "UxDataArray": [("uxarray.core.dataarray", "UxDataArray")],
    "UxDataset": [("uxarray.core.dataset", "UxDataset")],
    "BallTree": [("uxarray.grid.neighbors", "BallTree")],
    "KDTree": [("uxarray.grid.neighbors", "KDTree")],
}


def _canon_mod(name):
    parts = name.split(".")
    if parts[0] == "np":
        parts[0] = "numpy"
    if parts[0] == "xr":
        parts[0] = "xarray"
    return ".".join(parts)


def short_name(q):
    return q.replace("uxarray.", "", 1)


def _as_load(t):
    t2 = ast.parse(ast.unparse(t), mode="eval").body
    return t2


def _has_call(n):
    return any(isinstance(x, ast.Call) for x in ast.walk(n))


_POLY_OPS = {z3.Z3_OP_ADD, z3.Z3_OP_SUB, z3.Z3_OP_MUL, z3.Z3_OP_UMINUS, z3.Z3_OP_LE, z3.Z3_OP_LT, z3.Z3_OP_GE, z3.Z3_OP_GT, z3.Z3_OP_EQ,
             z3.Z3_OP_DISTINCT, z3.Z3_OP_AND, z3.Z3_OP_OR, z3.Z3_OP_NOT, z3.Z3_OP_IMPLIES, z3.Z3_OP_TRUE, z3.Z3_OP_FALSE, z3.Z3_OP_ANUM,
             z3.Z3_OP_TO_REAL}


def _poly_abstract(t, memo):
    """replace every maximal non-polynomial subterm of real / int sort by a fresh constant (same subterm -> same constant)"""
    k = t.get_id()
    if k in memo:
        return memo[k]
    if z3.is_app(t):
        kind = t.decl().kind()
        if t.num_args() == 0:
            r = t
        elif kind in _POLY_OPS:
            r = t.decl()(*[_poly_abstract(c, memo) for c in t.children()])
        elif z3.is_bool(t):
            r = z3.Const(fresh_name("absb"), z3.BoolSort())
        else:
            r = z3.Const(fresh_name("abs"), t.sort())
    else:
        r = z3.Const(fresh_name("abs"), t.sort()) if not z3.is_bool(t) else z3.Const(fresh_name("absb"), z3.BoolSort())
    memo[k] = r
    return r


_NL_MEMO = {}


def _is_nonlinear(t):
    """does the formula contain a product of two non-numeral terms, a division / modulo by a non-numeral, or a power?"""
    key = t.get_id()
    if key in _NL_MEMO and _NL_MEMO[key][0] is t:
        return _NL_MEMO[key][1]
    seen, stack, res = set(), [t], False
    while stack and not res:
        x = stack.pop()
        if x.get_id() in seen:
            continue
        seen.add(x.get_id())
        if z3.is_quantifier(x):
            stack.append(x.body())
            continue
        if z3.is_app(x):
            k = x.decl().kind()
            ch = x.children()
            if k == z3.Z3_OP_MUL and sum(1 for c in ch if not (z3.is_rational_value(c) or z3.is_int_value(c) or z3.is_algebraic_value(c))) >= 2:
                res = True
            elif k in (z3.Z3_OP_DIV, z3.Z3_OP_IDIV, z3.Z3_OP_MOD, z3.Z3_OP_REM) and len(ch) == 2 \
                    and not (z3.is_rational_value(ch[1]) or z3.is_int_value(ch[1])):
                res = True
            elif k == z3.Z3_OP_POWER:
                res = True
            stack.extend(ch)
    _NL_MEMO[key] = (t, res)
    return res


def _has_quant(t):
    seen, stack = set(), [t]
    while stack:
        x = stack.pop()
        if x.get_id() in seen:
            continue
        seen.add(x.get_id())
        if z3.is_quantifier(x):
            return True
        stack.extend(x.children())
    return False


def _mentions(term, const):
    seen, stack = set(), [term]
    while stack:
        x = stack.pop()
        if x.get_id() in seen:
            continue
        seen.add(x.get_id())
        if x.eq(const):
            return True
        if z3.is_quantifier(x):
            stack.append(x.body())
        else:
            stack.extend(x.children())
    return False


def _has_subscript(n):
    return any(isinstance(x, ast.Subscript) for x in ast.walk(n))


def _elem_kind(v):
    if isinstance(v, Arr):
        return v.kind
    if isinstance(v, Small):
        fl = v.flat()
        return kind_of(fl[0]) if fl else v.kind
    return kind_of(v)


def _as_boolish(x):
    if isinstance(x, bool) or is_sym_bool(x):
        return x
    raise Unsupported("bitwise operator on non-bool")


def _merge_ghost(a, b):
    ga = getattr(a, "ghost", {}) or {}
    gb = getattr(b, "ghost", {}) or {}
    out = {}
    for k in ("unit", "space", "axes"):
        va, vb = ga.get(k), gb.get(k)
        if va is not None and vb is not None:
            out[k] = va if va == vb else "mixed"
        elif va is not None or vb is not None:
            out[k] = va if va is not None else vb
    out["owner"] = "fresh"
    # memory layout of a ufunc result follows its array operands: C-contiguous iff every array operand is
    cs = [g.get("corder") for g, v in ((ga, a), (gb, b)) if isinstance(v, Arr)]
    if cs and all(c is True for c in cs):
        out["corder"] = True
    return out


def _small_view(s, i):
    d = s.data[i]
    if isinstance(d, list):
        return Small(d, s.kind)
    return d


def _unwrap_small(v):
    return v.data if isinstance(v, Small) else v


def _deep_list(v):
    if isinstance(v, Small):
        v = v.data
    if isinstance(v, (list, tuple)):
        return [_deep_list(x) for x in v]
    return v


def _fill_list(lst, v):
    for i in range(len(lst)):
        if isinstance(lst[i], list):
            _fill_list(lst[i], v)
        else:
            lst[i] = v


def _small_assign_inplace(cur, new):
    def rec(c, nw):
        for i in range(len(c)):
            if isinstance(c[i], list):
                rec(c[i], nw[i])
            else:
                c[i] = nw[i]
    rec(cur.data, new.data)


def _len_sub(hi, lo):
    if isinstance(lo, int) and lo == 0:
        return hi
    if isinstance(hi, int) and isinstance(lo, int):
        return max(hi - lo, 0)
    return arith("-", hi, lo)


def _tag_module_owner(v, name):
    if isinstance(v, dict):
        d = SymDict(name, {k: [True, vv] for k, vv in v.items()}, closed=True, owner="module:" + name)
        return d
    return v


def mutated_names(body):
    """names whose OBJECT is written in the body (subscript / attribute stores, mutating method calls, np.put)"""
    out = set()

    def base_of(t):
        b = t
        while isinstance(b, (ast.Subscript, ast.Attribute)):
            b = b.value
        return b.id if isinstance(b, ast.Name) else None
    for s in body:
        for x in ast.walk(s):
            tg = []
            if isinstance(x, ast.Assign):
                tg = x.targets
            elif isinstance(x, (ast.AugAssign, ast.AnnAssign)):
                tg = [x.target]
            for t in tg:
                for tt in (t.elts if isinstance(t, (ast.Tuple, ast.List)) else [t]):
                    if isinstance(tt, (ast.Subscript, ast.Attribute)):
                        n = base_of(tt)
                        if n:
                            out.add(n)
                    elif isinstance(x, ast.AugAssign) and isinstance(tt, ast.Name):
                        out.add(tt.id)     # `a += b` mutates a numpy array in place
            if isinstance(x, ast.Call) and isinstance(x.func, ast.Attribute) and x.func.attr in (
                    "append", "extend", "sort", "fill", "put", "update", "pop", "insert"):
                n = base_of(x.func.value)
                if n:
                    out.add(n)
            if isinstance(x, ast.Call) and ast.unparse(x.func) in ("np.put",) and x.args:
                for y in ast.walk(x.args[0]):
                    if isinstance(y, ast.Name):
                        out.add(y.id)
    return out


def modified_names(body):
    """names (and bases of subscript / attribute stores, and receivers of mutating methods) assigned in a loop body"""
    out = set()

    def tgt(t):
        if isinstance(t, ast.Name):
            out.add(t.id)
        elif isinstance(t, (ast.Tuple, ast.List)):
            for e in t.elts:
                tgt(e)
        elif isinstance(t, (ast.Subscript, ast.Attribute)):
            b = t
            while isinstance(b, (ast.Subscript, ast.Attribute)):
                b = b.value
            if isinstance(b, ast.Name):
                out.add(b.id)
        elif isinstance(t, ast.Starred):
            tgt(t.value)
    for s in body:
        for x in ast.walk(s):
            if isinstance(x, ast.Assign):
                for t in x.targets:
                    tgt(t)
            elif isinstance(x, (ast.AugAssign, ast.AnnAssign)):
                tgt(x.target)
            elif isinstance(x, ast.For):
                tgt(x.target)
            elif isinstance(x, ast.Call) and isinstance(x.func, ast.Attribute) and x.func.attr in (
                    "append", "extend", "sort", "fill", "put", "update", "pop", "insert"):
                b = x.func.value
                while isinstance(b, (ast.Subscript, ast.Attribute)):
                    b = b.value
                if isinstance(b, ast.Name):
                    out.add(b.id)
            elif isinstance(x, ast.Call) and ast.unparse(x.func) in ("np.put",):
                b = x.args[0]
                while isinstance(b, (ast.Subscript, ast.Attribute, ast.Call)):
                    b = b.value if not isinstance(b, ast.Call) else b.func
                if isinstance(b, ast.Name):
                    out.add(b.id)
    return out
