"""Symbolic executor: real function bodies (ast) -> named proof obligations.

Assumptions encoded here (reported in every evidence file):
  A-INT   python ints are mathematical integers
  A-REAL  float64 is the real field; float literals are their decimal value
  A-NUMBA @njit code computes what its python text computes; prange == range
"""
import ast
import itertools
import os
import time

import z3

from .values import (Arr, BoundMethod, Builtin, ClassRef, FuncRef, LambdaVal, ListMap, ModRef, Obj, Opaque, Small,
                     StrSym, SymDict, Unsupported, clone, fresh_name, is_scalar, is_sym_bool, is_z3, kind_of,
                     real_const, to_z3, INT, REAL, BOOL, USORT)

NORMAL, RETURN, RAISE, CONTINUE, BREAK = "normal", "return", "raise", "continue", "break"


class Obligation:
    def __init__(self, name, kind, goal, hyps, fn, loc, clause, backend="z3"):
        self.name = name
        self.kind = kind
        self.goal = goal
        self.hyps = hyps
        self.fn = fn
        self.loc = loc
        self.clause = clause
        self.backend = backend
        self.status = None  # discharged | failed | undecided
        self.model = None
        self.seconds = 0.0
        self.reason = ""
        self.static = None  # for ghost obligations decided at translation time: True/False


class State:
    def __init__(self, env=None, pc=None, facts=None):
        self.env = env if env is not None else {}
        self.pc = pc if pc is not None else []
        self.facts = facts if facts is not None else []
        self.old = {}
        self.ghostvars = {}

    def fork(self):
        memo = {}
        s = State(clone(self.env, memo), list(self.pc), list(self.facts))
        s.old = clone(self.old, memo)
        s.ghostvars = clone(self.ghostvars, memo)
        return s

    def hyps(self):
        return self.facts + self.pc


class Frame:
    """per function activation"""

    def __init__(self, info, contract):
        self.info = info
        self.contract = contract
        self.loop_ordinal = itertools.count()


class PiConst:
    pass


PI = z3.Real("pi")
PI_AXIOMS = [PI > z3.RealVal("3.141592653589793238"), PI < z3.RealVal("3.141592653589793239")]


class DType:
    def __init__(self, name):
        self.name = name

    def __repr__(self):
        return f"dtype({self.name})"

    def __eq__(self, o):
        return isinstance(o, DType) and canonical_dtype(o.name) == canonical_dtype(self.name)

    def __hash__(self):
        return hash(canonical_dtype(self.name))

    @property
    def is_int(self):
        return canonical_dtype(self.name).startswith(("int", "uint"))

    @property
    def is_float(self):
        return canonical_dtype(self.name).startswith("float")


def canonical_dtype(n):
    return {"intp": "int64", "int": "int64", "float": "float64", "int_": "int64", "double": "float64"}.get(n, n)


class NanTok:
    def __repr__(self):
        return "nan"


NAN = NanTok()


class Ctx:
    def __init__(self, repo, registry, sizes=None, options=None):
        self.repo = repo
        self.registry = registry
        self.obligations = []
        self.trusted = set()
        self.sizes = dict(sizes or {})
        self.options = dict(options or {})
        self.frames = []
        self.global_axioms = list(PI_AXIOMS)
        self.unsupported = []
        self.names_seen = {}
        self.module_values = {}
        self.inline_depth = 0
        self.prune = self.options.get("prune", True)
        self.prune_solver_ms = self.options.get("prune_ms", 300)
        self.paths = 0
        self.fn_under_check = None
        self.prefix = self.options.get("prefix", "")
        self.finite = bool(self.options.get("finite"))
        self.canary = []

    # ------------------------------------------------------------------ obligations
    def oblige(self, st, kind, goal, clause, loc=None, static=None, backend="z3", tag=None):
        fn = self.fn_under_check
        base = f"{self.prefix}{fn}/{kind}" + (f":{tag}" if tag else "")
        n = self.names_seen.get(base, 0)
        self.names_seen[base] = n + 1
        name = base if n == 0 else f"{base}#{n}"
        if isinstance(goal, bool):
            goal = z3.BoolVal(goal)
        ob = Obligation(name, kind, goal, self.global_axioms + st.hyps(), fn, loc, clause, backend)
        ob.static = static
        self.obligations.append(ob)
        return ob

    def trust(self, what):
        self.trusted.add(what)

    # ------------------------------------------------------------------ feasibility pruning
    def feasible(self, st):
        if not self.prune:
            return True
        s = z3.Solver()
        s.set("timeout", self.prune_solver_ms)
        for h in self.global_axioms + st.hyps():
            s.add(h)
        return s.check() != z3.unsat


def loc_of(frame, node):
    return f"{os.path.relpath(frame.info.file, frame.info.file.split('/uxarray/')[0])}:{getattr(node, 'lineno', '?')}"


# ---------------------------------------------------------------------------------------------
# quantifier helpers (finite expansion when all bounds are concrete)
# ---------------------------------------------------------------------------------------------

def _conc(v):
    if isinstance(v, bool):
        return None
    if isinstance(v, int):
        return v
    if isinstance(v, z3.IntNumRef):
        return v.as_long()
    return None


def forall_ranges(bounds, body_fn, patterns_fn=None, names=None):
    """bounds: list of (lo, hi) with hi exclusive.  body_fn(*vars)->Bool."""
    concs = [(_conc(lo), _conc(hi)) for lo, hi in bounds]
    if all(a is not None and b is not None for a, b in concs):
        rng = [range(a, b) for a, b in concs]
        if all(len(r) <= 64 for r in rng):
            out = []
            for tup in itertools.product(*rng):
                out.append(to_z3(body_fn(*tup), "bool"))
            return z3.And(*out) if out else z3.BoolVal(True)
    vs = [z3.Int(fresh_name((names[i] if names else "q"))) for i in range(len(bounds))]
    guard = z3.And(*[z3.And(to_z3(lo, "int") <= v, v < to_z3(hi, "int")) for v, (lo, hi) in zip(vs, bounds)])
    body = to_z3(body_fn(*vs), "bool")
    pats = patterns_fn(*vs) if patterns_fn else None
    if pats:
        try:
            return z3.ForAll(vs, z3.Implies(guard, body), patterns=pats)
        except z3.Z3Exception:
            pass  # not usable as a trigger (lambda / interpreted head): let the solver choose
    return z3.ForAll(vs, z3.Implies(guard, body))


def exists_ranges(bounds, body_fn, names=None, patterns_fn=None):
    concs = [(_conc(lo), _conc(hi)) for lo, hi in bounds]
    if all(a is not None and b is not None for a, b in concs):
        rng = [range(a, b) for a, b in concs]
        if all(len(r) <= 64 for r in rng):
            out = [to_z3(body_fn(*tup), "bool") for tup in itertools.product(*rng)]
            return z3.Or(*out) if out else z3.BoolVal(False)
    vs = [z3.Int(fresh_name((names[i] if names else "e"))) for i in range(len(bounds))]
    guard = z3.And(*[z3.And(to_z3(lo, "int") <= v, v < to_z3(hi, "int")) for v, (lo, hi) in zip(vs, bounds)])
    pats = patterns_fn(*vs) if patterns_fn else None
    if pats:
        try:
            return z3.Exists(vs, z3.And(guard, to_z3(body_fn(*vs), "bool")), patterns=pats)
        except z3.Z3Exception:
            pass
    return z3.Exists(vs, z3.And(guard, to_z3(body_fn(*vs), "bool")))


# ---------------------------------------------------------------------------------------------
# scalar arithmetic
# ---------------------------------------------------------------------------------------------

def py_num(v):
    return isinstance(v, (int, float)) and not isinstance(v, bool)


def arith(op, a, b):
    """binary arithmetic on scalars (python or z3)"""
    from fractions import Fraction
    if isinstance(a, bool):
        a = int(a)
    if isinstance(b, bool):
        b = int(b)
    if py_num(a) and py_num(b) and not (isinstance(a, float) or isinstance(b, float)):
        # exact integer arithmetic
        if op == "+":
            return a + b
        if op == "-":
            return a - b
        if op == "*":
            return a * b
        if op == "//":
            return a // b
        if op == "%":
            return a % b
        if op == "**" and b >= 0:
            return a ** b
        if op == "/":
            if b != 0 and a % b == 0:
                return float(a // b)
            return float(Fraction(a, b)) if b != 0 else _raise(Unsupported("division by zero"))
    if py_num(a) and py_num(b):
        fa, fb = Fraction(repr(a)) if isinstance(a, float) else Fraction(a), Fraction(repr(b)) if isinstance(b, float) else Fraction(b)
        if op == "+":
            return _fr(fa + fb)
        if op == "-":
            return _fr(fa - fb)
        if op == "*":
            return _fr(fa * fb)
        if op == "/":
            return _fr(fa / fb)
        if op == "**" and isinstance(b, int):
            return _fr(fa ** b)
    ka, kb = kind_of(a), kind_of(b)
    if ka is None or kb is None:
        raise Unsupported(f"arith {op} on {type(a).__name__},{type(b).__name__}")
    if ka == "bool":
        a, ka = to_z3(a, "int"), "int"
    if kb == "bool":
        b, kb = to_z3(b, "int"), "int"
    real = ka == "real" or kb == "real" or op == "/"
    za, zb = to_z3(a, "real" if real else "int"), to_z3(b, "real" if real else "int")
    if op == "+":
        return za + zb
    if op == "-":
        return za - zb
    if op == "*":
        return za * zb
    if op == "/":
        return za / zb
    if op == "//":
        if real:
            return z3.ToReal(z3.ToInt(za / zb))
        return za / zb  # z3 int div floors for positive divisor (checked by caller where symbolic)
    if op == "%":
        if real:
            return fmod_real(za, zb)
        return za % zb
    if op == "**":
        if isinstance(b, int) and 0 <= b <= 8:
            r = to_z3(1, "real" if real else "int")
            for _ in range(b):
                r = r * za
            return r
        if isinstance(b, float) and b == 0.5:
            return sqrt_term(za)
        return pow_term(to_z3(a, "real"), to_z3(b, "real"))
    raise Unsupported(f"operator {op}")


def _fr(fr):
    from fractions import Fraction
    return fr if isinstance(fr, Fraction) else Fraction(fr)


def _raise(e):
    raise e


# uninterpreted transcendental functions (A-TRIG).  Axiom instances are attached to the
# state by the model functions in npmodels.
F_SIN = z3.Function("sin", REAL, REAL)
F_COS = z3.Function("cos", REAL, REAL)
F_ASIN = z3.Function("asin", REAL, REAL)
F_ACOS = z3.Function("acos", REAL, REAL)
F_ATAN2 = z3.Function("atan2", REAL, REAL, REAL)
F_SQRT = z3.Function("sqrt", REAL, REAL)
F_POW = z3.Function("pow", REAL, REAL, REAL)
F_FMOD = z3.Function("fmod", REAL, REAL, REAL)
F_FLOORDIV = z3.Function("fdivk", REAL, REAL, INT)

PENDING_FACTS = []  # facts produced by pure term constructors; drained into the state by the executor


def fmod_real(x, m):
    r = F_FMOD(x, m)
    k = F_FLOORDIV(x, m)
    PENDING_FACTS.append(z3.Implies(m > 0, z3.And(r >= 0, r < m)))
    PENDING_FACTS.append(z3.Implies(z3.And(m > 0, x >= 0, x < m), r == x))
    PENDING_FACTS.append(r == x - z3.ToReal(k) * m)
    if z3.eq(z3.simplify(m - 2 * PI), z3.RealVal(0)):
        # A-TRIG: sin and cos have period 2*pi
        PENDING_FACTS.append(z3.And(F_SIN(r) == F_SIN(x), F_COS(r) == F_COS(x)))
        PENDING_FACTS.append(F_SIN(r) * F_SIN(r) + F_COS(r) * F_COS(r) == 1)
    return r


def sqrt_term(x):
    r = F_SQRT(x)
    PENDING_FACTS.append(z3.Implies(x >= 0, z3.And(r >= 0, r * r == x)))
    return r


def pow_term(x, p):
    r = F_POW(x, p)
    PENDING_FACTS.append(z3.Implies(x > 0, r > 0))
    PENDING_FACTS.append(z3.Implies(x == 0, z3.If(p > 0, r == 0, z3.BoolVal(True))))
    return r


def compare(op, a, b):
    if isinstance(op, ast.Eq):
        return eq_val(a, b)
    if isinstance(op, ast.NotEq):
        return not_val(eq_val(a, b))
    if isinstance(op, (ast.Is, ast.IsNot)):
        r = is_val(a, b)
        return r if isinstance(op, ast.Is) else not_val(r)
    if py_num(a) and py_num(b) or (isinstance(a, (int, float, bool)) and isinstance(b, (int, float, bool))):
        if isinstance(op, ast.Lt):
            return a < b
        if isinstance(op, ast.LtE):
            return a <= b
        if isinstance(op, ast.Gt):
            return a > b
        if isinstance(op, ast.GtE):
            return a >= b
    ka, kb = kind_of(a), kind_of(b)
    if ka is None or kb is None:
        raise Unsupported(f"compare on {type(a).__name__},{type(b).__name__}")
    real = "real" in (ka, kb)
    za, zb = to_z3(a, "real" if real else "int"), to_z3(b, "real" if real else "int")
    if isinstance(op, ast.Lt):
        return za < zb
    if isinstance(op, ast.LtE):
        return za <= zb
    if isinstance(op, ast.Gt):
        return za > zb
    if isinstance(op, ast.GtE):
        return za >= zb
    raise Unsupported(f"comparison {type(op).__name__}")


def is_val(a, b):
    if a is None or b is None:
        if a is None and b is None:
            return True
        other = b if a is None else a
        if isinstance(other, Opaque) and other.ghost.get("maybe_none") is not None:
            return other.ghost["maybe_none"]
        return False
    if isinstance(a, bool) and isinstance(b, bool):
        return a is b
    if isinstance(a, (Obj, Opaque)) and isinstance(b, (Obj, Opaque)):
        ta = a.ident if isinstance(a, Obj) else a.term
        tb = b.ident if isinstance(b, Obj) else b.term
        return ta == tb
    if a is b:
        return True
    if is_z3(a) and is_z3(b) and a.sort() == b.sort():
        return a == b
    if isinstance(a, bool) or isinstance(b, bool):
        # `x is True` with symbolic x
        if is_sym_bool(a) or is_sym_bool(b):
            return to_z3(a, "bool") == to_z3(b, "bool")
    return False


def eq_val(a, b):
    if a is None or b is None:
        return is_val(a, b)
    if isinstance(a, NanTok) or isinstance(b, NanTok):
        return False
    if isinstance(a, str) and isinstance(b, str):
        return a == b
    if isinstance(a, (StrSym, str)) and isinstance(b, (StrSym, str)):
        raise Unsupported("symbolic string equality outside the string table")
    if isinstance(a, DType) or isinstance(b, DType):
        if isinstance(a, DType) and isinstance(b, DType):
            return a == b
        if isinstance(a, Opaque) or isinstance(b, Opaque):
            o = a if isinstance(a, Opaque) else b
            d = b if isinstance(a, Opaque) else a
            return dtype_const(canonical_dtype(d.name)) == o.term
        return False
    if isinstance(a, (int, float)) and isinstance(b, (int, float)):
        return a == b
    if isinstance(a, (tuple, list)) and isinstance(b, (tuple, list)):
        if len(a) != len(b):
            return False
        return and_vals([eq_val(x, y) for x, y in zip(a, b)])
    if isinstance(a, (Obj, Opaque)) or isinstance(b, (Obj, Opaque)):
        if isinstance(a, (Obj, Opaque)) and isinstance(b, (Obj, Opaque)):
            ta = a.ident if isinstance(a, Obj) else a.term
            tb = b.ident if isinstance(b, Obj) else b.term
            return ta == tb
        if isinstance(a, str) or isinstance(b, str):
            o = a if isinstance(a, Opaque) else b
            s = b if isinstance(a, Opaque) else a
            if isinstance(o, Opaque):
                return o.term == str_const(s)
        return False
    if isinstance(a, str) or isinstance(b, str):
        return False
    ka, kb = kind_of(a), kind_of(b)
    if ka is None or kb is None:
        raise Unsupported(f"== on {type(a).__name__},{type(b).__name__}")
    if ka == "bool" and kb == "bool":
        return to_z3(a, "bool") == to_z3(b, "bool")
    real = "real" in (ka, kb)
    return to_z3(a, "real" if real else "int") == to_z3(b, "real" if real else "int")


STR_CONSTS = {}
DTYPE_CONSTS = {}


def dtype_const(name):
    c = DTYPE_CONSTS.get(name)
    if c is None:
        c = DTYPE_CONSTS[name] = z3.Const("dtype_" + name, USORT)
    return c



def str_const(s):
    c = STR_CONSTS.get(s)
    if c is None:
        c = STR_CONSTS[s] = z3.Const("str:" + s, USORT)
    return c


def not_val(v):
    if isinstance(v, bool):
        return not v
    if is_sym_bool(v):
        return z3.Not(v)
    if isinstance(v, Small):
        return v.map(not_val)
    if isinstance(v, Arr) and v.kind == "bool":
        return Arr.from_lambda(v.shape, "bool", lambda *i: z3.Not(v.sel(*i)))
    if v is None:
        return True
    if isinstance(v, (int, float)):
        return not v
    if isinstance(v, (list, tuple, str, dict)):
        return len(v) == 0
    if is_z3(v):
        return v == 0
    if isinstance(v, (Obj, Opaque)):
        if isinstance(v, Opaque) and v.ghost.get("truth") is not None:
            return z3.Not(v.ghost["truth"])
        if isinstance(v, Opaque) and v.ghost.get("maybe_none") is not None:
            return v.ghost["maybe_none"]
        return False
    raise Unsupported(f"not on {type(v).__name__}")


def truth(v):
    r = not_val(v)
    return not_val(r)


def and_vals(vs):
    out = []
    for v in vs:
        if isinstance(v, bool):
            if not v:
                return False
            continue
        out.append(to_z3(v, "bool"))
    if not out:
        return True
    return z3.And(*out) if len(out) > 1 else out[0]


def or_vals(vs):
    out = []
    for v in vs:
        if isinstance(v, bool):
            if v:
                return True
            continue
        out.append(to_z3(v, "bool"))
    if not out:
        return False
    return z3.Or(*out) if len(out) > 1 else out[0]


def ite_val(c, a, b):
    if isinstance(c, bool):
        return a if c else b
    if isinstance(a, Small) or isinstance(b, Small):
        return Small.zip_map(a, b, lambda x, y: ite_val(c, x, y))
    if isinstance(a, (tuple, list)) and isinstance(b, (tuple, list)) and len(a) == len(b):
        return type(a)(ite_val(c, x, y) for x, y in zip(a, b))
    if isinstance(a, Arr) and isinstance(b, Arr) and a.rank == b.rank:
        k = "real" if "real" in (a.kind, b.kind) else a.kind
        return Arr.from_lambda(a.shape, k, lambda *i: z3.If(c, to_z3(a.sel(*i), k), to_z3(b.sel(*i), k)))
    if a is None and b is None:
        return None
    ka, kb = kind_of(a), kind_of(b)
    if ka is None or kb is None:
        raise Unsupported(f"conditional value of {type(a).__name__}/{type(b).__name__} under a symbolic condition")
    if ka == "bool" and kb == "bool":
        return z3.If(c, to_z3(a, "bool"), to_z3(b, "bool"))
    k = "real" if "real" in (ka, kb) else "int"
    return z3.If(c, to_z3(a, k), to_z3(b, k))


BINOPS = {ast.Add: "+", ast.Sub: "-", ast.Mult: "*", ast.Div: "/", ast.FloorDiv: "//", ast.Mod: "%", ast.Pow: "**"}
