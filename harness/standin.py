#!/venv/bin/python
"""Bounded stand-in: the SAME contract clauses evaluated at run time on the REAL function,
over generated inputs that satisfy the precondition.  Never counted as proved.

  standin.py <spec.json>   spec = {function, params{name: typespec}, requires, ensures, raises, n, seed, gen}
prints one JSON line {"cases": n_run, "distinct": k, "failures": [ {inputs, violated}... ], "bound": "..."}
"""
import ast
import copy
import importlib
import json
import math
import os
import random
import sys
import traceback

os.environ.setdefault("NUMBA_DISABLE_JIT", "0")
import warnings

warnings.filterwarnings("ignore")
import numpy as np

HERE = os.path.dirname(os.path.abspath(__file__))
sys.path.insert(0, HERE)
sys.path.insert(0, os.path.dirname(HERE))
from replay import base_namespace, compile_clause, import_function, _short, FILL

PI = math.pi
REAL_POOL = [0.0, 1e-9, -1e-9, 0.3, -0.3, 1.0, -1.0, PI / 2, -PI / 2, PI / 4, -PI / 4, PI, -PI, 2 * PI - 1e-9, 3.0, 5.5,
             6.2, 0.5, -0.5, 2.0, -2.0, PI / 2 - 1e-9, -PI / 2 + 1e-9, 1.5, -1.5, 0.1, 6.0, 4.0]


SAMPLING = {"no_fill": False, "real_range": 7.0}


def sample(spec_node, rng, env):
    if isinstance(spec_node, ast.Name):
        t = spec_node.id
        if t == "real" and SAMPLING["no_fill"]:
            R = SAMPLING["real_range"]
            r = rng.random()
            if r < 0.35:
                return rng.choice([x for x in REAL_POOL if abs(x) <= R])
            return rng.uniform(-R, R)
        if t == "real":
            r = rng.random()
            if r < 0.55:
                return rng.choice(REAL_POOL)
            if r < 0.6:
                return float(FILL)
            return rng.uniform(-7, 7)
        if t == "int":
            return rng.choice([0, 1, 2, 3, 4, 5, -1, FILL]) if rng.random() < 0.8 else rng.randint(-3, 12)
        if t == "bool":
            return rng.random() < 0.5
        if t == "none":
            return None
        raise ValueError(t)
    if isinstance(spec_node, ast.Constant):
        return spec_node.value
    if isinstance(spec_node, ast.Call):
        f = spec_node.func.id
        if f == "small":
            kind = spec_node.args[0].id
            dims = [ast.literal_eval(a) for a in spec_node.args[1:]]

            def build(ds):
                if not ds:
                    return sample(ast.Name(kind), rng, env)
                return [build(ds[1:]) for _ in range(ds[0])]
            return np.array(build(dims), dtype=np.float64 if kind == "real" else (np.int64 if kind == "int" else bool))
        if f == "arr":
            kind = spec_node.args[0].id
            dims = [int(eval(compile(ast.Expression(a), "<dim>", "eval"), dict(env))) for a in spec_node.args[1:]]
            n = int(np.prod(dims)) if dims else 1
            vals = [sample(ast.Name(kind), rng, env) for _ in range(n)]
            return np.array(vals, dtype=np.float64 if kind == "real" else (np.int64 if kind == "int" else bool)).reshape(dims)
        if f == "tuple":
            return tuple(sample(a, rng, env) for a in spec_node.args)
        if f == "optional":
            return None if rng.random() < 0.3 else sample(spec_node.args[0], rng, env)
        if f == "choice":
            return ast.literal_eval(rng.choice(spec_node.args))
    raise ValueError(ast.unparse(spec_node))


def main():
    with open(sys.argv[1]) as f:
        spec = json.load(f)
    rng = random.Random(spec.get("seed", 0))
    SAMPLING["no_fill"] = bool(spec.get("no_fill"))
    SAMPLING["real_range"] = float(spec.get("real_range", 7.0))
    import replay as _rp
    _rp.RTOL = float(spec.get("rtol", _rp.RTOL))
    _rp.ATOL = float(spec.get("atol", _rp.ATOL))
    ns = base_namespace()
    fn = import_function(spec["function"])
    if hasattr(fn, "py_func"):
        fn = fn.py_func
    gen = None
    if spec.get("gen"):
        gmod = importlib.import_module("gens")
        gen = getattr(gmod, spec["gen"])(rng, spec)
    req = [compile_clause(c) for c in spec.get("requires", [])]
    ens = [(c, compile_clause(c)) for c in spec.get("ensures", [])]
    raises = [(e, c, m, compile_clause(c)) for e, c, m in spec.get("raises", [])]
    n_target = spec.get("n", 500)
    cases = 0
    tried = 0
    seen = set()
    failures = []
    samples = []
    clause_errors = 0
    while cases < n_target and tried < n_target * 40:
        tried += 1
        try:
            if gen is not None:
                inputs = next(gen)
            else:
                env0 = {}
                sizes = {s: rng.randint(0, spec.get("max_size", 4)) for s in spec.get("sizes", [])}
                env0.update(sizes)
                inputs = dict(sizes)
                for name, ts in list(spec.get("ghost_params", {}).items()) + list(spec["params"].items()):
                    inputs[name] = sample(ast.parse(ts, mode="eval").body, rng, {**env0, **inputs})
        except StopIteration:
            break
        env = dict(ns)
        env.update(inputs)
        for k, v in inputs.items():
            env["__old_" + k] = copy.deepcopy(v)
        try:
            if not all(eval(c, env) for c in req):
                continue
        except Exception:
            continue
        cases += 1
        key = repr({k: _short(v) for k, v in inputs.items()})
        seen.add(key)
        args = {p: inputs[p] for p in spec["params"] if p in inputs}
        exc = None
        result = None
        try:
            result = fn(**args)
        except Exception as e:
            exc = e
        env["result"] = result
        violated = None
        if exc is not None:
            ok = False
            for e, c, m, code in raises:
                try:
                    if (e in (type(exc).__name__, "*", "Exception")) and eval(code, env):
                        ok = True
                except Exception:
                    pass
            if not ok:
                violated = f"unexpected {type(exc).__name__}: {exc}"
        else:
            for e, c, m, code in raises:
                if m == "iff":
                    try:
                        if eval(code, env):
                            violated = f"returned normally although ({c}) requires {e}"
                    except Exception:
                        pass
            if violated is None:
                for c, code in ens:
                    try:
                        if not eval(code, env):
                            violated = c
                            break
                    except Exception as e:
                        # a clause that cannot be evaluated on this input (domain error of the executable rendering) is
                        # not a verdict: skip the case rather than call it a violation
                        clause_errors += 1
                        continue
        if len(samples) < 3:
            samples.append({k: _short(v) for k, v in inputs.items()})
        if violated is not None:
            failures.append({"inputs": {k: _short(env["__old_" + k]) for k in inputs}, "violated": violated,
                             "layouts": {k: ("F" if (isinstance(v, np.ndarray) and v.ndim == 2 and not v.flags["C_CONTIGUOUS"]) else "C")
                                         for k, v in inputs.items() if isinstance(v, np.ndarray)},
                             "result": _short(result)})
            if len(failures) >= 3:
                break
    print(json.dumps({"cases": cases, "tried": tried, "distinct": len(seen), "failures": failures, "samples": samples,
                      "clause_errors": clause_errors},
                     default=str))


if __name__ == "__main__":
    try:
        main()
    except Exception as e:
        print(json.dumps({"error": f"{type(e).__name__}: {e}", "trace": traceback.format_exc()[-1500:]}))
        sys.exit(3)
