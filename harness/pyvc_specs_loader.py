"""loads the clause-language spec macros (no z3 needed)"""
import importlib
import os
import pkgutil
import sys

sys.path.insert(0, os.path.dirname(os.path.dirname(os.path.abspath(__file__))))


def load_specs():
    import contracts
    for m in pkgutil.iter_modules(contracts.__path__):
        if m.name.startswith("_specs"):
            importlib.import_module("contracts." + m.name)
    from pyvc.specs import SPECS
    return SPECS
