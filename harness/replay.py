#!/venv/bin/python
"""Replay of a solver counter-model against the REAL function (runs under /venv/bin/python,
which has uxarray editable-installed from /repo, so it always executes the working tree).

  replay.py <replay.json>      -> prints one JSON line {"verdict": ..., ...}

verdicts: reproduced | not-reproduced | precondition-not-met | error
"""
import ast
import copy
import importlib
import json
import math
import os
import sys
import traceback

os.environ.setdefault("NUMBA_DISABLE_JIT", "0")
os.environ.setdefault("UXARRAY_VERIF", "1")
import warnings

warnings.filterwarnings("ignore")
import numpy as np

sys.path.insert(0, os.path.dirname(os.path.dirname(os.path.abspath(__file__))))

FILL = -(2 ** 63)
RTOL = 1e-12
ATOL = 1e-13


def _isnum(x):
    return isinstance(x, (int, float, np.integer, np.floating)) and not isinstance(x, (bool, np.bool_))


def _cmp(op, a, b):
    if isinstance(a, np.ndarray) or isinstance(b, np.ndarray):
        a, b = np.asarray(a), np.asarray(b)
    if _isnum(a) and _isnum(b) and (isinstance(a, (float, np.floating)) or isinstance(b, (float, np.floating))):
        a, b = float(a), float(b)
        tol = ATOL + RTOL * max(abs(a), abs(b))
        if op == "==":
            return abs(a - b) <= tol
        if op == "!=":
            return abs(a - b) > tol
        if op == "<=":
            return a <= b + tol
        if op == ">=":
            return a >= b - tol
        if op == "<":
            return a < b
        if op == ">":
            return a > b
    if op == "==":
        r = a == b
    elif op == "!=":
        r = a != b
    elif op == "<=":
        r = a <= b
    elif op == ">=":
        r = a >= b
    elif op == "<":
        r = a < b
    elif op == ">":
        r = a > b
    elif op == "is":
        return a is b
    elif op == "is not":
        return a is not b
    elif op == "in":
        return a in b
    elif op == "not in":
        return a not in b
    else:
        raise ValueError(op)
    if isinstance(r, np.ndarray):
        return bool(r.all())
    return bool(r)


_OPS = {ast.Eq: "==", ast.NotEq: "!=", ast.LtE: "<=", ast.GtE: ">=", ast.Lt: "<", ast.Gt: ">", ast.Is: "is",
        ast.IsNot: "is not", ast.In: "in", ast.NotIn: "not in"}


class _Rewrite(ast.NodeTransformer):
    """comparisons -> tolerant comparisons; old(e) -> e with names bound to entry values"""

    def __init__(self):
        self.in_old = 0

    def visit_Compare(self, node):
        self.generic_visit(node)
        parts = []
        left = node.left
        for op, c in zip(node.ops, node.comparators):
            parts.append(ast.Call(func=ast.Name("__cmp", ast.Load()), args=[ast.Constant(_OPS[type(op)]), left, c],
                                  keywords=[]))
            left = c
        if len(parts) == 1:
            return parts[0]
        return ast.BoolOp(op=ast.And(), values=parts)

    def visit_Call(self, node):
        if isinstance(node.func, ast.Name) and node.func.id == "old":
            self.in_old += 1
            inner = self.visit(node.args[0])
            self.in_old -= 1
            return inner
        self.generic_visit(node)
        return node

    def visit_Name(self, node):
        if self.in_old and isinstance(node.ctx, ast.Load):
            return ast.Name("__old_" + node.id, ast.Load())
        return node


def compile_clause(text):
    tree = ast.parse(text.strip(), mode="eval")
    tree = _Rewrite().visit(tree)
    ast.fix_missing_locations(tree)
    return compile(tree, "<clause>", "eval")


def _clip1(z):
    z = float(z)
    if 1.0 < abs(z) <= 1.0 + 1e-9:
        return math.copysign(1.0, z)
    return z


def base_namespace():
    def forall(*a, **kw):
        *b, f = a
        rngs = [range(int(b[i]), int(b[i + 1])) for i in range(0, len(b), 2)]
        import itertools
        return all(f(*t) for t in itertools.product(*rngs))

    def exists(*a):
        *b, f = a
        rngs = [range(int(b[i]), int(b[i + 1])) for i in range(0, len(b), 2)]
        import itertools
        return any(f(*t) for t in itertools.product(*rngs))
    ns = {
        "forall": forall, "exists": exists, "implies": lambda a, b: (not a) or bool(b),
        "iff": lambda a, b: bool(a) == bool(b), "ite": lambda c, a, b: a if c else b,
        "eqr": lambda a, b: _cmp("==", a, b), "ler": lambda a, b: _cmp("<=", a, b), "ltr": lambda a, b: _cmp("<", a, b),
        "isnone": lambda a: a is None, "sin": math.sin, "cos": math.cos, "asin": lambda z: math.asin(_clip1(z)), "acos": lambda z: math.acos(_clip1(z)),
        "atan2": math.atan2, "sqrt": math.sqrt, "deg2rad": math.radians, "rad2deg": math.degrees, "abs": abs, "min": min, "max": max, "len": len,
        "fmod": lambda a, b: float(np.mod(a, b)), "pi": math.pi, "FILL": FILL, "INT_MAX": 2 ** 63 - 1, "INT_MIN": FILL,
        "shape": lambda a: tuple(np.shape(a)), "__cmp": _cmp, "np": np,
        "is_arr": lambda a: isinstance(a, np.ndarray), "same_object": lambda a, b: a is b,
        "ghost": lambda v, k: None,
    }
    import uxarray.constants as C
    for k in ("ERROR_TOLERANCE", "MACHINE_EPSILON", "INT_FILL_VALUE"):
        ns[k] = getattr(C, k)
    # spec macros
    from pyvc_specs_loader import load_specs
    for name, (params, body, doc) in load_specs().items():
        code = compile_clause(body)

        def mk(params, code):
            def fn(*args, **kw):
                loc = dict(zip(params, args))
                loc.update(kw)
                return eval(code, ns, loc)
            return fn
        ns[name] = mk(params, code)
    return ns


def to_value(v):
    if isinstance(v, dict):
        if "__small__" in v:
            return np.array(_plain(v["__small__"]), dtype=np.float64)
        if "__arr__" in v:
            if v["__arr__"] is None:
                raise ValueError("array too large in model")
            kind = v.get("kind")
            dt = {"int": np.int64, "real": np.float64, "bool": bool}.get(kind, None)
            a = np.array(_plain(v["__arr__"]), dtype=dt)
            return a.reshape(v["shape"])
        if "float" in v and ("num" in v or len(v) == 1):
            return v["float"]
        if "__opaque__" in v:
            return v
        return {k: to_value(x) for k, x in v.items()}
    if isinstance(v, list):
        return [to_value(x) for x in v]
    return v


def _plain(d):
    if isinstance(d, list):
        return [_plain(x) for x in d]
    if isinstance(d, dict) and "float" in d:
        return d["float"]
    return d


def import_function(qualname):
    parts = qualname.split(".")
    for k in range(len(parts) - 1, 0, -1):
        try:
            mod = importlib.import_module(".".join(parts[:k]))
        except ImportError:
            continue
        obj = mod
        try:
            for p in parts[k:]:
                obj = getattr(obj, p)
            return obj
        except AttributeError:
            continue
    raise ImportError(qualname)


def run(replay):
    global RTOL, ATOL
    RTOL = float(replay.get("rtol", RTOL))
    ATOL = float(replay.get("atol", ATOL))
    ns = base_namespace()
    inputs = {k: to_value(v) for k, v in replay["inputs"].items() if not k.startswith("__")}
    sizes = replay["inputs"].get("__sizes__", {})
    params = replay.get("params")
    fn = import_function(replay["function"])
    if hasattr(fn, "py_func"):
        fn = fn.py_func
    env = dict(ns)
    env.update(sizes)
    env.update(inputs)
    for k, v in list(inputs.items()):
        env["__old_" + k] = copy.deepcopy(v)
    for k, v in sizes.items():
        env["__old_" + k] = v
    # preconditions
    for cl in replay.get("requires", []):
        try:
            if not eval(compile_clause(cl), env):
                return {"verdict": "precondition-not-met", "clause": cl}
        except Exception as e:
            return {"verdict": "precondition-not-met", "clause": cl, "error": repr(e)}
    args = {p: env[p] for p in (params or inputs.keys()) if p in inputs}
    exc = None
    result = None
    try:
        result = fn(**args)
    except Exception as e:
        exc = e
    env["result"] = result
    out = {"verdict": "not-reproduced", "exception": type(exc).__name__ if exc else None,
           "result": _short(result)}
    raises = replay.get("raises", [])
    if exc is not None:
        allowed = False
        for (ename, cond, mode) in raises:
            if ename in (type(exc).__name__, "*") or issubclass(type(exc), Exception) and ename == "Exception":
                try:
                    if eval(compile_clause(cond), env):
                        allowed = True
                except Exception:
                    pass
        if not allowed:
            out.update(verdict="reproduced", violated=f"unexpected {type(exc).__name__}: {exc}")
        return out
    for (ename, cond, mode) in raises:
        if mode == "iff":
            try:
                if eval(compile_clause(cond), env):
                    out.update(verdict="reproduced", violated=f"returned normally although ({cond}) requires {ename}")
                    return out
            except Exception:
                pass
    clauses = [replay["clause"]] if replay.get("kind") == "ensures" else []
    clauses += [c for c in replay.get("ensures", []) if c not in clauses]
    for cl in clauses:
        try:
            ok = eval(compile_clause(cl), env)
        except Exception as e:
            out.setdefault("clause_errors", []).append(f"{cl[:80]}: {e!r}")
            continue
        if not ok:
            out.update(verdict="reproduced", violated=cl)
            return out
    return out


def _short(v):
    try:
        if isinstance(v, np.ndarray):
            return v.tolist() if v.size <= 64 else f"ndarray{v.shape}"
        if isinstance(v, tuple):
            return [_short(x) for x in v]
        if isinstance(v, (int, float, str, bool)) or v is None:
            return v
        if isinstance(v, (np.integer, np.floating)):
            return v.item()
        return repr(v)[:200]
    except Exception:
        return "?"


def main():
    path = sys.argv[1]
    with open(path) as f:
        replay = json.load(f)
    try:
        custom = replay.get("custom_replay")
        if custom:
            mod = importlib.import_module(custom["module"])
            out = getattr(mod, custom["function"])(replay)
        else:
            out = run(replay)
    except Exception as e:
        out = {"verdict": "error", "error": f"{type(e).__name__}: {e}", "trace": traceback.format_exc()[-1200:]}
    print(json.dumps(out, default=str))


if __name__ == "__main__":
    main()
