#!/venv/bin/python
"""runs a custom bounded stand-in: harness/standins/<property>.py : <name>(tier, seed) -> dict"""
import importlib
import json
import os
import sys
import traceback
import faulthandler

faulthandler.enable()          # a crash inside compiled library code (out-of-bounds in an njit kernel ...) leaves a python traceback on stderr

os.environ.setdefault("NUMBA_DISABLE_JIT", "0")
import warnings
warnings.filterwarnings("ignore")
HERE = os.path.dirname(os.path.abspath(__file__))
sys.path.insert(0, HERE)
sys.path.insert(0, os.path.dirname(HERE))


def main():
    with open(sys.argv[1]) as f:
        job = json.load(f)
    try:
        m = importlib.import_module("standins." + job["property"])
        out = getattr(m, job["name"])(job["tier"], job["seed"])
    except Exception as e:
        out = {"error": f"{type(e).__name__}: {e}", "trace": traceback.format_exc()[-1500:]}
        # an exception that escaped the stand-in but was RAISED INSIDE the library under test (innermost python frame in the uxarray
        # package, reached through a stand-in frame) is a failure of the library on an input the stand-in built - reported as such, with
        # a key naming the exception type and the library function; anything raised in the stand-in's own code stays a checker error
        try:
            import uxarray
            pkg = os.path.dirname(os.path.abspath(uxarray.__file__))
            frames = traceback.extract_tb(e.__traceback__)
            lib = [fr for fr in frames if os.path.abspath(fr.filename).startswith(pkg)]
            own = [fr for fr in frames if os.path.abspath(fr.filename).startswith(os.path.join(HERE, "standins"))]
            last_py = frames[-1]
            inner_is_lib = bool(lib) and (os.path.abspath(last_py.filename).startswith(pkg) or "site-packages" in last_py.filename)
            if inner_is_lib and own and not isinstance(e, (ImportError, AttributeError, NameError)):
                fn = lib[-1].name
                out = {"cases": 1, "distinct": 1, "bound": "stand-in aborted by an exception raised inside the library (reported as the failure)",
                       "samples": [],
                       "failures": [{"key": f"uncaught_library_exception:{type(e).__name__}:{fn}",
                                     "what": f"uxarray raised {type(e).__name__}: {str(e)[:200]} in {fn} ({os.path.relpath(lib[-1].filename, pkg)}:{lib[-1].lineno}) "
                                             f"on an input built by the stand-in at {os.path.basename(own[-1].filename)}:{own[-1].lineno}",
                                     "violated": "the operation yields a result on inputs inside the property's quantifier",
                                     "inputs": {"standin_line": f"{os.path.basename(own[-1].filename)}:{own[-1].lineno}"},
                                     "observed": f"{type(e).__name__}", "expected": "a result"}]}
        except Exception:  # noqa: BLE001
            pass
    print(json.dumps(out, default=str))


if __name__ == "__main__":
    main()
