#!/venv/bin/python
"""runs a custom bounded stand-in: harness/standins/<property>.py : <name>(tier, seed) -> dict"""
import importlib
import json
import os
import sys
import traceback
import faulthandler

faulthandler.enable()          # a crash inside compiled library code (out-of-bounds in an njit kernel ...) leaves a python traceback on stderr

os.environ.setdefault("NUMBA_DISABLE_JIT", "0")
import warnings
warnings.filterwarnings("ignore")
HERE = os.path.dirname(os.path.abspath(__file__))
sys.path.insert(0, HERE)
sys.path.insert(0, os.path.dirname(HERE))


def main():
    with open(sys.argv[1]) as f:
        job = json.load(f)
    try:
        m = importlib.import_module("standins." + job["property"])
        out = getattr(m, job["name"])(job["tier"], job["seed"])
    except Exception as e:
        out = {"error": f"{type(e).__name__}: {e}", "trace": traceback.format_exc()[-1500:]}
    print(json.dumps(out, default=str))


if __name__ == "__main__":
    main()
