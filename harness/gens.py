"""Input generators for the bounded stand-ins / counter-example search of functions whose precondition is too structured for
independent random sampling.  gen(rng, spec) -> iterator of input dicts (parameter and ghost-parameter names -> values)."""
import numpy as np

FILL = -(2 ** 63)


def _layout(rng, a):
    """numpy arrays handed in by callers may be C- or Fortran-ordered (e.g. a transposed view)"""
    r = rng.random()
    if a.ndim == 2 and r < 0.35:
        return np.asfortranarray(a)
    if a.ndim == 2 and r < 0.5:
        return np.ascontiguousarray(a.T).T     # transposed view of a C array
    return a


def std_table(rng, spec):
    """standard-form face-node tables with the ghost npf; parameter names taken from the contract"""
    names = list(spec["params"])
    tname = names[0]
    while True:
        n_face = rng.randint(1, 4)
        W = rng.randint(3, 5)
        n_node = rng.randint(W, 9)
        npf = [rng.randint(3, W) for _ in range(n_face)]
        if rng.random() < 0.5:
            npf[rng.randrange(n_face)] = W
        F = np.full((n_face, W), FILL, dtype=np.int64)
        for f in range(n_face):
            F[f, :npf[f]] = rng.sample(range(n_node), npf[f])
        d = {tname: _layout(rng, F), "n_face": n_face, "n_max_face_nodes": W, "npf": np.array(npf, dtype=np.int64)}
        if "n_node" in spec.get("sizes", []) or "n_node" in names:
            d["n_node"] = n_node
        yield d
