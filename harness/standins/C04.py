"""C04 bounded stand-in: spherical and Cartesian coordinates denote the same points.

coords(tier, seed): provenance combinations (nodes lon/lat | xyz | both; face and edge centres none | lon/lat | xyz | both;
longitudes given in [-180,180] or 0..360; supplied Cartesian triples of radius 1 or R != 1) x orders of first access of up
to 4 coordinate properties, on small meshes with nodes at the poles, on +-180 and on the prime meridian.

Oracle: numpy conversion written here from the property statement (direction of (lon,lat) deg == direction of (x,y,z)),
centres not supplied == normalised mean of the corner unit vectors computed from the mesh definition.
"""
import itertools
import random

import numpy as np
import xarray as xr

from .common import FILL, result, ux
from . import meshgen as mg

TOL = 1e-7            # chord tolerance for "same direction"
SNAP = 1e-8           # library's pole snap tolerance (|z| > 1 - SNAP  ->  lat = +-90, lon = 0)
SNAP_CHORD = 1.5e-4   # sqrt(2*SNAP) = 1.41e-4 : largest displacement the snap may cause
ELEMS = ("node", "edge", "face")
PROPS = [f"{e}_{c}" for e in ELEMS for c in ("lon", "lat", "x", "y", "z")]
REPS_QUICK = ["node_lon", "node_x", "edge_lon", "edge_x", "face_lon", "face_x", "node_lat", "edge_lat", "face_lat"]


# ------------------------------------------------------------------------------------------------ meshes
def _meshes():
    """meshes given directly (lon kept as written, so that +180 and -180 both occur)"""
    out = []
    # antimeridian strip: nodes on +180 and on -180, 170 .. -170
    lon = [170.0, 180.0, -170.0, 170.0, -180.0, -170.0, 170.0, 180.0, -170.0]
    lat = [-10.0, -10.0, -10.0, 0.0, 0.0, 0.0, 10.0, 10.0, 10.0]
    faces = [[0, 1, 4, 3], [1, 2, 5, 4], [3, 4, 7, 6], [4, 5, 8], [4, 8, 7]]
    out.append(("antimeridian", lon, lat, faces))
    # prime meridian / equator patch with a node at (0,0), nodes on lon 0, mixed triangle + quad + pentagon
    lon = [-10.0, 0.0, 10.0, -10.0, 0.0, 10.0, -10.0, 0.0, 10.0, 5.0]
    lat = [-10.0, -10.0, -10.0, 0.0, 0.0, 0.0, 10.0, 10.0, 10.0, 16.0]
    faces = [[0, 1, 4, 3], [1, 2, 5, 4], [3, 4, 7, 6], [4, 5, 8, 9, 7]]
    out.append(("prime", lon, lat, faces))
    # north polar cap: the pole is a node (given with an arbitrary longitude), ring at 80N incl. lon 180 and lon 0
    lon = [37.0, 0.0, 90.0, 180.0, -90.0, 45.0]
    lat = [90.0, 80.0, 80.0, 80.0, 80.0, 72.0]
    faces = [[0, 1, 2], [0, 2, 3], [0, 3, 4], [0, 4, 1], [1, 5, 2]]
    out.append(("north_cap", lon, lat, faces))
    # south pole node + a quad whose centre is exactly the south pole is avoided (degenerate); south fan + quad
    lon = [0.0, -180.0, -60.0, 60.0, 120.0]
    lat = [-90.0, -75.0, -75.0, -75.0, -70.0]
    faces = [[0, 2, 1], [0, 3, 2], [0, 1, 4, 3]]
    out.append(("south_cap", lon, lat, faces))
    # quad centred exactly on the north pole (centre is snapped), plus a neighbour triangle
    lon = [0.0, 90.0, 180.0, -90.0, 45.0]
    lat = [85.0, 85.0, 85.0, 85.0, 78.0]
    faces = [[0, 1, 2, 3], [0, 4, 1]]
    out.append(("pole_centred_quad", lon, lat, faces))
    res = []
    for name, lo, la, fl in out:
        res.append({"name": name, "lon": np.array(lo, float), "lat": np.array(la, float), "faces": mg.pad_faces(fl),
                    "n_node": len(lo), "n_face": len(fl)})
    return res


def _unit(v):
    return v / np.linalg.norm(v, axis=-1, keepdims=True)


def _vec(lon_deg, lat_deg):
    lo, la = np.deg2rad(np.asarray(lon_deg, float)), np.deg2rad(np.asarray(lat_deg, float))
    return np.stack([np.cos(lo) * np.cos(la), np.sin(lo) * np.cos(la), np.sin(la)], axis=-1)


def _lonlat(v):
    v = _unit(np.asarray(v, float))
    return np.rad2deg(np.arctan2(v[..., 1], v[..., 0])), np.rad2deg(np.arcsin(np.clip(v[..., 2], -1, 1)))


def _expect(mesh):
    """independent geometry: node unit vectors, sorted edge list, normalised-mean centres, 'off-centre' supplied centres"""
    U = _vec(mesh["lon"], mesh["lat"])
    edges = sorted(mg.edge_set(mesh["faces"]))
    E = np.array(edges, dtype=np.int64)
    edge_mean = _unit(U[E[:, 0]] + U[E[:, 1]])
    edge_sup = _unit(0.65 * U[E[:, 0]] + 0.35 * U[E[:, 1]])
    face_mean, face_sup = [], []
    for f in range(mesh["n_face"]):
        c = mg.face_corners(mesh, f)
        mean = U[c].mean(axis=0)
        face_mean.append(mean / np.linalg.norm(mean))
        s = 0.7 * mean + 0.3 * U[c[0]]
        face_sup.append(s / np.linalg.norm(s))
    return {"node": U, "edges": E, "edge_mean": edge_mean, "edge_sup": edge_sup, "face_mean": np.array(face_mean),
            "face_sup": np.array(face_sup)}


# ------------------------------------------------------------------------------------------------ grid construction
def _build(mesh, exp, node_prov, face_prov, edge_prov, lon360, radius, via_topology):
    """returns a FRESH grid; provenance values: nodes 'lonlat'|'xyz'|'both'; centres 'none'|'lonlat'|'xyz'|'both'"""
    def conv(lon):
        lon = np.array(lon, float)
        if lon360:
            lon = np.where(lon < 0, lon + 360.0, lon)
        return lon
    data = {}
    if node_prov in ("lonlat", "both"):
        lon = conv(mesh["lon"])
        if lon360 and mesh["name"] == "prime":
            lon[4] = 360.0                   # the node at (0, 0) written as 360
        data["node_lon"], data["node_lat"] = lon, np.array(mesh["lat"], float)
    if node_prov in ("xyz", "both"):
        for k, c in enumerate("xyz"):
            data[f"node_{c}"] = radius * exp["node"][:, k]
    for el, prov in (("face", face_prov), ("edge", edge_prov)):
        if prov == "none":
            continue
        sup = exp[f"{el}_sup"]
        if prov in ("lonlat", "both"):
            lo, la = _lonlat(sup)
            data[f"{el}_lon"], data[f"{el}_lat"] = conv(lo), la
        if prov in ("xyz", "both"):
            for k, c in enumerate("xyz"):
                data[f"{el}_{c}"] = radius * sup[:, k]
    supply_edges = edge_prov != "none"
    if via_topology and node_prov != "xyz":
        kw = {k: v for k, v in data.items() if k not in ("node_lon", "node_lat")}
        if supply_edges:
            kw["edge_node_connectivity"] = exp["edges"].copy()
        return ux.Grid.from_topology(node_lon=data["node_lon"], node_lat=data["node_lat"],
                                     face_node_connectivity=mesh["faces"].copy(), fill_value=FILL, **kw)
    dv = {k: (["n_" + k.split("_")[0]], np.array(v, float)) for k, v in data.items()}
    dv["face_node_connectivity"] = (["n_face", "n_max_face_nodes"], mesh["faces"].copy(),
                                    {"cf_role": "face_node_connectivity", "_FillValue": FILL, "start_index": 0})
    if supply_edges:
        dv["edge_node_connectivity"] = (["n_edge", "two"], exp["edges"].copy())
    ds = xr.Dataset(data_vars=dv)
    return ux.Grid.from_dataset(ds, source_grid_spec="UGRID")


# ------------------------------------------------------------------------------------------------ checks
def _chord_tol(expected_dir):
    """per point tolerance: TOL, or the snap displacement where the point lies in the pole-snap zone"""
    z = np.abs(expected_dir[..., 2])
    return np.where(z > 1.0 - 2 * SNAP, SNAP_CHORD, TOL)


class _Run:
    def __init__(self):
        self.failures = []
        self.cases = 0

    def fail(self, key, what, violated, inputs, observed=None, expected=None):
        self.failures.append({"key": key, "what": what, "violated": violated, "inputs": inputs,
                              "observed": observed, "expected": expected})


def _edge_order(g, exp):
    """map the grid's edge ids to the oracle's sorted edge list (by node pair); None if the edge sets differ (C02, not C04)"""
    en = np.asarray(g.edge_node_connectivity.values)
    idx = {tuple(e): i for i, e in enumerate(map(tuple, np.sort(exp["edges"], axis=1)))}
    order = []
    for row in np.sort(en, axis=1):
        t = (int(row[0]), int(row[1]))
        if t not in idx:
            return None
        order.append(idx[t])
    if sorted(order) != list(range(len(idx))):
        return None
    return np.array(order)


def _one(run, mesh, exp, scen, seq):
    node_prov, face_prov, edge_prov, lon360, radius, via_top = scen
    inputs = {"mesh": mesh["name"], "nodes": node_prov, "face_centres": face_prov, "edge_centres": edge_prov,
              "lon_0_360": lon360, "radius_of_supplied_xyz": radius, "constructor": "from_topology" if via_top and node_prov != "xyz" else "from_dataset",
              "access_order": list(seq)}
    prov = {"node": node_prov, "face": face_prov, "edge": edge_prov}

    def scen_of(el):
        if el == "node":
            return f"nodes={node_prov}"
        if prov[el] == "none":
            return f"{el}_centres=none,nodes={node_prov}"
        return f"{el}_centres={prov[el]}"
    rad = "" if radius == 1.0 else ",supplied_xyz_radius!=1"
    try:
        g = _build(mesh, exp, *scen)
    except Exception as e:  # noqa: BLE001
        run.cases += 1
        run.fail(f"raises:{type(e).__name__}:construct:nodes={node_prov},face={face_prov},edge={edge_prov}",
                 f"constructing the grid raises {type(e).__name__}: {e}", "a Grid reports positions for every provenance",
                 inputs)
        return
    first = {}
    log = []               # every property read so far, in order
    last_seen = {}         # property -> position in log of its last read

    def read(p, site):
        try:
            v = np.array(getattr(g, p).values, dtype=float, copy=True)
        except Exception as e:  # noqa: BLE001
            run.fail(f"raises:{type(e).__name__}:{p}:{scen_of(p.split('_')[0])}{rad}",
                     f"reading {p} raises {type(e).__name__}: {e}", "every position can be read in both systems", inputs)
            return None
        log.append(p)
        el, c = p.split("_")
        if c in ("lon", "lat"):
            run.cases += 1
            lim = 180.0 if c == "lon" else 90.0
            if not (np.all(np.isfinite(v)) and np.all(np.abs(v) <= lim)):
                run.fail(f"{c}_range:{p}:{scen_of(el)}{rad if (prov[el] == 'xyz' and c == 'lat') else ''}",
                         f"{p} outside [-{lim:g},{lim:g}] or not finite (read after {log[:-1][-4:]})",
                         "all longitudes are reported in [-180, 180] and latitudes in [-90, 90]",
                         dict(inputs, reads_before=log[:-1]), observed=v.tolist()[:8])
        return v

    def stable_check():
        for q, v0 in list(first.items()):
            since = log[last_seen[q] + 1:]
            v1 = read(q, "reread")
            run.cases += 1
            if v1 is None:
                continue
            last_seen[q] = len(log) - 1
            if v0.shape != v1.shape or not np.array_equal(v0, v1, equal_nan=True):
                el = q.split("_")[0]
                run.fail(f"value_changes:{q}:{scen_of(el)}",
                         f"{q} returns different values after reading {sorted(set(since))}",
                         "reading never changes reported values (read A, read B, read A again: identical)",
                         dict(inputs, reads_between=since), observed={"first": v0.tolist()[:6], "later": v1.tolist()[:6]})
                first[q] = v1          # report each change once

    for p in seq:
        v = read(p, "seq")
        if v is None:
            return
        if p not in first:
            first[p] = v
            last_seen[p] = len(log) - 1
        stable_check()
    # now read everything
    for p in PROPS:
        if p in first:
            continue
        v = read(p, "all")
        if v is None:
            return
        first[p] = v
        last_seen[p] = len(log) - 1
    stable_check()
    order = _edge_order(g, exp)
    vals = {p: read(p, "final") for p in PROPS}
    if any(v is None for v in vals.values()):
        return
    for el in ELEMS:
        lon, lat = vals[f"{el}_lon"], vals[f"{el}_lat"]
        xyz = np.stack([vals[f"{el}_x"], vals[f"{el}_y"], vals[f"{el}_z"]], axis=-1)
        sc = scen_of(el)
        # ---- unit length of derived Cartesian coordinates
        r = np.linalg.norm(xyz, axis=-1)
        derived_xyz = prov[el] in ("lonlat", "none")
        run.cases += 1
        if derived_xyz and not np.allclose(r, 1.0, rtol=0, atol=1e-9):
            run.fail(f"unit_length:{el}_xyz:{sc}", f"derived {el}_x/y/z are not unit vectors",
                     "derived Cartesian coordinates have unit length", inputs, observed=r.tolist()[:8])
        if not derived_xyz:
            run.cases += 1
            if not np.allclose(r, radius, rtol=1e-12, atol=0):
                run.fail(f"supplied_xyz_changed:{el}:{sc}{rad}", f"supplied {el} Cartesian coordinates changed length on read",
                         "positions supplied by the source are reported as supplied", inputs, observed=r.tolist()[:8])
        # ---- same direction
        if el == "edge" and order is None:
            continue
        E = exp["node"] if el == "node" else (exp[f"{el}_mean"] if prov[el] == "none" else exp[f"{el}_sup"])
        if el == "edge":
            E = E[order]
        finite = np.all(np.isfinite(xyz), axis=-1) & np.isfinite(lon) & np.isfinite(lat) & (r > 0)
        v_ll = _vec(np.where(finite, lon, 0.0), np.where(finite, lat, 0.0))
        v_c = xyz / np.where(r > 0, r, 1.0)[:, None]
        tol = _chord_tol(E)
        chord = np.linalg.norm(v_ll - v_c, axis=-1)
        run.cases += 1
        same = bool(np.all(finite) and np.all(chord <= tol))
        if not same:
            i = int(np.argmax(np.where(finite, chord - tol, np.inf)))
            run.fail(f"same_direction:{el}:{sc}{rad}",
                     f"({el}_lon,{el}_lat) and ({el}_x,y,z) denote different directions (chord {float(chord[i]) if finite[i] else 'nan'})",
                     "(lon, lat) in degrees and (x, y, z) denote the same direction on the unit sphere", inputs,
                     observed={"index": i, "lon": float(lon[i]), "lat": float(lat[i]), "xyz": xyz[i].tolist()},
                     expected={"direction": E[i].tolist()})
            continue
        ch2 = np.linalg.norm(v_ll - E, axis=-1)
        run.cases += 1
        if not np.all(ch2 <= tol):
            i = int(np.argmax(ch2 - tol))
            clause = ("centres the source does not supply are the normalised mean of the element's corner unit vectors"
                      if (el != "node" and prov[el] == "none") else "the position supplied by the source is the position reported")
            name = "centre_is_normalised_mean" if (el != "node" and prov[el] == "none") else "supplied_position"
            run.fail(f"{name}:{el}:{sc}{rad}", f"{el} position differs from the expected direction (chord {float(ch2[i])})",
                     clause, inputs, observed={"index": i, "lon": float(lon[i]), "lat": float(lat[i])},
                     expected=dict(zip(("lon", "lat"), map(float, _lonlat(E[i])))))
    # ---- _check_normalization / normalize_cartesian_coordinates
    from uxarray.grid.validation import _check_normalization

    def stored_norms():
        out = {}
        for el in ELEMS:
            if all(f"{el}_{c}" in g._ds for c in "xyz"):
                out[el] = np.sqrt(sum(np.asarray(g._ds[f"{el}_{c}"].values, float) ** 2 for c in "xyz"))
        return out

    def nonunit(norms):
        return [el for el, r in norms.items() if not np.allclose(r, 1.0, rtol=0, atol=1e-6)]
    before = {p: vals[p].copy() for p in PROPS}
    try:
        claim = bool(_check_normalization(g))
    except Exception as e:  # noqa: BLE001
        run.fail(f"raises:{type(e).__name__}:_check_normalization", f"_check_normalization raises {e}", "returns a bool", inputs)
        return
    run.cases += 1
    bad = nonunit(stored_norms())
    for el in (bad if claim else []):
        run.fail(f"check_normalization_true_but_nonunit:{el}",
                 f"_check_normalization returns True although the stored {el}_x/y/z are not unit vectors",
                 "_check_normalization returns True only if every stored Cartesian triple has unit length", inputs,
                 observed={e: r.tolist()[:4] for e, r in stored_norms().items()})
    try:
        g.normalize_cartesian_coordinates()
    except Exception as e:  # noqa: BLE001
        run.fail(f"raises:{type(e).__name__}:normalize_cartesian_coordinates", f"normalize_cartesian_coordinates raises {e}",
                 "normalising changes lengths only", inputs)
        return
    after = {p: read(p, "after_normalize") for p in PROPS}
    if any(v is None for v in after.values()):
        return
    for el in ELEMS:
        b = np.stack([before[f"{el}_{c}"] for c in "xyz"], axis=-1)
        a = np.stack([after[f"{el}_{c}"] for c in "xyz"], axis=-1)
        run.cases += 1
        ok = np.all(np.isfinite(b)) and np.all(np.linalg.norm(b, axis=-1) > 0)
        if ok and not np.allclose(_unit(a), _unit(b), rtol=0, atol=1e-12):
            run.fail(f"normalize_changes_direction:{el}:{scen_of(el)}{rad}", f"normalize_cartesian_coordinates changes the direction of {el} coordinates",
                     "normalising Cartesian coordinates changes lengths only", inputs)
        for c in ("lon", "lat"):
            run.cases += 1
            if not np.array_equal(before[f"{el}_{c}"], after[f"{el}_{c}"], equal_nan=True):
                run.fail(f"normalize_changes_lonlat:{el}_{c}:{scen_of(el)}{rad}", f"normalize_cartesian_coordinates changes {el}_{c}",
                         "normalising Cartesian coordinates changes lengths only", inputs)
    run.cases += 1
    bad = nonunit(stored_norms())
    try:
        claim2 = bool(_check_normalization(g))
    except Exception:  # noqa: BLE001
        claim2 = False
    for el in (bad if claim2 else []):
        run.fail(f"normalized_claimed_after_normalize_but_nonunit:{el}",
                 f"after normalize_cartesian_coordinates() _check_normalization is True but the stored {el}_x/y/z are not unit",
                 "_check_normalization returns True only if every stored Cartesian triple has unit length", inputs,
                 observed={e: r.tolist()[:4] for e, r in stored_norms().items()})


def _scenarios(tier):
    out = []
    k = 0
    for node_prov in ("lonlat", "xyz", "both"):
        for face_prov in ("none", "lonlat", "xyz", "both"):
            for edge_prov in ("none", "lonlat", "xyz", "both"):
                for lon360 in (False, True):
                    if lon360 and node_prov == "xyz" and face_prov in ("none", "xyz") and edge_prov in ("none", "xyz"):
                        continue                  # no longitude is supplied at all
                    k += 1
                    out.append((node_prov, face_prov, edge_prov, lon360, 1.0, k % 2 == 0))
    # supplied Cartesian coordinates that are not unit length (a sphere of radius R): only where xyz is supplied
    for node_prov, face_prov, edge_prov in (("xyz", "none", "none"), ("both", "none", "none"), ("lonlat", "xyz", "none"),
                                            ("lonlat", "none", "xyz"), ("lonlat", "both", "both"), ("xyz", "xyz", "xyz"),
                                            ("both", "both", "both")):
        out.append((node_prov, face_prov, edge_prov, False, 2.0, False))
    return out


def coords(tier, seed):
    rng = random.Random(seed * 1009 + 4)
    meshes = _meshes()
    exps = [_expect(m) for m in meshes]
    scen = _scenarios(tier)
    run = _Run()
    distinct = set()
    samples = []
    # access orders: every ordered pair of representative properties is covered exhaustively (spread over the scenarios),
    # plus random sequences of length 3 and 4 over all 15 properties
    pairs = [()] + [(a,) for a in REPS_QUICK] + list(itertools.permutations(REPS_QUICK[:7], 2))
    if tier == "quick":
        per_scen_pairs, n_rand = 4, 3
    else:
        per_scen_pairs, n_rand = len(pairs), 60
    pi = seed
    for s_i, sc in enumerate(scen):
        seqs = []
        for _ in range(per_scen_pairs):
            seqs.append(pairs[pi % len(pairs)])
            pi += 1
        # orders known to matter structurally: node first then a centre longitude, and the reverse
        seqs += [("node_lon", "edge_lon", "node_lon"), ("face_x", "face_lon"), ("edge_x", "edge_lat")]
        for _ in range(n_rand):
            n = rng.choice([3, 4, 4])
            seqs.append(tuple(rng.sample(PROPS, n)))
        for q_i, seq in enumerate(seqs):
            m_i = (s_i + q_i + seed) % len(meshes)
            key = (sc, seq, m_i)
            if key in distinct:
                continue
            distinct.add(key)
            _one(run, meshes[m_i], exps[m_i], sc, seq)
            if len(samples) < 3:
                samples.append({"mesh": meshes[m_i]["name"], "scenario": list(sc), "access_order": list(seq)})
    # ---- Cartesian corners given as INTEGER arrays (a grid keeps the dtype it is handed): after normalize_cartesian_coordinates() the
    #      stored node_x/y/z are unit vectors in the direction of the corners given, and they agree with node_lon / node_lat whichever was
    #      read first
    import uxarray as ux
    iverts = np.array([[[3, 1, 2], [4, 1, 2], [4, 2, 2], [3, 2, 2]], [[4, 1, 2], [5, 1, 1], [5, 2, 1], [4, 2, 2]],
                       [[-3, 1, -2], [-3, 2, -2], [-4, 2, -2], [-4, 1, -2]]], dtype=np.int64)
    for first in ("lonlat_before_normalize", "normalize_first"):
        run.cases += 1
        distinct.add(("integer_xyz", first))
        inputs = {"construction": "Grid.from_face_vertices(int64 xyz, latlon=False)", "order": first}
        try:
            g = ux.Grid.from_face_vertices(iverts.copy(), latlon=False)
            raw = np.stack([np.asarray(g.node_x.values, float), np.asarray(g.node_y.values, float), np.asarray(g.node_z.values, float)], axis=1)
            want = raw / np.linalg.norm(raw, axis=1, keepdims=True)
            if first == "lonlat_before_normalize":
                g.node_lon, g.node_lat
            g.normalize_cartesian_coordinates()
            P = np.stack([np.asarray(g.node_x.values, float), np.asarray(g.node_y.values, float), np.asarray(g.node_z.values, float)], axis=1)
            L = _vec(np.asarray(g.node_lon.values, float), np.asarray(g.node_lat.values, float))
        except Exception as e:  # noqa: BLE001
            run.fail(f"raises:{type(e).__name__}:integer_xyz:{first}", f"integer Cartesian corners: {type(e).__name__}: {e}"[:200],
                     "spherical and Cartesian coordinates of the same element denote the same point", inputs)
            continue
        if not np.allclose(P, want, rtol=0, atol=1e-12):
            run.fail("normalize_changes_direction:node:integer_xyz", "after normalize_cartesian_coordinates() the node_x/y/z of a grid given by integer "
                     "Cartesian corners are not the unit vectors in the direction of those corners", "Cartesian coordinates are unit vectors in the direction given",
                     inputs, np.round(P[:3], 6).tolist(), np.round(want[:3], 6).tolist())
        elif not np.allclose(L, want, rtol=0, atol=1e-9):
            run.fail("lonlat_xyz_disagree:node:integer_xyz", "node_lon / node_lat and node_x/y/z of a grid given by integer Cartesian corners denote different points",
                     "spherical and Cartesian coordinates of the same element denote the same point", inputs, np.round(L[:3], 6).tolist(), np.round(want[:3], 6).tolist())
    bound = (f"{len(scen)} provenance scenarios (nodes lonlat/xyz/both x face centres none/lonlat/xyz/both x edge centres "
             f"none/lonlat/xyz/both x lon in [-180,180] / 0..360, plus 7 with supplied xyz of radius 2) x "
             f"{'4 of the 73 ordered prefixes of <=2 representative properties + 3 fixed + 3 random orders of 3-4 of the 15 properties per scenario' if tier == 'quick' else 'all 73 ordered prefixes of <=2 of 9 representative properties + 3 fixed + 60 random orders of 3-4 of the 15 properties per scenario'}"
             f" on 5 meshes (antimeridian strip with +180 and -180 nodes, prime meridian patch incl. lon 360, north and south polar fans "
             f"with pole nodes, pole-centred quad); NUMBA JIT disabled")
    return result(run.cases, len(distinct), run.failures, bound, samples)



def consumers(tier, seed):
    """the coordinates a grid reports are unchanged by operations that only read them (shared machinery: standins.C03.consumers - every watched variable is compared with a copy taken before each of 20
    read-only operations: differences, gradients, aggregations, integration, remapping, subsetting, tree queries, plotting
    conversions, exports, area / bounds / dual construction)"""
    from .C03 import consumers as _consumers
    return _consumers(tier, seed, tables=('node_lon', 'node_lat', 'node_x', 'node_y', 'node_z', 'face_lon', 'face_lat', 'face_x', 'face_y', 'face_z', 'edge_lon', 'edge_lat', 'edge_x', 'edge_y', 'edge_z'), oracle_after=False)
