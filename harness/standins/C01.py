"""C01 bounded stand-in: every reader decodes a source to the faces the source describes, in standard form.

For each mesh of the catalogue an IN-MEMORY source in each supported format is written by the encoders below (the
encoders are the independent oracle: what was encoded is what the source describes) in every dialect the format permits,
opened through the public entry points (ux.open_grid / Grid.from_topology / Grid.from_face_vertices / Grid.from_file) and
the resulting Grid is compared with the mesh:

  open            opening a well-formed source does not raise
  n_face          same number of faces
  faces           face i has the corner POSITIONS of source face i in the same cyclic order (positions compared as
                  unit vectors, tolerance 1e-9 degree; node ids are not compared because some readers merge nodes)
  standard_form   face_node_connectivity: dtype np.intp, FILL only at the row ends, every other entry in [0, n_node)
  lonlat_range    node (and supplied centre) longitudes in [-180, 180], latitudes in [-90, 90]
  carried:<name>  explicitly supplied connectivity / centres / areas are reported with the same meaning

A failing (format, dialect, clause) is reduced before it is reported: dialect axes are reset to the format's baseline one
by one while the clause keeps failing, and the mesh is replaced by a canonical uniform / mixed probe mesh when that still
fails, so that the key names the clause and the smallest set of dialect choices that triggers it (stable across seeds).
"""
import itertools
import json
import math
import os
import random
import tempfile

import numpy as np
import xarray as xr

from . import meshgen as mg
from .common import FILL, result, ux

TOL_CHORD = math.radians(1e-9) * 1.2          # 1e-9 degree as a chord length on the unit sphere (plus 20 % slack)
MAX_FACES = 30


# ------------------------------------------------------------------------------------------------ oracle helpers
def _xyz(lon, lat):
    x, y, z = mg.xyz_of(np.asarray(lon, float), np.asarray(lat, float))
    return np.stack([x, y, z], axis=-1)


def _corner_lists(mesh):
    return [mg.face_corners(mesh, f) for f in range(mesh["n_face"])]


def _mesh_faces_xyz(mesh, order=None):
    P = _xyz(mesh["lon"], mesh["lat"])
    cl = _corner_lists(mesh)
    order = range(len(cl)) if order is None else order
    return [P[cl[f]] for f in order]


def _centroids(mesh):
    """a plausible explicit face-centre table (normalised mean of the corners), lon/lat in degrees"""
    P = _xyz(mesh["lon"], mesh["lat"])
    c = np.array([P[cs].mean(axis=0) for cs in _corner_lists(mesh)])
    lon, lat = mg.lonlat_of(c[:, 0], c[:, 1], c[:, 2])
    return lon, lat


def _edges(mesh):
    """sorted edge list, edge -> faces, face -> edges (edge j joins corner j and j+1), face -> neighbour across edge j"""
    cl = _corner_lists(mesh)
    edges = sorted(mg.edge_set(mesh["faces"]))
    eid = {e: i for i, e in enumerate(edges)}
    e_faces = [[] for _ in edges]
    f_edges = []
    for f, c in enumerate(cl):
        row = []
        for j in range(len(c)):
            e = eid[tuple(sorted((c[j], c[(j + 1) % len(c)])))]
            row.append(e)
            e_faces[e].append(f)
        f_edges.append(row)
    f_faces = []
    for f, row in enumerate(f_edges):
        f_faces.append([next((g for g in e_faces[e] if g != f), None) for e in row])
    return edges, e_faces, f_edges, f_faces


def _node_faces(mesh):
    out = [[] for _ in range(mesh["n_node"])]
    for f, c in enumerate(_corner_lists(mesh)):
        for v in c:
            out[v].append(f)
    return out


def _edge_mid(mesh, edges):
    P = _xyz(mesh["lon"], mesh["lat"])
    m = np.array([(P[a] + P[b]) / 2 for a, b in edges])
    return mg.lonlat_of(m[:, 0], m[:, 1], m[:, 2])


def _lon_conv(lon, conv):
    lon = np.asarray(lon, float)
    return np.where(lon < 0, lon + 360.0, lon) if conv == "0..360" else lon.copy()


def _table(rows, width, offset, pad, dtype, repeat_last=False):
    """rows of 0-based ids -> (n, width) table with ids + offset and padding"""
    out = np.empty((len(rows), width), dtype=np.float64 if dtype == "float64" else dtype)
    for i, r in enumerate(rows):
        vals = [v + offset for v in r]
        fillv = vals[-1] if (repeat_last and vals) else pad
        out[i, :] = vals + [fillv] * (width - len(vals))
    return out


def _is_mixed(mesh):
    return len(set(mg.npf(mesh["faces"]).tolist())) > 1


# ------------------------------------------------------------------------------------------------ evaluation
class _UxError(Exception):
    """an exception raised by uxarray code (as opposed to a bug of this stand-in)"""

    def __init__(self, where, exc):
        super().__init__(f"{where}: {type(exc).__name__}: {exc}")
        self.where, self.exc = where, exc


def _ux(where, fn):
    try:
        return fn()
    except Exception as e:  # noqa: BLE001 - the call is a uxarray call by construction
        raise _UxError(where, e)


def _cyclic_match(got, exp, either=False):
    """got, exp: (k,3) unit vectors; True iff got is a rotation of exp (optionally also of reversed exp)"""
    k = len(exp)
    if len(got) != k:
        return False
    cands = [exp] + ([exp[::-1]] if either else [])
    for e in cands:
        for s in range(k):
            if np.max(np.linalg.norm(got - np.roll(e, -s, axis=0), axis=1)) <= TOL_CHORD:
                return True
    return False


def _ll(a):
    lo, la = mg.lonlat_of(a[:, 0], a[:, 1], a[:, 2])
    return np.stack([lo, la], axis=1).round(6).tolist() if len(a) else []


def _decoded_faces(fnc, lon, lat):
    """-> (list of (k,3) corner arrays, None) or (None, failure) when an entry is no usable node index"""
    P = _xyz(lon, lat)
    out = []
    for i, row in enumerate(fnc):
        if np.issubdtype(fnc.dtype, np.floating):
            ids = [int(v) for v in row if np.isfinite(v) and v != FILL]
        else:
            ids = [int(v) for v in row if v != FILL]
        if any(v < 0 or v >= len(lon) for v in ids):
            return None, {"kind": "positions", "observed": f"face {i}: node ids {ids} (n_node={len(lon)})",
                          "expected": "indices of the source's corners"}
        out.append(P[ids] if ids else np.zeros((0, 3)))
    return out, None


def _match_unordered(got, exp, either):
    used = [False] * len(got)
    for i, e in enumerate(exp):
        hit = next((j for j, g in enumerate(got) if not used[j] and len(g) == len(e) and _cyclic_match(g, e, either)), None)
        if hit is None:
            return i
        used[hit] = True
    return None


def _classify(g, e):
    if len(g) != len(e):
        return "n_corners"
    near = lambda a, B: any(np.linalg.norm(a - b) <= TOL_CHORD for b in B)  # noqa: E731
    if all(near(a, e) for a in g) and all(near(b, g) for b in e):
        return "cyclic_order"
    return "positions"


def _compare_faces(got, exp, ordered=True, either=False):
    """got, exp: lists of (k,3) unit-vector arrays.  None if equal, else dict(kind, observed, expected); kind is one of
    n_face | face_order | n_corners | cyclic_order | positions (a node id outside [0, n_node) also counts as a wrong position)"""
    if len(got) != len(exp):
        return {"kind": "n_face", "observed": f"{len(got)} faces", "expected": f"{len(exp)} faces"}
    if ordered:
        bad = next((i for i, (g, e) in enumerate(zip(got, exp)) if not _cyclic_match(g, e, either)), None)
        if bad is None:
            return None
        if _match_unordered(got, exp, either) is None:
            return {"kind": "face_order", "observed": f"face {bad} is a different source face", "expected": "faces in source order"}
        return {"kind": _classify(got[bad], exp[bad]), "observed": f"face {bad} corners (lon,lat) {_ll(got[bad])}",
                "expected": f"cyclic rotation of {_ll(exp[bad])}"}
    bad = _match_unordered(got, exp, either)
    if bad is None:
        return None
    # closest decoded face (by corner sets) tells what went wrong
    kinds = [_classify(g, exp[bad]) for g in got]
    kind = "cyclic_order" if "cyclic_order" in kinds else ("positions" if "positions" in kinds else "n_corners")
    return {"kind": kind, "observed": f"no decoded face equals source face {bad}; decoded sizes {sorted({len(g) for g in got})}",
            "expected": f"some face with corners {_ll(exp[bad])}"}


def _rows_equal(table, rows, n_valid):
    """table: int array (n, w) with FILL; rows: expected lists; compares the multiset of non-FILL entries per row"""
    table = np.asarray(table)
    if table.ndim != 2 or table.shape[0] != len(rows):
        return f"shape {table.shape} for {len(rows)} rows"
    for i, r in enumerate(rows):
        if np.issubdtype(table.dtype, np.floating):
            got = [int(v) for v in table[i] if np.isfinite(v) and v != FILL]
            if np.isnan(table[i]).any() and len(got) + int(np.isnan(table[i]).sum()) != table.shape[1]:
                return f"row {i}"
        else:
            got = [int(v) for v in table[i] if v != FILL]
        if sorted(got) != sorted(int(v) for v in r if v is not None):
            return f"row {i}: got {sorted(got)} expected {sorted(int(v) for v in r if v is not None)}"
    return None


def _evaluate(grid, exp):
    """-> dict clause -> None (holds) | dict(observed, expected)"""
    out = {}
    faces = exp["faces"]
    n_face = _ux("Grid.n_face", lambda: int(grid.n_face))
    out["n_face"] = None if n_face == len(faces) else {"observed": n_face, "expected": len(faces)}
    fnc_da = _ux("Grid.face_node_connectivity", lambda: grid.face_node_connectivity)
    fnc = np.asarray(fnc_da.values)
    lon = np.asarray(_ux("Grid.node_lon", lambda: grid.node_lon.values), float)
    lat = np.asarray(_ux("Grid.node_lat", lambda: grid.node_lat.values), float)
    n_node = len(lon)

    # standard form
    bad = None
    if fnc.dtype != np.intp:
        bad = {"observed": f"dtype {fnc.dtype}", "expected": "dtype intp (int64)"}
    elif fnc.ndim != 2:
        bad = {"observed": f"ndim {fnc.ndim}", "expected": "2-d table"}
    else:
        for i, row in enumerate(fnc):
            real = row != FILL
            k = int(real.sum())
            if k == 0 or not real[:k].all():
                bad = {"observed": f"row {i} = {row.tolist()}", "expected": "FILL only at the row end"}
                break
            if (row[:k] < 0).any() or (row[:k] >= n_node).any():
                bad = {"observed": f"row {i} = {row.tolist()} with n_node={n_node}", "expected": "0 <= index < n_node"}
                break
            if len(set(row[:k].tolist())) != k:
                bad = {"observed": f"row {i} = {row.tolist()} repeats a node", "expected": "a face lists each corner once, padding is FILL"}
                break
    out["standard_form"] = bad

    # faces: same positions in the same cyclic order, same face order
    if fnc.ndim != 2:
        bad = {"kind": "n_face", "observed": f"table shape {fnc.shape}", "expected": f"{len(faces)} rows"}
    else:
        got, bad = _decoded_faces(fnc, lon, lat)
        if bad is None:
            bad = _compare_faces(got, faces, ordered=True, either=exp.get("either_orientation", False))
    if not (bad is not None and bad.get("kind") == "n_face" and out["n_face"] is not None):   # already reported by n_face
        out["faces"] = bad

    # coordinate ranges
    bad = None
    eps = 1e-12
    if not (np.all(np.isfinite(lon)) and np.all(np.isfinite(lat))):
        bad = {"observed": "non-finite node coordinates", "expected": "finite"}
    elif lon.min() < -180 - eps or lon.max() > 180 + eps:
        bad = {"observed": f"node_lon in [{lon.min():.6f}, {lon.max():.6f}]", "expected": "[-180, 180]"}
    elif lat.min() < -90 - eps or lat.max() > 90 + eps:
        bad = {"observed": f"node_lat in [{lat.min():.6f}, {lat.max():.6f}]", "expected": "[-90, 90]"}
    out["lonlat_range"] = bad

    # explicitly supplied tables / centres / areas
    for name, rows in exp.get("rows", {}).items():
        tab = _ux(f"Grid.{name}", lambda: getattr(grid, name).values)
        msg = _rows_equal(tab, rows, None)
        out[f"carried:{name}"] = None if msg is None else {"observed": msg, "expected": "the source's table, zero-based, FILL padded"}
    for kind, (clon, clat) in exp.get("centres", {}).items():
        glon = np.asarray(_ux(f"Grid.{kind}_lon", lambda: getattr(grid, f"{kind}_lon").values), float)
        glat = np.asarray(_ux(f"Grid.{kind}_lat", lambda: getattr(grid, f"{kind}_lat").values), float)
        bad = None
        if glon.shape != np.shape(clon):
            bad = {"observed": f"shape {glon.shape}", "expected": f"{np.shape(clon)}"}
        elif np.max(np.linalg.norm(_xyz(glon, glat) - _xyz(clon, clat), axis=1)) > TOL_CHORD:
            k = int(np.argmax(np.linalg.norm(_xyz(glon, glat) - _xyz(clon, clat), axis=1)))
            bad = {"observed": f"{kind} {k} centre ({glon[k]:.6f}, {glat[k]:.6f})", "expected": f"({clon[k]:.6f}, {clat[k]:.6f})"}
        elif glon.min() < -180 - eps or glon.max() > 180 + eps:
            bad = {"observed": f"{kind}_lon in [{glon.min():.6f}, {glon.max():.6f}]", "expected": "[-180, 180]"}
        out[f"carried:{kind}_centres"] = bad
    if "areas" in exp:
        a = np.asarray(_ux("Grid.face_areas", lambda: grid.face_areas.values), float)
        ok = a.shape == exp["areas"].shape and np.allclose(a, exp["areas"], rtol=1e-12, atol=0)
        out["carried:face_areas"] = None if ok else {"observed": a[:4].tolist(), "expected": exp["areas"][:4].tolist()}
    return out


def _run(fmt, mesh, dialect):
    """-> dict clause -> None | failure description; clause 'open' covers exceptions of uxarray anywhere"""
    opener, exp = FORMATS[fmt]["build"](mesh, dialect)
    try:
        grid = _ux("open", opener)
        res = _evaluate(grid, exp)
        res["open"] = None
        return res
    except _UxError as e:
        return {"open": {"observed": str(e)[:300], "expected": "a Grid with the source's faces", "exc": type(e.exc).__name__, "where": e.where}}


# ------------------------------------------------------------------------------------------------ UGRID
_UGRID_NAMES = {
    "uxarray": dict(topo="grid_topology", lon="node_lon", lat="node_lat", fnc="face_node_connectivity", nnode="n_node",
                    nface="n_face", nmax="n_max_face_nodes", enc="edge_node_connectivity", efc="edge_face_connectivity",
                    nedge="n_edge", two="two", flon="face_lon", flat="face_lat"),
    "Mesh2": dict(topo="Mesh2", lon="Mesh2_node_x", lat="Mesh2_node_y", fnc="Mesh2_face_nodes", nnode="nMesh2_node",
                  nface="nMesh2_face", nmax="nMaxMesh2_face_nodes", enc="Mesh2_edge_nodes", efc="Mesh2_edge_faces",
                  nedge="nMesh2_edge", two="Two", flon="Mesh2_face_x", flat="Mesh2_face_y"),
    "arbitrary": dict(topo="topo", lon="vx", lat="vy", fnc="cells", nnode="a", nface="b", nmax="c", enc="segs",
                      efc="seg_cells", nedge="d", two="e", flon="cx", flat="cy"),
}
_FILLS = {"-1": -1, "FILL": FILL, "999999": 999999, "nan": np.nan, "nan(no _FillValue attr)": np.nan, "absent": None}


def _ugrid_axes(mesh):
    return {"start_index": [0, 1, "absent"], "fill": ["-1", "FILL", "999999", "nan", "nan(no _FillValue attr)", "absent"],
            "dtype": ["int64", "int32", "float64"], "names": ["uxarray", "Mesh2", "arbitrary"],
            "lon": ["-180..180", "0..360"], "extras": [True, False]}


def _fill_ok(fill, dtype, mixed):
    if fill.startswith("nan"):
        return dtype == "float64"
    if fill == "FILL":
        return dtype != "int32"
    if fill == "absent":
        return not mixed
    return True


def _ugrid_valid(mesh, d):
    return _fill_ok(d["fill"], d["dtype"], _is_mixed(mesh))


def _conn_attrs(d, role):
    at = {"cf_role": role}
    if d["start_index"] != "absent":
        at["start_index"] = np.int32(d["start_index"]) if d["dtype"] == "int32" else int(d["start_index"])
    if d["fill"] not in ("absent", "nan(no _FillValue attr)"):   # the latter: what xarray's mask_and_scale decoding produces
        fv = _FILLS[d["fill"]]
        at["_FillValue"] = fv if d["fill"] == "nan" else (np.int32(fv) if d["dtype"] == "int32" else (float(fv) if d["dtype"] == "float64" else int(fv)))
    return at


def _ugrid_build(mesh, d):
    nm = _UGRID_NAMES[d["names"]]
    off = 1 if d["start_index"] == 1 else 0
    pad = _FILLS[d["fill"]] if d["fill"] != "absent" else 0
    cl = _corner_lists(mesh)
    W = mesh["faces"].shape[1]
    ds = xr.Dataset()
    topo = {"cf_role": "mesh_topology", "topology_dimension": 2, "node_coordinates": f"{nm['lon']} {nm['lat']}",
            "face_node_connectivity": nm["fnc"], "face_dimension": nm["nface"]}
    ds[nm["lon"]] = xr.DataArray(_lon_conv(mesh["lon"], d["lon"]), dims=[nm["nnode"]],
                                 attrs={"standard_name": "longitude", "units": "degrees_east"})
    ds[nm["lat"]] = xr.DataArray(np.array(mesh["lat"], float), dims=[nm["nnode"]],
                                 attrs={"standard_name": "latitude", "units": "degrees_north"})
    ds[nm["fnc"]] = xr.DataArray(_table(cl, W, off, pad, d["dtype"]), dims=[nm["nface"], nm["nmax"]],
                                 attrs=_conn_attrs(d, "face_node_connectivity"))
    exp = {"faces": _mesh_faces_xyz(mesh)}
    if d["extras"]:
        edges, e_faces, f_edges, f_faces = _edges(mesh)
        ds[nm["enc"]] = xr.DataArray(_table([list(e) for e in edges], 2, off, pad, d["dtype"]), dims=[nm["nedge"], nm["two"]],
                                     attrs=_conn_attrs(d, "edge_node_connectivity"))
        topo["edge_node_connectivity"] = nm["enc"]
        topo["edge_dimension"] = nm["nedge"]
        exp["rows"] = {"edge_node_connectivity": [list(e) for e in edges]}
        if d["fill"] != "absent" or all(len(x) == 2 for x in e_faces):
            ds[nm["efc"]] = xr.DataArray(_table(e_faces, 2, off, pad, d["dtype"]), dims=[nm["nedge"], nm["two"]],
                                         attrs=_conn_attrs(d, "edge_face_connectivity"))
            topo["edge_face_connectivity"] = nm["efc"]
            exp["rows"]["edge_face_connectivity"] = e_faces
        clon, clat = _centroids(mesh)
        ds[nm["flon"]] = xr.DataArray(_lon_conv(clon, d["lon"]), dims=[nm["nface"]], attrs={"units": "degrees_east"})
        ds[nm["flat"]] = xr.DataArray(clat, dims=[nm["nface"]], attrs={"units": "degrees_north"})
        topo["face_coordinates"] = f"{nm['flon']} {nm['flat']}"
        exp["centres"] = {"face": (clon, clat)}
    ds[nm["topo"]] = xr.DataArray(np.int32(0), attrs=topo)
    return (lambda: ux.open_grid(ds)), exp


# ------------------------------------------------------------------------------------------------ explicit topology
def _topo_axes(mesh):
    return {"start_index": [0, 1], "fill": ["-1", "FILL", "999999", "nan", "absent"], "dtype": ["int64", "int32", "float64"],
            "entry": ["Grid.from_topology", "open_grid(dict)"], "lon": ["-180..180", "0..360"], "extras": [True, False]}


def _topo_valid(mesh, d):
    return _fill_ok(d["fill"], d["dtype"], _is_mixed(mesh))


def _topo_build(mesh, d):
    off = d["start_index"]
    pad = _FILLS[d["fill"]] if d["fill"] != "absent" else 0
    W = mesh["faces"].shape[1]
    kw = dict(node_lon=_lon_conv(mesh["lon"], d["lon"]), node_lat=np.array(mesh["lat"], float),
              face_node_connectivity=_table(_corner_lists(mesh), W, off, pad, d["dtype"]), start_index=off,
              fill_value=None if d["fill"] == "absent" else _FILLS[d["fill"]])
    exp = {"faces": _mesh_faces_xyz(mesh)}
    if d["extras"]:
        edges, e_faces, _, _ = _edges(mesh)
        kw["edge_node_connectivity"] = _table([list(e) for e in edges], 2, off, pad, d["dtype"])
        exp["rows"] = {"edge_node_connectivity": [list(e) for e in edges]}
        if d["fill"] != "absent" or all(len(x) == 2 for x in e_faces):
            kw["edge_face_connectivity"] = _table(e_faces, 2, off, pad, d["dtype"])
            exp["rows"]["edge_face_connectivity"] = e_faces
        clon, clat = _centroids(mesh)
        kw["face_lon"], kw["face_lat"] = _lon_conv(clon, d["lon"]), clat
        exp["centres"] = {"face": (clon, clat)}
    if d["entry"] == "Grid.from_topology":
        return (lambda: ux.Grid.from_topology(**kw)), exp
    return (lambda: ux.open_grid(kw)), exp


# ------------------------------------------------------------------------------------------------ face vertices
def _verts_axes(mesh):
    return {"coords": ["lonlat", "xyz"], "container": ["ndarray", "list"], "entry": ["open_grid(array)", "Grid.from_face_vertices"],
            "lon": ["-180..180", "0..360"]}


def _verts_valid(mesh, d):
    return True


def _verts_build(mesh, d):
    cl = _corner_lists(mesh)
    W = max(len(c) for c in cl)
    if d["coords"] == "lonlat":
        lon = _lon_conv(mesh["lon"], d["lon"])
        pts = np.stack([lon, np.array(mesh["lat"], float)], axis=1)
    else:
        pts = _xyz(mesh["lon"], mesh["lat"])
    arr = np.full((len(cl), W, pts.shape[1]), float(FILL))
    for i, c in enumerate(cl):
        arr[i, :len(c)] = pts[c]
    if len(cl) == 1 and d["container"] == "list":
        arr = arr[0]                                     # a single face may be given as a 2-d array
    src = arr.tolist() if d["container"] == "list" else arr
    latlon = d["coords"] == "lonlat"
    exp = {"faces": _mesh_faces_xyz(mesh)}
    if d["entry"] == "open_grid(array)":
        return (lambda: ux.open_grid(src, latlon=latlon)), exp
    return (lambda: ux.Grid.from_face_vertices(src, latlon=latlon)), exp


# ------------------------------------------------------------------------------------------------ MPAS
def _mpas_axes(mesh):
    ax = {"padding": ["zeros", "repeat_last"], "dtype": ["int32", "int64"], "lon": ["0..2pi", "-pi..pi"],
          "maxEdges": ["tight", "wide"], "extras": [True, False], "mesh": ["primal"]}
    if mesh["closed"]:
        ax["mesh"] = ["primal", "dual"]
    return ax


def _mpas_valid(mesh, d):
    return True


def _mpas_build(mesh, d):
    dt = d["dtype"]
    rep = d["padding"] == "repeat_last"
    cl = _corner_lists(mesh)
    W = max(len(c) for c in cl) + (3 if d["maxEdges"] == "wide" else 0)
    nf_tab = _node_faces(mesh)
    dual = None
    if d["mesh"] == "dual":
        dual = mg.dual_of(mesh)                         # face v of the dual = cells around vertex v, counter-clockwise
        assert dual["n_face"] == mesh["n_node"]
        cell_lon, cell_lat = dual["lon"], dual["lat"]
        nf_tab = _corner_lists(dual)
    else:
        cell_lon, cell_lat = _centroids(mesh)
    deg = max(len(r) for r in nf_tab)
    conv = "0..360" if d["lon"] == "0..2pi" else "-180..180"
    ds = xr.Dataset()
    ds["lonVertex"] = xr.DataArray(np.deg2rad(_lon_conv(mesh["lon"], conv)), dims=["nVertices"])
    ds["latVertex"] = xr.DataArray(np.deg2rad(mesh["lat"]), dims=["nVertices"])
    ds["lonCell"] = xr.DataArray(np.deg2rad(_lon_conv(cell_lon, conv)), dims=["nCells"])
    ds["latCell"] = xr.DataArray(np.deg2rad(cell_lat), dims=["nCells"])
    ds["verticesOnCell"] = xr.DataArray(_table(cl, W, 1, 0, dt, rep), dims=["nCells", "maxEdges"])
    ds["nEdgesOnCell"] = xr.DataArray(np.array([len(c) for c in cl], dtype=dt), dims=["nCells"])
    ds["cellsOnVertex"] = xr.DataArray(_table(nf_tab, deg, 1, 0, dt), dims=["nVertices", "vertexDegree"])
    ds.attrs["sphere_radius"] = 1.0
    ds.attrs["on_a_sphere"] = "YES"
    edges, e_faces, f_edges, f_faces = _edges(mesh)
    if d["extras"]:
        elon, elat = _edge_mid(mesh, edges)
        ds["lonEdge"] = xr.DataArray(np.deg2rad(_lon_conv(elon, conv)), dims=["nEdges"])
        ds["latEdge"] = xr.DataArray(np.deg2rad(elat), dims=["nEdges"])
        ds["verticesOnEdge"] = xr.DataArray(_table([list(e) for e in edges], 2, 1, 0, dt), dims=["nEdges", "TWO"])
        ds["cellsOnEdge"] = xr.DataArray(_table(e_faces, 2, 1, 0, dt), dims=["nEdges", "TWO"])
        ds["edgesOnCell"] = xr.DataArray(_table(f_edges, W, 1, 0, dt, rep), dims=["nCells", "maxEdges"])
        ds["cellsOnCell"] = xr.DataArray(_table([[(-1 if g is None else g) for g in r] for r in f_faces], W, 1, 0, dt, False),
                                         dims=["nCells", "maxEdges"])
        # edges around each vertex (dual face edges)
        ev = [[] for _ in range(mesh["n_node"])]
        for e, (a, b) in enumerate(edges):
            ev[a].append(e)
            ev[b].append(e)
        ds["edgesOnVertex"] = xr.DataArray(_table(ev, max(len(r) for r in ev), 1, 0, dt), dims=["nVertices", "maxEdgesOnVertex"])
        area_c = np.linspace(0.01, 0.02, mesh["n_face"])
        area_t = np.linspace(0.03, 0.05, mesh["n_node"])
        ds["areaCell"] = xr.DataArray(area_c, dims=["nCells"])
        ds["areaTriangle"] = xr.DataArray(area_t, dims=["nVertices"])
    if d["mesh"] == "primal":
        exp = {"faces": _mesh_faces_xyz(mesh), "rows": {"node_face_connectivity": nf_tab}}
        if d["extras"]:
            exp["rows"].update({"edge_node_connectivity": [list(e) for e in edges], "edge_face_connectivity": e_faces,
                                "face_edge_connectivity": f_edges, "face_face_connectivity": f_faces})
            exp["centres"] = {"face": (cell_lon, cell_lat), "edge": (elon, elat)}
            exp["areas"] = area_c
    else:
        exp = {"faces": _mesh_faces_xyz(dual), "rows": {"node_face_connectivity": cl}}
        if d["extras"]:
            exp["rows"].update({"edge_node_connectivity": e_faces, "edge_face_connectivity": [list(e) for e in edges],
                                "face_edge_connectivity": ev})
            exp["centres"] = {"face": (mesh["lon"], mesh["lat"]), "edge": (elon, elat)}
            exp["areas"] = area_t
    use_dual = d["mesh"] == "dual"
    return (lambda: ux.open_grid(ds, use_dual=use_dual)), exp


# ------------------------------------------------------------------------------------------------ SCRIP
def _scrip_axes(mesh):
    return {"lon": ["0..360", "-180..180"], "dims": ["grid_dims=[n]", "no grid_dims"]}


def _scrip_build(mesh, d):
    cl = _corner_lists(mesh)
    W = max(len(c) for c in cl)
    lon = _lon_conv(mesh["lon"], d["lon"])
    lat = np.array(mesh["lat"], float)
    clon = np.empty((len(cl), W))
    clat = np.empty((len(cl), W))
    for i, c in enumerate(cl):
        cc = c + [c[-1]] * (W - len(c))                  # SCRIP: cells with fewer corners repeat the last corner
        clon[i], clat[i] = lon[cc], lat[cc]
    flon, flat = _centroids(mesh)
    ds = xr.Dataset()
    ds["grid_corner_lat"] = xr.DataArray(clat, dims=["grid_size", "grid_corners"], attrs={"units": "degrees"})
    ds["grid_corner_lon"] = xr.DataArray(clon, dims=["grid_size", "grid_corners"], attrs={"units": "degrees"})
    ds["grid_center_lat"] = xr.DataArray(flat, dims=["grid_size"], attrs={"units": "degrees"})
    ds["grid_center_lon"] = xr.DataArray(_lon_conv(flon, d["lon"]), dims=["grid_size"], attrs={"units": "degrees"})
    ds["grid_area"] = xr.DataArray(np.linspace(0.01, 0.02, len(cl)), dims=["grid_size"], attrs={"units": "radians^2"})
    ds["grid_imask"] = xr.DataArray(np.ones(len(cl), dtype=np.int32), dims=["grid_size"])
    if d["dims"] == "grid_dims=[n]":
        ds["grid_dims"] = xr.DataArray(np.array([len(cl)], dtype=np.int32), dims=["grid_rank"])
    exp = {"faces": _mesh_faces_xyz(mesh), "centres": {"face": (flon, flat)}}
    return (lambda: ux.open_grid(ds)), exp


# ------------------------------------------------------------------------------------------------ Exodus
def _exo_axes(mesh):
    return {"coords": ["coordx/y/z", "coord"], "blocks": ["one block, 0 padded", "block per size"], "dtype": ["int32", "int64"]}


def _exo_build(mesh, d):
    cl = _corner_lists(mesh)
    P = _xyz(mesh["lon"], mesh["lat"])
    ds = xr.Dataset()
    if d["coords"] == "coord":
        ds["coord"] = xr.DataArray(P.T.copy(), dims=["num_dim", "num_nodes"])
    else:
        ds["coordx"] = xr.DataArray(P[:, 0].copy(), dims=["num_nodes"])
        ds["coordy"] = xr.DataArray(P[:, 1].copy(), dims=["num_nodes"])
        ds["coordz"] = xr.DataArray(P[:, 2].copy(), dims=["num_nodes"])
        ds["coor_names"] = xr.DataArray(np.array(["x", "y", "z"]), dims=["num_dim"])
    if d["blocks"] == "one block, 0 padded":
        groups = [list(range(len(cl)))]
    else:
        sizes = sorted({len(c) for c in cl})
        groups = [[f for f, c in enumerate(cl) if len(c) == s] for s in sizes]
    order = []
    for k, g in enumerate(groups, start=1):
        w = max(len(cl[f]) for f in g)
        ds[f"connect{k}"] = xr.DataArray(_table([cl[f] for f in g], w, 1, 0, d["dtype"]),
                                         dims=[f"num_el_in_blk{k}", f"num_nod_per_el{k}"],
                                         attrs={"elem_type": {3: "TRI3", 4: "SHELL4"}.get(w, f"NSIDED{w}")})
        order += g
    ds["eb_status"] = xr.DataArray(np.ones(len(groups), dtype=np.int32), dims=["num_el_blk"])
    ds["eb_prop1"] = xr.DataArray(np.arange(1, len(groups) + 1, dtype=np.int32), dims=["num_el_blk"], attrs={"name": "ID"})
    ds.attrs.update({"api_version": 5.0, "version": 5.0, "floating_point_word_size": 8, "title": "stand-in"})
    exp = {"faces": _mesh_faces_xyz(mesh, order)}
    return (lambda: ux.open_grid(ds)), exp


# ------------------------------------------------------------------------------------------------ ESMF
def _esmf_axes(mesh):
    return {"start_index": [1, 0, "absent"], "dtype": ["int32", "int64"], "padding": ["-1", "0", "repeat_last"],
            "count_dtype": ["int8", "int32"], "lon": ["0..360", "-180..180"], "centers": [True, False]}


def _esmf_build(mesh, d):
    cl = _corner_lists(mesh)
    W = max(len(c) for c in cl)
    off = 0 if d["start_index"] == 0 else 1              # ESMFMESH: start_index defaults to 1 when absent
    pad = {"-1": -1, "0": 0, "repeat_last": 0}[d["padding"]]
    ds = xr.Dataset()
    ds["nodeCoords"] = xr.DataArray(np.stack([_lon_conv(mesh["lon"], d["lon"]), np.array(mesh["lat"], float)], axis=1),
                                    dims=["nodeCount", "coordDim"], attrs={"units": "degrees"})
    at = {"long_name": "Node indices that define the element connectivity", "_FillValue": np.int32(-1) if d["dtype"] == "int32" else -1}
    if d["start_index"] != "absent":
        at["start_index"] = np.int32(d["start_index"])
    ds["elementConn"] = xr.DataArray(_table(cl, W, off, pad, d["dtype"], d["padding"] == "repeat_last"),
                                     dims=["elementCount", "maxNodePElement"], attrs=at)
    ds["numElementConn"] = xr.DataArray(np.array([len(c) for c in cl], dtype=d["count_dtype"]), dims=["elementCount"],
                                        attrs={"long_name": "Number of nodes per element"})
    exp = {"faces": _mesh_faces_xyz(mesh)}
    if d["centers"]:
        flon, flat = _centroids(mesh)
        ds["centerCoords"] = xr.DataArray(np.stack([_lon_conv(flon, d["lon"]), flat], axis=1), dims=["elementCount", "coordDim"],
                                          attrs={"units": "degrees"})
        exp["centres"] = {"face": (flon, flat)}
    ds.attrs["gridType"] = "unstructured mesh"
    return (lambda: ux.open_grid(ds)), exp


# ------------------------------------------------------------------------------------------------ GEOS-CS
def _geos_axes(mesh):
    return {"lon": ["0..360", "-180..180"], "centers": [True, False]}


def _geos_tiles(n):
    """gnomonic cube: 6 tiles of (n+1) x (n+1) corners and n x n centres (lon, lat in degrees, lon in [-180,180))"""
    panels = [lambda a, b: (1, a, b), lambda a, b: (-a, 1, b), lambda a, b: (-1, -a, b), lambda a, b: (a, -1, b),
              lambda a, b: (-b, a, 1), lambda a, b: (b, a, -1)]
    g = [math.tan(-math.pi / 4 + (math.pi / 2) * i / n) for i in range(n + 1)]
    gc = [math.tan(-math.pi / 4 + (math.pi / 2) * (i + 0.5) / n) for i in range(n)]
    R = _rot((0.2, 0.9, 0.4), 11.0)                    # keeps corners off the poles / antimeridian
    def ll(P, a, b):
        v = R @ np.array(P(a, b), float)
        lo, la = mg.lonlat_of(v[0], v[1], v[2])
        return float(lo), float(la)
    clon = np.empty((6, n + 1, n + 1)); clat = np.empty((6, n + 1, n + 1))
    lon = np.empty((6, n, n)); lat = np.empty((6, n, n))
    for t, P in enumerate(panels):
        for i in range(n + 1):
            for j in range(n + 1):
                clon[t, i, j], clat[t, i, j] = ll(P, g[j], g[i])
        for i in range(n):
            for j in range(n):
                lon[t, i, j], lat[t, i, j] = ll(P, gc[j], gc[i])
    return clon, clat, lon, lat


def _rot(axis, deg):
    k = np.asarray(axis, float)
    k /= np.linalg.norm(k)
    a = math.radians(deg)
    K = np.array([[0, -k[2], k[1]], [k[2], 0, -k[0]], [-k[1], k[0], 0]])
    return np.eye(3) + math.sin(a) * K + (1 - math.cos(a)) * (K @ K)


def _geos_build(mesh, d):
    n = mesh["geos_n"]
    clon, clat, lon, lat = _geos_tiles(n)
    ds = xr.Dataset()
    ds["corner_lons"] = xr.DataArray(_lon_conv(clon, d["lon"]), dims=["nf", "YCdim", "XCdim"])
    ds["corner_lats"] = xr.DataArray(clat, dims=["nf", "YCdim", "XCdim"])
    if d["centers"]:
        ds["lons"] = xr.DataArray(_lon_conv(lon, d["lon"]), dims=["nf", "Ydim", "Xdim"])
        ds["lats"] = xr.DataArray(lat, dims=["nf", "Ydim", "Xdim"])
    faces = []
    for t in range(6):
        for i in range(n):
            for j in range(n):
                idx = [(i, j), (i, j + 1), (i + 1, j + 1), (i + 1, j)]
                faces.append(np.array([_xyz(clon[t, a, b], clat[t, a, b]) for a, b in idx]))
    exp = {"faces": faces, "either_orientation": True}    # a logically rectangular array does not fix an orientation
    if d["centers"]:
        exp["centres"] = {"face": (lon.ravel(), lat.ravel())}
    return (lambda: ux.open_grid(ds)), exp


# ------------------------------------------------------------------------------------------------ ICON (synthetic)
def _icon_axes(mesh):
    return {"dtype": ["int32", "int64"], "lon": ["-pi..pi", "0..2pi"]}


def _icon_valid(mesh, d):
    return set(mg.npf(mesh["faces"]).tolist()) == {3}


def _icon_build(mesh, d):
    dt = d["dtype"]
    cl = _corner_lists(mesh)
    edges, e_faces, f_edges, f_faces = _edges(mesh)
    conv = "0..360" if d["lon"] == "0..2pi" else "-180..180"
    flon, flat = _centroids(mesh)
    elon, elat = _edge_mid(mesh, edges)
    ds = xr.Dataset()
    for nm, (lo, la), dim in (("v", (mesh["lon"], mesh["lat"]), "vertex"), ("c", (flon, flat), "cell"), ("e", (elon, elat), "edge")):
        ds[nm + "lon"] = xr.DataArray(np.deg2rad(_lon_conv(lo, conv)), dims=[dim], attrs={"units": "radian"})
        ds[nm + "lat"] = xr.DataArray(np.deg2rad(la), dims=[dim], attrs={"units": "radian"})
    ds["vertex_of_cell"] = xr.DataArray(_table(cl, 3, 1, 0, dt).T.copy(), dims=["nv", "cell"])
    ds["edge_of_cell"] = xr.DataArray(_table(f_edges, 3, 1, 0, dt).T.copy(), dims=["nv", "cell"])
    ds["neighbor_cell_index"] = xr.DataArray(_table([[(-1 if g is None else g) for g in r] for r in f_faces], 3, 1, 0, dt).T.copy(),
                                             dims=["nv", "cell"])
    ds["adjacent_cell_of_edge"] = xr.DataArray(_table(e_faces, 2, 1, 0, dt).T.copy(), dims=["nc", "edge"])
    ds["edge_vertices"] = xr.DataArray(_table([list(e) for e in edges], 2, 1, 0, dt).T.copy(), dims=["nc", "edge"])
    exp = {"faces": _mesh_faces_xyz(mesh), "centres": {"face": (flon, flat), "edge": (elon, elat)},
           "rows": {"edge_node_connectivity": [list(e) for e in edges], "face_edge_connectivity": f_edges}}
    if mesh["closed"]:                                       # no missing neighbours: the padding convention does not matter
        exp["rows"]["edge_face_connectivity"] = e_faces
        exp["rows"]["face_face_connectivity"] = f_faces
    return (lambda: ux.open_grid(ds)), exp


# ------------------------------------------------------------------------------------------------ GeoJSON polygons
def _geo_axes(mesh):
    ax = {"grouping": ["polygons"]}
    if mesh["n_face"] >= 3:
        ax["grouping"] = ["polygons", "multipolygon(first 2 faces)", "multipolygon(first 3 faces)"]
    return ax


def _geo_build(mesh, d):
    cl = _corner_lists(mesh)
    rings = []
    for c in cl:
        rings.append([[float(mesh["lon"][v]), float(mesh["lat"][v])] for v in c + [c[0]]])
    feats = []
    k = {"polygons": 0, "multipolygon(first 2 faces)": 2, "multipolygon(first 3 faces)": 3}[d["grouping"]]
    if k:
        feats.append({"type": "Feature", "properties": {"id": 0},
                      "geometry": {"type": "MultiPolygon", "coordinates": [[r] for r in rings[:k]]}})
    for i, r in enumerate(rings[k:]):
        feats.append({"type": "Feature", "properties": {"id": i + 1}, "geometry": {"type": "Polygon", "coordinates": [r]}})
    doc = {"type": "FeatureCollection", "features": feats}
    exp = {"faces": _mesh_faces_xyz(mesh)}

    def opener():
        tmp = tempfile.mkdtemp(prefix="c01_")
        path = os.path.join(tmp, "mesh.geojson")
        try:
            with open(path, "w") as f:
                json.dump(doc, f)
            import contextlib
            import io
            with contextlib.redirect_stdout(io.StringIO()):
                return ux.Grid.from_file(path, backend="geopandas")
        finally:
            if os.path.exists(path):
                os.remove(path)
            os.rmdir(tmp)
    return opener, exp


_TRUE = lambda mesh, d: True  # noqa: E731
FORMATS = {
    "ugrid": {"axes": _ugrid_axes, "valid": _ugrid_valid, "build": _ugrid_build},
    "topology": {"axes": _topo_axes, "valid": _topo_valid, "build": _topo_build},
    "face_vertices": {"axes": _verts_axes, "valid": _verts_valid, "build": _verts_build},
    "mpas": {"axes": _mpas_axes, "valid": _mpas_valid, "build": _mpas_build},
    "scrip": {"axes": _scrip_axes, "valid": _TRUE, "build": _scrip_build},
    "exodus": {"axes": _exo_axes, "valid": _TRUE, "build": _exo_build},
    "esmf": {"axes": _esmf_axes, "valid": _TRUE, "build": _esmf_build},
    "geos_cs": {"axes": _geos_axes, "valid": _TRUE, "build": _geos_build},
    "icon": {"axes": _icon_axes, "valid": _icon_valid, "build": _icon_build},
    "geojson": {"axes": _geo_axes, "valid": _TRUE, "build": _geo_build},
}


# ------------------------------------------------------------------------------------------------ driver
def _dialects(fmt, mesh, rng, limit, depth=1):
    """valid dialects of the format for this mesh: the baseline, every deviation from it in at most `depth` axes, and a seeded
    sample of the rest up to `limit` dialects in total (limit None: the full product)"""
    ax = FORMATS[fmt]["axes"](mesh)
    names = list(ax)
    allc = [dict(zip(names, vals)) for vals in itertools.product(*[ax[n] for n in names])]
    allc = [d for d in allc if FORMATS[fmt]["valid"](mesh, d)]
    if limit is None:
        return allc
    base = {n: ax[n][0] for n in names}
    keep = [d for d in allc if sum(d[n] != base[n] for n in names) <= depth]
    rest = [d for d in allc if sum(d[n] != base[n] for n in names) > depth]
    rng.shuffle(rest)
    return keep + rest[:max(0, limit - len(keep))]


def _clause_key(clause, info):
    if clause == "open":
        return f"open:{info.get('exc')}@{info.get('where')}"
    if "kind" in info:
        return f"{clause}[{info['kind']}]"
    return clause


_MEMO = {}


def _fails(fmt, mesh, dialect, ckey):
    """_run is deterministic for (format, mesh, dialect): sources are rebuilt on every call"""
    ax = FORMATS[fmt]["axes"](mesh)
    if set(ax) != set(dialect) or any(dialect[n] not in ax[n] for n in ax) or not FORMATS[fmt]["valid"](mesh, dialect):
        return False
    k = (fmt, mesh["name"], tuple(sorted((a, str(b)) for a, b in dialect.items())))
    if k not in _MEMO:
        _MEMO[k] = {_clause_key(c, v) for c, v in _run(fmt, mesh, dialect).items() if v is not None}
    return ckey in _MEMO[k]


def _reduce(fmt, mesh, dialect, ckey, probes):
    """smallest probe mesh + smallest set of non-baseline dialect choices (greedy; axis values are listed simplest first)
    that still violate the clause"""
    d = dict(dialect)
    tag, m = next(((pn, pm) for pn, pm, _ in probes if _fails(fmt, pm, d, ckey)), (None, mesh))
    ax = FORMATS[fmt]["axes"](m)
    for n in ax:
        for simpler in ax[n][:ax[n].index(d[n])]:
            trial = dict(d)
            trial[n] = simpler
            if _fails(fmt, m, trial, ckey):
                d = trial
                break
    tag = next((pn for pn, pm, _ in probes if _fails(fmt, pm, d, ckey)), "some meshes")
    delta = ",".join(f"{n}={d[n]}" for n in ax if d[n] != ax[n][0]) or "baseline dialect"
    return d, delta, tag


def _explained(fmt, mesh, d, rec, probes):
    """an already reported reduced dialect is contained in this one and its mesh class covers this mesh"""
    ax = FORMATS[fmt]["axes"](mesh)
    for n in ax:
        small = rec["dmin"].get(n, ax[n][0])
        if not (small == ax[n][0] or small == d[n]):
            return False
    pred = next((pp for pn, _, pp in probes if pn == rec["tag"]), None)
    return pred is not None and pred(mesh)


def _geos_meshes():
    return [{"name": f"geos_c{n}", "geos_n": n, "n_face": 6 * n * n, "closed": True, "faces": np.zeros((1, 4), dtype=np.int64),
             "lon": np.zeros(1), "lat": np.zeros(1), "n_node": 0} for n in (1, 2)]


def _node0_unreferenced(mesh):
    return mesh["n_node"] > 0 and 0 not in set(int(v) for v in mesh["faces"].ravel() if v != FILL)


def _probes():
    small = {m["name"]: m for m in mg.small_meshes()}
    q = small["quads2x1@-20,-10"]
    orphan = mg.mk("quads2x1+unreferenced_node0", [50.0] + q["lon"].tolist(), [50.0] + q["lat"].tolist(),
                   [[v + 1 for v in mg.face_corners(q, f)] for f in range(q["n_face"])])
    return [("any mesh (uniform 2-quad patch suffices)", q, lambda m: True),
            ("triangle meshes (tri_fan4 suffices)", small["tri_fan4"], lambda m: set(mg.npf(m["faces"]).tolist()) == {3}),
            ("mixed-size meshes (mixed_quad_tri_isolated suffices)", small["mixed_quad_tri_isolated"], _is_mixed),
            ("closed meshes (cube suffices)", mg.cube(), lambda m: bool(m["closed"])),
            ("meshes whose node 0 is unreferenced (2-quad patch + orphan node suffices)", orphan, _node0_unreferenced)]


def readers(tier, seed):
    rng = random.Random(seed * 104729 + 7)
    probes = _probes()
    probe_names = {pm["name"] for _, pm, _ in probes}
    meshes = [pm for _, pm, _ in probes]
    meshes += [m for m in mg.small_meshes() + mg.closed_meshes() if m["n_face"] <= MAX_FACES and m["name"] not in probe_names]
    meshes += [mg.renumber(m, rng) for m in (mg.small_meshes()[6], mg.small_meshes()[9], mg.closed_meshes()[0])]
    n_rand = 6 if tier == "quick" else 60
    meshes += [m for m in mg.random_meshes(seed * 31 + 5, n_rand) if m["n_face"] <= MAX_FACES]
    limit = {"quick": 12, "thorough": 150}[tier]
    _MEMO.clear()
    failures, samples = [], []
    seen, reduced = set(), {}
    cases = 0
    distinct = set()
    per_format = {}
    for fmt in FORMATS:
        ms = _geos_meshes() if fmt == "geos_cs" else meshes
        # the orphan-node probe only matters to sources that carry node ids (the other sources are checked on its twin)
        pr = [] if fmt == "geos_cs" else [p for p in probes if fmt in ("ugrid", "topology") or "unreferenced" not in p[1]["name"]]
        for mesh in ms:
            if "unreferenced" in mesh["name"] and fmt not in ("ugrid", "topology"):
                continue
            if mesh["name"] in probe_names:       # probe meshes: every dialect that deviates in <= 2 axes (thorough: all dialects)
                todo = _dialects(fmt, mesh, rng, None if tier == "thorough" else 0, depth=2)
            else:
                todo = _dialects(fmt, mesh, rng, limit, depth=1)
            for d in todo:
                res = _run(fmt, mesh, d)
                cases += len(res)
                dk = tuple(sorted((k, str(v)) for k, v in d.items()))
                distinct.add((fmt, mesh["name"], dk))
                per_format[fmt] = per_format.get(fmt, 0) + 1
                if len(samples) < 3 and len(distinct) % 97 == 1:
                    samples.append({"format": fmt, "mesh": mesh["name"], "dialect": {k: str(v) for k, v in d.items()}})
                for clause, info in res.items():
                    if info is None:
                        continue
                    ckey = _clause_key(clause, info)
                    raw = (fmt, ckey, dk, mesh["name"] if mesh["name"] in probe_names else None)
                    if raw in seen:
                        continue
                    seen.add(raw)
                    if any(_explained(fmt, mesh, d, r, pr) for r in reduced.get((fmt, ckey), [])):
                        continue
                    dmin, delta, tag = _reduce(fmt, mesh, d, ckey, pr)
                    key = f"{fmt}:{ckey}:{delta}:{tag}"
                    reduced.setdefault((fmt, ckey), []).append({"dmin": dmin, "tag": tag})
                    if any(f["key"] == key for f in failures):
                        continue
                    # re-evaluate on the reduced input so that observed/expected belong to the reported reproduction
                    rmesh = next((pm for pn, pm, _ in pr if pn == tag), mesh)
                    rres = _run(fmt, rmesh, dmin)
                    rinfo = next((v for c, v in rres.items() if v is not None and _clause_key(c, v) == ckey), info)
                    failures.append({"key": key, "what": f"{fmt} reader, clause {ckey}: violated for dialect [{delta}] on {tag}",
                                     "violated": _CLAUSES.get(clause.split(":")[0], clause),
                                     "inputs": {"format": fmt, "mesh": rmesh["name"], "dialect": {k: str(v) for k, v in dmin.items()}},
                                     "observed": rinfo.get("observed"), "expected": rinfo.get("expected")})
    failures.sort(key=lambda f: f["key"])
    bound = (f"{len(meshes)} meshes (<= {MAX_FACES} faces: 5 probe meshes, small catalogue, closed meshes, 3 renumbered, {n_rand} seeded random) "
             f"+ GEOS c1/c2; formats x sources opened: {per_format}; probe meshes: every dialect deviating from the baseline in <= 2 axes"
             f"{' (thorough: the full dialect product)' if tier == 'thorough' else ''}; other meshes: baseline, all single-axis deviations "
             f"and a seeded sample of the dialect product up to {limit}; in-memory datasets, GeoJSON via temp files; NUMBA JIT off")
    return result(cases, len(distinct), failures, bound, samples)


_CLAUSES = {
    "open": "opening a well-formed source yields a Grid",
    "n_face": "same number of faces as the source",
    "faces": "each face has the source's corner positions in the same cyclic order, faces in the same order",
    "standard_form": "zero-based platform-integer indices, padding only at the row ends with the standard fill value, every index in range",
    "lonlat_range": "longitudes in [-180, 180] and latitudes in [-90, 90] degrees",
    "carried": "connectivity, centres and areas the source supplies are carried over with the same meaning",
}
