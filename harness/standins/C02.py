"""C02 bounded stand-in: derived edge tables are exactly the boundary segments of the faces.

Oracle (independent of uxarray): from the face-node table alone
  corners(f)     = leading non-FILL entries of row f
  pairs(f)[j]    = frozenset{corners(f)[j], corners(f)[(j+1) mod npf(f)]}
  E*             = union of pairs(f) over all faces
Checked on the real Grid (fresh grid per access order) and on the builder functions in uxarray.grid.connectivity.
The main pass runs with numba JIT as configured by the driver (disabled by run_standin.py: njit builders run as plain Python);
the catalogue part is repeated in a child process with JIT enabled.

Source-supplied edge tables (scenario `<order>:supplied_edges`): the grid is built with Grid.from_topology(...,
edge_node_connectivity=T) where T lists exactly the oracle pairs E*, once each, but in a row order other than the sorted one of the
derivation and/or with the two nodes of a row swapped (see `supplied_edge_tables`).  All clauses are evaluated on the tables the grid
REPORTS after the accesses (grid.edge_node_connectivity may legitimately be T or the re-derived table; face_edge_connectivity must
index whichever one is reported).
"""
import random

import numpy as np

from . import meshgen as mg
from .common import FILL, grid_of, result

INTP = np.dtype(np.intp)

# orders of first access on a fresh grid
ORDERS = {
    "edge_node_first": ("edge_node_connectivity", "n_edge", "face_edge_connectivity", "n_nodes_per_face"),
    "face_edge_first": ("face_edge_connectivity", "edge_node_connectivity", "n_edge", "n_nodes_per_face"),
    "n_edge_first": ("n_edge", "face_edge_connectivity", "n_nodes_per_face", "edge_node_connectivity"),
    "npf_first": ("n_nodes_per_face", "n_max_face_edges", "n_edge", "edge_node_connectivity", "face_edge_connectivity"),
}


# ------------------------------------------------------------------------------------------------ oracle
def oracle(faces):
    faces = np.asarray(faces)
    corners, pairs = [], []
    for row in faces:
        c = []
        for x in row:
            if int(x) == FILL:
                break
            c.append(int(x))
        corners.append(c)
        pairs.append([frozenset((c[j], c[(j + 1) % len(c)])) for j in range(len(c))])
    eset = set()
    for p in pairs:
        eset.update(p)
    return corners, pairs, eset


def _small(a, limit=60):
    a = np.asarray(a)
    if a.size <= limit:
        return a.tolist()
    return {"shape": list(a.shape), "head": a.ravel()[:limit].tolist()}


class _Rec:
    def __init__(self):
        self.failures = []
        self.cases = 0
        self.keys = set()

    def check(self, ok, clause, scenario, what, inputs, observed=None, expected=None):
        self.cases += 1
        if ok:
            return True
        if clause.endswith(".dtype==intp"):
            # the element type does not depend on the order of first access or on where the mesh came from
            scenario = "builders" if scenario.startswith("builders") else "Grid"
        key = f"{clause}:{scenario}"
        if key not in self.keys:
            self.keys.add(key)
            self.failures.append({"key": key, "what": what, "violated": clause, "inputs": inputs,
                                  "observed": observed, "expected": expected})
        return False


def _desc(name, faces):
    return {"mesh": name, "face_node_connectivity": _small(faces, 80)}


# ------------------------------------------------------------------------------------------------ table checks
def check_tables(rec, scenario, name, faces, enc, n_edge, npf_tab, fec, n_node=None, closed=False, n_max_face_edges=None,
                 extra_inp=None):
    """evaluate all C02 clauses for the four observed tables against the oracle of `faces`"""
    faces = np.asarray(faces)
    n_face, n_max = faces.shape
    corners, pairs, eset = oracle(faces)
    inp = _desc(name, faces)
    if extra_inp:
        inp.update(extra_inp)
    enc = np.asarray(enc)
    fec = np.asarray(fec)
    npf_tab = np.asarray(npf_tab)

    # dtypes
    rec.check(enc.dtype == INTP, "edge_node_connectivity.dtype==intp", scenario, f"dtype {enc.dtype}", inp, str(enc.dtype), str(INTP))
    rec.check(fec.dtype == INTP, "face_edge_connectivity.dtype==intp", scenario, f"dtype {fec.dtype}", inp, str(fec.dtype), str(INTP))
    rec.check(npf_tab.dtype == INTP, "n_nodes_per_face.dtype==intp", scenario, f"dtype {npf_tab.dtype}", inp, str(npf_tab.dtype), str(INTP))

    # edge_node: shape, no padding, exactly once, exactly the consecutive pairs
    shape_ok = rec.check(enc.ndim == 2 and enc.shape[1] == 2, "edge_node_connectivity.shape==(n_edge,2)", scenario,
                         f"shape {enc.shape}", inp, list(enc.shape), [len(eset), 2])
    if shape_ok:
        rec.check(not np.any(enc == FILL), "edge_node_connectivity has no padding", scenario, "FILL inside edge_node_connectivity",
                  inp, _small(enc), None)
        rows = [frozenset((int(a), int(b))) for a, b in enc]
        rec.check(len(set(rows)) == len(rows), "each unordered pair exactly once", scenario, "duplicate edge rows", inp,
                  _small(enc), sorted(map(sorted, eset))[:40])
        rec.check(set(rows) == eset, "edge rows == consecutive corner pairs", scenario,
                  "edge set differs from the set of consecutive corner pairs (incl. closing pair)", inp,
                  {"missing": sorted(map(sorted, eset - set(rows)))[:10], "extra": sorted(map(sorted, set(rows) - eset))[:10]},
                  sorted(map(sorted, eset))[:40])
        rec.check(enc.shape[0] == len(eset), "len(edge_node_connectivity)==number of pairs", scenario, "row count", inp,
                  int(enc.shape[0]), len(eset))
    rec.check(int(n_edge) == len(eset), "n_edge==number of distinct pairs", scenario, f"n_edge={n_edge}", inp, int(n_edge), len(eset))

    # n_nodes_per_face
    exp_npf = [len(c) for c in corners]
    rec.check(npf_tab.shape == (n_face,) and npf_tab.tolist() == exp_npf, "n_nodes_per_face==real corners", scenario,
              "n_nodes_per_face differs from the number of real corners", inp, _small(npf_tab), exp_npf[:60])

    # face_edge
    ok_shape = rec.check(fec.shape == (n_face, n_max), "face_edge_connectivity.shape==(n_face,n_max)", scenario,
                         f"shape {fec.shape}", inp, list(fec.shape), [n_face, n_max])
    if n_max_face_edges is not None:
        rec.check(int(n_max_face_edges) == n_max, "n_max_face_edges==n_max_face_nodes", scenario, "n_max_face_edges", inp,
                  int(n_max_face_edges), n_max)
    if ok_shape and shape_ok:
        bad_pad = bad_range = bad_edge = None
        E = enc.shape[0]
        for f in range(n_face):
            k = len(corners[f])
            for j in range(n_max):
                v = int(fec[f, j])
                if j >= k:
                    if v != FILL and bad_pad is None:
                        bad_pad = (f, j, v)
                    continue
                if not (0 <= v < E):
                    if bad_range is None:
                        bad_range = (f, j, v)
                    continue
                if frozenset((int(enc[v, 0]), int(enc[v, 1]))) != pairs[f][j] and bad_edge is None:
                    bad_edge = (f, j, v, sorted(pairs[f][j]), enc[v].tolist())
        rec.check(bad_pad is None, "face_edge padded exactly where the face has no corner", scenario,
                  "non-FILL entry at a position j >= npf(f)", inp, bad_pad, "FILL")
        rec.check(bad_range is None, "face_edge entry is a valid edge index for j<npf", scenario,
                  "entry at j < npf(f) is FILL or out of range", inp, bad_range, f"0 <= e < {E}")
        rec.check(bad_edge is None, "face_edge[f,j]=={corner j, corner j+1}", scenario,
                  "face_edge_connectivity[f,j] is not the edge joining corner j and corner j+1 (cyclic)", inp,
                  bad_edge, "(f, j, e, expected pair, edge_node[e])")
    # Euler
    if closed and n_node is not None:
        chi = int(n_node) - int(n_edge) + n_face
        rec.check(chi == 2, "closed mesh: n_node-n_edge+n_face==2", scenario, f"Euler characteristic {chi}", inp, chi, 2)


def check_grid(rec, scenario, order, mesh, supplied=None, variant=None):
    """`supplied`: an edge table handed to the grid as the source's own edge_node_connectivity (None: edges are derived)"""
    extra = None
    if supplied is None:
        g = grid_of(mesh)
    else:
        keep = np.array(supplied, copy=True)
        g = grid_of(mesh, edge_node_connectivity=supplied)
        extra = {"edge_node_connectivity_supplied": _small(keep, 80), "variant": variant, "first_access_order": list(ORDERS[order])}
    got = {}
    for attr in ORDERS[order]:
        try:
            v = getattr(g, attr)
        except Exception as e:  # the property promises a result
            rec.check(False, f"{attr} raises {type(e).__name__}", scenario, f"{type(e).__name__}: {e}"[:200],
                      dict(_desc(mesh["name"], mesh["faces"]), **(extra or {})))
            return
        got[attr] = v
        if supplied is not None and hasattr(v, "values"):
            got[attr] = v.values.copy()
    if supplied is not None:
        # the edge table the grid reports is the one a fresh grid of the same source reports (the supplied rows, in their order),
        # whatever was accessed first (C08 wording; it used to be silently replaced by the derived table)
        rec.check(np.array_equal(g.edge_node_connectivity.values, keep), "edge_node stable across accesses", scenario,
                  "the supplied edge_node_connectivity was replaced / re-ordered by deriving face_edge_connectivity",
                  dict(_desc(mesh["name"], mesh["faces"]), **extra))
        _check_supplied(rec, scenario, mesh, g, got, extra)
        return
    # read everything again (values must be stable after all tables exist)
    enc = g.edge_node_connectivity.values
    fec = g.face_edge_connectivity.values
    npf_tab = g.n_nodes_per_face.values
    n_edge = g.n_edge
    inp = _desc(mesh["name"], mesh["faces"])
    if "n_edge" in got:
        rec.check(int(got["n_edge"]) == int(n_edge), "n_edge stable across accesses", scenario, "n_edge changed", inp,
                  int(got["n_edge"]), int(n_edge))
    if "edge_node_connectivity" in got:
        rec.check(np.array_equal(np.asarray(got["edge_node_connectivity"].values), enc), "edge_node stable across accesses",
                  scenario, "edge_node_connectivity changed after other tables were built", inp)
    rec.check(g.edge_node_connectivity.dims == ("n_edge", "two") and g.face_edge_connectivity.dims == ("n_face", "n_max_face_edges")
              and g.n_nodes_per_face.dims == ("n_face",), "UGRID dims of derived tables", scenario,
              "dimension names", inp, [g.edge_node_connectivity.dims, g.face_edge_connectivity.dims, g.n_nodes_per_face.dims])
    check_tables(rec, scenario, mesh["name"], mesh["faces"], enc, n_edge, npf_tab, fec, n_node=g.n_node,
                 closed=mesh.get("closed", False), n_max_face_edges=g.n_max_face_edges)
    # the face table itself must not have been altered by the derivation
    rec.check(np.array_equal(g.face_node_connectivity.values, mesh["faces"]), "face_node_connectivity unchanged by derivation",
              scenario, "face_node_connectivity differs from the input after deriving edges", inp)


def _check_supplied(rec, scenario, mesh, g, got, extra):
    """grid built with a source-supplied edge table: every clause on the tables the grid reports once all of them exist.
    (That the reported table IS the supplied one is checked by the caller.)"""
    enc = g.edge_node_connectivity.values
    fec = g.face_edge_connectivity.values
    npf_tab = g.n_nodes_per_face.values
    n_edge = g.n_edge
    inp = dict(_desc(mesh["name"], mesh["faces"]), **extra)
    rec.check(int(got["n_edge"]) == int(n_edge), "n_edge stable across accesses", scenario, "n_edge changed", inp,
              int(got["n_edge"]), int(n_edge))
    rec.check(np.array_equal(got["face_edge_connectivity"], fec), "face_edge stable across accesses", scenario,
              "face_edge_connectivity changed after it was first read", inp)
    rec.check(g.edge_node_connectivity.dims == ("n_edge", "two") and g.face_edge_connectivity.dims == ("n_face", "n_max_face_edges")
              and g.n_nodes_per_face.dims == ("n_face",), "UGRID dims of derived tables", scenario,
              "dimension names", inp, [g.edge_node_connectivity.dims, g.face_edge_connectivity.dims, g.n_nodes_per_face.dims])
    check_tables(rec, scenario, mesh["name"], mesh["faces"], enc, n_edge, npf_tab, fec, n_node=g.n_node,
                 closed=mesh.get("closed", False), n_max_face_edges=g.n_max_face_edges, extra_inp=extra)
    rec.check(np.array_equal(g.face_node_connectivity.values, mesh["faces"]), "face_node_connectivity unchanged by derivation",
              scenario, "face_node_connectivity differs from the input after deriving edges", inp)


def supplied_edge_tables(faces, rng):
    """edge tables a source could carry for `faces`: exactly the oracle pairs, each once, in non-derived row / node orders"""
    corners, pairs, eset = oracle(faces)
    srt = sorted(tuple(sorted(p)) for p in eset)          # (a, b) with a < b, lexicographic == the order of the derivation
    out = {}
    out["reversed_sorted"] = [list(r) for r in srt[::-1]]
    seen, walk = set(), []
    for c in corners:                                     # face by face, first appearance, directed as traversed
        for j in range(len(c)):
            a, b = c[j], c[(j + 1) % len(c)]
            if frozenset((a, b)) not in seen:
                seen.add(frozenset((a, b)))
                walk.append([a, b])
    out["face_walk_directed"] = walk
    sh = [list(r) for r in srt]
    rng.shuffle(sh)
    out["shuffled_swapped"] = [r[::-1] if rng.random() < 0.5 else r for r in sh]
    out["sorted_rows_swapped"] = [[b, a] for a, b in srt]
    rot = len(srt) // 2 or 1
    out["rotated_sorted"] = [list(r) for r in srt[rot:] + srt[:rot]]
    return {k: np.array(v, dtype=np.int64).reshape(-1, 2) for k, v in out.items()}


SUPPLIED_ORDERS = ("face_edge_first", "edge_node_first", "n_edge_first")


def _supplied_pass(rec, rng, distinct, meshes, tag, per_mesh):
    """`per_mesh` (variant, access order) combinations per mesh, rotating through all of them over the meshes"""
    n = 0
    for i, m in enumerate(meshes):
        tabs = supplied_edge_tables(m["faces"], rng)
        names = list(tabs)
        combos = [(v, o) for v in range(len(names)) for o in range(len(SUPPLIED_ORDERS))]
        for k in range(per_mesh):
            v, o = combos[(i * 7 + k * (len(SUPPLIED_ORDERS) + 1)) % len(combos)]
            order = SUPPLIED_ORDERS[o]
            tab = tabs[names[v]]
            distinct.add(("sup", m["faces"].tobytes(), m["faces"].shape, tab.tobytes()))
            check_grid(rec, f"{order}:supplied_edges{tag}", order, m, supplied=tab, variant=names[v])
            n += 1
    return n


def check_interleaved(rec, scenario, ma, mb):
    """two live grids; tables of A requested after B's edges were built (side tables must belong to the right grid)"""
    ga, gb = grid_of(ma), grid_of(mb)
    try:
        ga.edge_node_connectivity
        gb.edge_node_connectivity
        fec_a = ga.face_edge_connectivity.values
        gb.n_edge
        fec_b = gb.face_edge_connectivity.values
    except Exception as e:
        rec.check(False, f"face_edge_connectivity raises {type(e).__name__}", scenario, f"{type(e).__name__}: {e}"[:200],
                  {"meshA": ma["name"], "meshB": mb["name"]})
        return
    check_tables(rec, scenario, ma["name"], ma["faces"], ga.edge_node_connectivity.values, ga.n_edge, ga.n_nodes_per_face.values, fec_a)
    check_tables(rec, scenario, mb["name"], mb["faces"], gb.edge_node_connectivity.values, gb.n_edge, gb.n_nodes_per_face.values, fec_b)


# ------------------------------------------------------------------------------------------------ builders
def _pyf(f):
    return getattr(f, "py_func", f)


def check_builders(rec, scenario, name, faces):
    from uxarray.grid import connectivity as C
    faces = np.ascontiguousarray(np.asarray(faces, dtype=np.intp))
    keep = faces.copy()
    n_face, n_max = faces.shape
    corners, pairs, eset = oracle(faces)
    inp = _desc(name, faces)

    # close_face_nodes
    closed = C.close_face_nodes(faces, n_face, n_max)
    exp = np.full((n_face, n_max + 1), FILL, dtype=np.intp)
    for f, c in enumerate(corners):
        exp[f, :len(c)] = c
        exp[f, len(c)] = c[0]
    rec.check(closed.shape == exp.shape and np.array_equal(closed, exp), "close_face_nodes==corners+first corner+padding",
              scenario, "closed table wrong", inp, _small(closed), _small(exp))
    rec.check(closed.dtype == INTP, "close_face_nodes.dtype==intp", scenario, f"dtype {closed.dtype}", inp, str(closed.dtype), str(INTP))

    # n_nodes_per_face (compiled object as exported, and its python body when it is a dispatcher)
    fns = [("", C._build_n_nodes_per_face)]
    if hasattr(C._build_n_nodes_per_face, "py_func"):
        fns.append(("py_func", C._build_n_nodes_per_face.py_func))
    npf_tab = None
    for tag, fn in fns:
        r = np.asarray(fn(faces, n_face, n_max))
        npf_tab = r if npf_tab is None else npf_tab
        rec.check(r.shape == (n_face,) and r.tolist() == [len(c) for c in corners], "_build_n_nodes_per_face==real corners",
                  scenario + tag, "wrong corner counts", inp, _small(r), [len(c) for c in corners][:60])

    # edge nodes + inverse + mask
    enc, inv, mask = C._build_edge_node_connectivity(faces, n_face, n_max)
    rec.check(np.asarray(inv).shape == (n_face * n_max,), "inverse_indices.shape==(n_face*n_max,)", scenario, "shape", inp,
              list(np.asarray(inv).shape), [n_face * n_max])
    fec = C._build_face_edge_connectivity(np.asarray(inv).copy(), n_face, n_max)
    check_tables(rec, scenario, name, faces, enc, len(enc), npf_tab, fec)
    rec.check(np.array_equal(faces, keep), "builders leave their input table unchanged", scenario, "input modified", inp)


# ------------------------------------------------------------------------------------------------ entry point
_LON5 = np.array([3.0, 17.0, 29.0, 8.0, -12.0, 41.0, -25.0, 33.0])
_LAT5 = np.array([-4.0, 6.0, -9.0, 21.0, 13.0, 18.0, -17.0, 27.0])


def _table_mesh(tab, n_node, idx):
    return {"name": f"table{tab.tolist()}".replace(str(FILL), "F"), "lon": _LON5[:n_node], "lat": _LAT5[:n_node], "faces": tab,
            "closed": False, "n_node": n_node, "n_face": tab.shape[0]}


def _catalogue_pass(rec, tier, seed, distinct):
    cat = mg.catalogue(tier, seed)
    for m in cat:
        distinct.add(("cat", m["faces"].tobytes(), m["faces"].shape))
        for order in ORDERS:
            check_grid(rec, f"{order}:catalogue", order, m)
        check_builders(rec, "builders:catalogue", m["name"], m["faces"])

    # the same meshes with two additional completely padded columns (n_max larger than the widest face)
    extra = []
    for m in cat[:14]:
        f = m["faces"]
        wide = np.full((f.shape[0], f.shape[1] + 2), FILL, dtype=np.int64)
        wide[:, :f.shape[1]] = f
        mm = dict(m)
        mm["faces"] = wide
        mm["name"] = m["name"] + "+2padcols"
        extra.append(mm)
    for m in extra:
        distinct.add(("pad", m["faces"].tobytes(), m["faces"].shape))
        for order in ORDERS:
            check_grid(rec, f"{order}:extra_padding_columns", order, m)
        check_builders(rec, "builders:extra_padding_columns", m["name"], m["faces"])

    # interleaved use of two grids
    pairs_ = [(cat[i], cat[(i * 7 + 3) % len(cat)]) for i in range(0, len(cat), 3 if tier == "quick" else 1)]
    for ma, mb in pairs_:
        check_interleaved(rec, "two_grids_interleaved:catalogue", ma, mb)
    return cat, extra, pairs_


def _jit_disabled():
    # numba.config.DISABLE_JIT is overwritten by uxarray.grid.area at import time, so look at the builder itself
    from uxarray.grid import connectivity as C
    return not hasattr(C._build_n_nodes_per_face, "py_func")


def _jit_entry(seed):
    """run in a child process with NUMBA_DISABLE_JIT=0: the quick catalogue pass on the compiled builders"""
    rec = _Rec()
    _catalogue_pass(rec, "quick", seed, set())
    return {"cases": rec.cases, "failures": rec.failures, "jit_disabled": _jit_disabled()}


def _jit_start(seed):
    """start the catalogue checks with numba JIT enabled in a child process (runs concurrently with the main pass)"""
    import os
    import subprocess
    import sys
    here = os.path.dirname(os.path.dirname(os.path.abspath(__file__)))
    code = ("import sys, json, warnings; warnings.filterwarnings('ignore'); sys.path.insert(0, %r); "
            "from standins import C02; print('\\n' + json.dumps(C02._jit_entry(%d)))" % (here, int(seed)))
    env = dict(os.environ, NUMBA_DISABLE_JIT="0")
    return subprocess.Popen([sys.executable, "-W", "ignore", "-c", code], env=env, stdout=subprocess.PIPE, stderr=subprocess.PIPE,
                            text=True)


def _jit_collect(rec, proc):
    """merge the child's result; only failures whose key was not already seen in the main pass are added"""
    import json
    stdout, stderr = proc.communicate(timeout=900)
    if proc.returncode != 0:
        raise RuntimeError("C02 JIT child failed: " + stderr[-800:])
    out = json.loads(stdout.strip().splitlines()[-1])
    if out["jit_disabled"]:
        raise RuntimeError("C02 JIT child ran with JIT disabled")
    rec.cases += out["cases"]
    for f in out["failures"]:
        if f["key"] in rec.keys:
            continue
        f = dict(f)
        f["key"] += ":jit_enabled"
        if f["key"] not in rec.keys:
            rec.keys.add(f["key"])
            rec.failures.append(f)


def _sliced_pass(rec, rng, distinct, meshes, tier):
    """edge tables of a grid obtained with Grid.isel(n_face=...) are the boundary segments of ITS faces (checked against the oracle
    of the subset's own face table), whatever the source grid had built before"""
    n = 0
    for mesh in meshes:
        nf = mesh["n_face"]
        if nf < 2:
            continue
        sels = {"all_but_last": list(range(nf - 1)), "every_other": list(range(0, nf, 2)),
                "random_half": sorted(rng.sample(range(nf), max(1, nf // 2)))}
        if nf >= 4:
            sels["two_far_apart"] = [0, nf - 1]
        for sname, keep in sels.items():
            for prepared in (("nothing", "edges_built") if tier == "thorough" else (("nothing",) if n % 2 else ("edges_built",))):
                n += 1
                distinct.add(("slice", mesh["name"], sname, prepared))
                scenario = f"sliced:Grid.isel(n_face):{prepared}"
                inp = dict(_desc(mesh["name"], mesh["faces"]), selection=sname, faces_kept=_small(np.array(keep), 40))
                g = grid_of(mesh)
                try:
                    if prepared == "edges_built":
                        g.edge_node_connectivity, g.face_edge_connectivity
                    sub = g.isel(n_face=keep)
                    sfaces = np.array(sub.face_node_connectivity.values)
                    enc = sub.edge_node_connectivity.values
                    n_edge = sub.n_edge
                    fec = sub.face_edge_connectivity.values
                    npf_tab = sub.n_nodes_per_face.values
                    enc2 = sub.edge_node_connectivity.values
                except Exception as e:  # noqa: BLE001
                    rec.check(False, f"edge tables of a face subset raise {type(e).__name__}", scenario, f"{type(e).__name__}: {e}"[:200], inp)
                    continue
                rec.check(np.array_equal(enc, enc2), "edge_node stable across accesses", scenario,
                          "edge_node_connectivity of the subset changed after face_edge_connectivity was built", inp)
                check_tables(rec, scenario, mesh["name"] + ":" + sname, sfaces, enc2, n_edge, npf_tab, fec, n_node=sub.n_node,
                             n_max_face_edges=sub.n_max_face_edges, extra_inp={"selection": sname, "faces_kept": _small(np.array(keep), 40)})
    return n


def _edges(tier, seed, child):
    rng = random.Random(seed * 1000003 + 17)
    rec = _Rec()
    distinct = set()
    samples = []

    cat, extra, pairs_ = _catalogue_pass(rec, tier, seed, distinct)
    samples += [{"mesh": m["name"], "n_face": m["n_face"], "n_node": m["n_node"]} for m in cat[:2]]

    # exhaustive small scope
    n_node = 5
    if tier == "thorough":
        tabs = mg.all_small_tables(max_faces=2, n_max=4, n_node=n_node)
        scope = "all 32580"
    else:
        alltabs = list(mg.all_small_tables(max_faces=2, n_max=4, n_node=n_node))
        tabs = [alltabs[i] for i in sorted(rng.sample(range(len(alltabs)), 400))]
        scope = "a seeded sample of 400 of the 32580"
    order_names = list(ORDERS)
    nt = 0
    sup_tabs = []
    sup_step = 7 if tier == "quick" else 40
    for i, tab in enumerate(tabs):
        nt += 1
        if i % sup_step == 0:
            sup_tabs.append(_table_mesh(tab, n_node, i))
        distinct.add(("tab", tab.tobytes(), tab.shape))
        m = _table_mesh(tab, n_node, i)
        check_builders(rec, "builders:small_tables", m["name"], tab)
        for order in order_names[:3]:
            check_grid(rec, f"{order}:small_tables", order, m)
        if len(samples) < 3:
            samples.append({"table": tab.tolist()})

    # source-supplied edge tables (rows permuted / node order swapped), three orders of first access
    n_sup = _supplied_pass(rec, rng, distinct, cat, ":catalogue", 3 if tier == "quick" else 15)
    n_sup += _supplied_pass(rec, rng, distinct, sup_tabs, ":small_tables", 1 if tier == "quick" else 3)

    sl_m = [m for m in cat if m["n_face"] <= 40][: (60 if tier == "thorough" else 14)]
    n_sl = _sliced_pass(rec, rng, distinct, sl_m, tier)

    if child is not None:
        _jit_collect(rec, child)
        jit = "main pass with numba JIT disabled (njit builders run as Python) + the quick catalogue pass repeated in a child process with JIT enabled"
    else:
        jit = "numba JIT enabled"

    bound = (f"{n_sl} face subsets (all but one / every other / random half / two far apart) of {len(sl_m)} catalogue meshes via Grid.isel, edge "
             f"tables of the subset checked against the subset's own faces; "
             f"{len(cat)} catalogue meshes (small, renumbered, closed, random; tier {tier}) x {len(ORDERS)} first-access orders + builders, "
             f"{len(extra)} meshes with two extra all-padding columns, {len(pairs_)} interleaved grid pairs, and {scope} "
             f"standard-form tables with <=2 faces, <=4 corners, 5 nodes ({nt} tables x 3 access orders + builders); Euler count on the closed "
             f"catalogue meshes; {n_sup} grids built with a source-supplied edge_node_connectivity (the oracle pairs in reversed, face-walk, "
             f"shuffled, rotated row order and/or swapped node order) over the catalogue and small tables x 3 access orders; {jit}")
    return result(rec.cases, len(distinct), rec.failures, bound, samples)


def edges(tier, seed):
    child = _jit_start(seed) if _jit_disabled() else None
    try:
        return _edges(tier, seed, child)
    except BaseException:
        if child is not None and child.poll() is None:
            child.kill()
        raise



def consumers(tier, seed):
    """the derived edge tables and n_nodes_per_face a grid reports are unchanged by operations that only read them (shared with C03:
    standins.C03.consumers compares every table with a copy taken before differences, gradients, aggregations, integration,
    subsetting, area / bounds / dual construction)"""
    from .C03 import consumers as _consumers
    return _consumers(tier, seed)
