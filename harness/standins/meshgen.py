"""Mesh generators shared by the bounded stand-ins (run under /venv/bin/python; numpy only, uxarray is NOT imported here).

A mesh is a dict:
  {"name": str, "lon": float array (deg, in [-180, 180]), "lat": float array (deg), "faces": int64 array (n_face, n_max)
   padded at the row ends with FILL, "closed": bool (tiles the whole sphere), "n_node", "n_face"}
Faces are simple, convex-ish, counter-clockwise seen from outside the sphere, 3..8 corners.

  small_meshes()                      deterministic catalogue (quads, mixed, isolated faces, holes, multi-shared edges ...)
  closed_meshes()                     cube, octahedron, icosahedron, uv-sphere with polar fans, cubed sphere (n=2), hex-pent dual
  random_mesh(rng, ...)               random planar patch of mixed 3..8-gons placed anywhere (poles / antimeridian optional)
  renumber(mesh, rng)                 random node + face renumbering, random start corner per face (same geometry)
  all_small_tables(max_faces, n_max, n_node)   exhaustive standard-form face-node tables (combinatorial only; lon/lat arbitrary)
  oracle helpers: npf, face_corners, edge_set, face_edges_pairs
"""
import itertools
import math
import random

import numpy as np

FILL = -(2 ** 63)


# ---------------------------------------------------------------------------------------------- helpers
def pad_faces(face_lists, n_max=None):
    n_max = n_max or max(len(f) for f in face_lists)
    out = np.full((len(face_lists), n_max), FILL, dtype=np.int64)
    for i, f in enumerate(face_lists):
        out[i, :len(f)] = f
    return out


def mk(name, lon, lat, face_lists, closed=False, n_max=None):
    lon = np.asarray(lon, dtype=np.float64)
    lat = np.asarray(lat, dtype=np.float64)
    lon = ((lon + 180.0) % 360.0) - 180.0
    faces = pad_faces([list(map(int, f)) for f in face_lists], n_max)
    return {"name": name, "lon": lon, "lat": lat, "faces": faces, "closed": closed, "n_node": len(lon),
            "n_face": len(face_lists)}


def npf(faces):
    """number of real corners per row"""
    return (np.asarray(faces) != FILL).sum(axis=1)


def face_corners(mesh, f):
    row = mesh["faces"][f]
    return [int(x) for x in row if x != FILL]


def edge_pairs_of_face(row):
    c = [int(x) for x in row if x != FILL]
    return [tuple(sorted((c[j], c[(j + 1) % len(c)]))) for j in range(len(c))]


def edge_set(faces):
    s = set()
    for row in faces:
        s.update(edge_pairs_of_face(row))
    return s


def xyz_of(lon_deg, lat_deg):
    lo, la = np.deg2rad(lon_deg), np.deg2rad(lat_deg)
    return np.cos(lo) * np.cos(la), np.sin(lo) * np.cos(la), np.sin(la)


def lonlat_of(x, y, z):
    r = np.sqrt(x * x + y * y + z * z)
    lat = np.rad2deg(np.arcsin(np.clip(z / r, -1, 1)))
    lon = np.rad2deg(np.arctan2(y, x))
    return lon, lat


def rotate_mesh(mesh, axis, angle_deg, name=None):
    """rigid rotation of all nodes about a unit axis (Rodrigues)"""
    x, y, z = xyz_of(mesh["lon"], mesh["lat"])
    k = np.asarray(axis, float)
    k = k / np.linalg.norm(k)
    v = np.stack([x, y, z], axis=1)
    a = math.radians(angle_deg)
    vr = v * math.cos(a) + np.cross(k, v) * math.sin(a) + np.outer(v @ k, k) * (1 - math.cos(a))
    lon, lat = lonlat_of(vr[:, 0], vr[:, 1], vr[:, 2])
    m = dict(mesh)
    m["lon"], m["lat"] = ((lon + 180.0) % 360.0) - 180.0, lat
    m["name"] = name or (mesh["name"] + f"_rot{angle_deg:g}")
    return m


def renumber(mesh, rng, nodes=True, faces=True, start=True, name=None):
    """same geometry, different numbering: node permutation, face permutation, rotated start corner (orientation kept)"""
    n, nf = mesh["n_node"], mesh["n_face"]
    perm = list(range(n))
    if nodes:
        rng.shuffle(perm)  # old -> new
    new_lon = np.empty(n)
    new_lat = np.empty(n)
    for old, new in enumerate(perm):
        new_lon[new] = mesh["lon"][old]
        new_lat[new] = mesh["lat"][old]
    order = list(range(nf))
    if faces:
        rng.shuffle(order)
    fl = []
    for f in order:
        c = [perm[v] for v in face_corners(mesh, f)]
        if start:
            k = rng.randrange(len(c))
            c = c[k:] + c[:k]
        fl.append(c)
    m = mk(name or mesh["name"] + "_renum", new_lon, new_lat, fl, mesh["closed"], mesh["faces"].shape[1])
    m["node_perm"] = perm      # old node -> new node
    m["face_order"] = order    # new face i is old face order[i]
    return m


# ---------------------------------------------------------------------------------------------- catalogue
def quad_patch(nx, ny, lon0=-20.0, lat0=-10.0, d=10.0, name=None):
    lons, lats = [], []
    for j in range(ny + 1):
        for i in range(nx + 1):
            lons.append(lon0 + d * i)
            lats.append(lat0 + d * j)
    faces = []
    for j in range(ny):
        for i in range(nx):
            a = j * (nx + 1) + i
            faces.append([a, a + 1, a + nx + 2, a + nx + 1])
    return mk(name or f"quads{nx}x{ny}@{lon0:g},{lat0:g}", lons, lats, faces)


def small_meshes():
    out = []
    out.append(quad_patch(1, 1))
    out.append(quad_patch(2, 1))
    out.append(quad_patch(2, 2))
    out.append(quad_patch(3, 2, lon0=165.0, lat0=-15.0))            # crosses the antimeridian
    out.append(quad_patch(2, 2, lon0=-10.0, lat0=-10.0))            # crosses the prime meridian / equator
    out.append(quad_patch(2, 1, lon0=30.0, lat0=70.0, d=8.0))       # high latitude
    # quad + triangle sharing an edge + isolated triangle (padding, isolated face)
    out.append(mk("mixed_quad_tri_isolated", [0, 10, 10, 0, 20, 40, 50, 45], [0, 0, 10, 10, 5, 0, 0, 8],
                  [[0, 1, 2, 3], [1, 4, 2], [5, 6, 7]]))
    # single triangle / single pentagon
    out.append(mk("single_tri", [0, 10, 5], [0, 0, 8], [[0, 1, 2]]))
    out.append(mk("single_pent", [0, 10, 13, 5, -3], [0, 0, 8, 14, 8], [[0, 1, 2, 3, 4]]))
    # triangle first, then pentagon and quad (padding layout with the widest row in the middle)
    out.append(mk("tri_pent_quad", [0, 10, 5, 15, 20, 12, 22, 30, 30], [0, 0, 8, 9, 0, 16, 14, 0, 10],
                  [[0, 1, 2], [1, 4, 6, 3, 2], [4, 7, 8, 6]]))
    # n_node == n_face is impossible for planar patches of polygons with >=3 distinct nodes unless faces overlap;
    # strip of triangles sharing nodes: 4 nodes, 2 faces ; fan: 5 nodes 4 faces
    out.append(mk("tri_fan4", [0, 10, 0, -10, 0], [0, 0, 10, 0, -10], [[0, 1, 2], [0, 2, 3], [0, 3, 4], [0, 4, 1]]))
    # ring of quads with a hole in the middle (interior boundary)
    lons = [0, 10, 20, 30, 0, 10, 20, 30, 0, 10, 20, 30, 0, 10, 20, 30]
    lats = [0, 0, 0, 0, 10, 10, 10, 10, 20, 20, 20, 20, 30, 30, 30, 30]
    faces = []
    for j in range(3):
        for i in range(3):
            if (i, j) == (1, 1):
                continue
            a = j * 4 + i
            faces.append([a, a + 1, a + 5, a + 4])
    out.append(mk("ring_with_hole", lons, lats, faces))
    # two faces sharing two edges: concave arrow-head quad with its notch filled by a triangle, plus a hanging triangle
    out.append(mk("two_shared_edges", [0, 10, 20, 10, 10], [0, 6, 0, 20, -12],
                  [[0, 1, 2, 3], [0, 2, 1], [0, 4, 2]]))
    # hexagon + neighbours of different size (3..8-gons in one mesh)
    hx = [10 * math.cos(math.radians(60 * k)) for k in range(6)]
    hy = [10 * math.sin(math.radians(60 * k)) for k in range(6)]
    lons = hx + [20, 20, 14]
    lats = hy + [0, 9, 17]
    out.append(mk("hex_quad_tri", lons, lats, [[0, 1, 2, 3, 4, 5], [0, 6, 7, 1], [1, 7, 8]]))
    # octagon with a heptagon neighbour (8 and 7 corners)
    ox = [8 * math.cos(math.radians(45 * k + 22.5)) for k in range(8)]
    oy = [8 * math.sin(math.radians(45 * k + 22.5)) for k in range(8)]
    lons = ox + [14, 18, 18, 14, 11]
    lats = oy + [-6, -3, 3, 6, 0][:5]
    out.append(mk("oct_hept", lons, lats, [[0, 1, 2, 3, 4, 5, 6, 7], [7, 8, 9, 10, 11, 0, 12][:7]]))
    return [m for m in out if _valid(m)]


def _valid(m):
    # all indices in range, rows distinct nodes
    for f in range(m["n_face"]):
        c = face_corners(m, f)
        if len(set(c)) != len(c) or len(c) < 3 or max(c) >= m["n_node"]:
            return False
    return True


def cube():
    lon = [-135, -45, 45, 135, -135, -45, 45, 135]
    a = math.degrees(math.asin(1 / math.sqrt(3)))
    lat = [-a] * 4 + [a] * 4
    faces = [[0, 1, 5, 4], [1, 2, 6, 5], [2, 3, 7, 6], [3, 0, 4, 7], [4, 5, 6, 7], [3, 2, 1, 0]]
    return mk("cube", lon, lat, faces, closed=True)


def octahedron():
    lon = [0, 90, 180, -90, 0, 0]
    lat = [0, 0, 0, 0, 90, -90]
    faces = [[0, 1, 4], [1, 2, 4], [2, 3, 4], [3, 0, 4], [1, 0, 5], [2, 1, 5], [3, 2, 5], [0, 3, 5]]
    return mk("octahedron", lon, lat, faces, closed=True)


def icosahedron():
    t = (1 + math.sqrt(5)) / 2
    v = np.array([(-1, t, 0), (1, t, 0), (-1, -t, 0), (1, -t, 0), (0, -1, t), (0, 1, t), (0, -1, -t), (0, 1, -t),
                  (t, 0, -1), (t, 0, 1), (-t, 0, -1), (-t, 0, 1)], float)
    f = [(0, 11, 5), (0, 5, 1), (0, 1, 7), (0, 7, 10), (0, 10, 11), (1, 5, 9), (5, 11, 4), (11, 10, 2), (10, 7, 6),
         (7, 1, 8), (3, 9, 4), (3, 4, 2), (3, 2, 6), (3, 6, 8), (3, 8, 9), (4, 9, 5), (2, 4, 11), (6, 2, 10), (8, 6, 7),
         (9, 8, 1)]
    # rotate a little so that no vertex sits exactly on a pole / the antimeridian
    lon, lat = lonlat_of(v[:, 0], v[:, 1], v[:, 2])
    m = mk("icosahedron", lon, lat, [list(x) for x in f], closed=True)
    return _ccw(rotate_mesh(m, (0.3, 0.5, 0.8), 17.0, "icosahedron"))


def uv_sphere(nlon=6, nlat=4, name=None):
    """polar triangle fans + quad bands; poles are nodes"""
    lons, lats = [0.0], [-90.0]
    for j in range(1, nlat):
        for i in range(nlon):
            lons.append(-180.0 + 360.0 * i / nlon + 7.0)
            lats.append(-90.0 + 180.0 * j / nlat)
    lons.append(0.0)
    lats.append(90.0)
    top = len(lons) - 1
    ring = lambda j, i: 1 + (j - 1) * nlon + (i % nlon)
    faces = []
    for i in range(nlon):
        faces.append([0, ring(1, i + 1), ring(1, i)])
    for j in range(1, nlat - 1):
        for i in range(nlon):
            faces.append([ring(j, i), ring(j, i + 1), ring(j + 1, i + 1), ring(j + 1, i)])
    for i in range(nlon):
        faces.append([ring(nlat - 1, i), ring(nlat - 1, i + 1), top])
    return _ccw(mk(name or f"uv_sphere{nlon}x{nlat}", lons, lats, faces, closed=True))


def cubed_sphere(n=2):
    """gnomonic cubed sphere with n x n quads per panel"""
    pts = {}
    lon, lat, faces = [], [], []

    def node(p):
        key = tuple(round(c, 9) for c in p)
        if key not in pts:
            pts[key] = len(lon)
            lo, la = lonlat_of(np.array(p[0]), np.array(p[1]), np.array(p[2]))
            lon.append(float(lo))
            lat.append(float(la))
        return pts[key]
    panels = [lambda a, b: (1, a, b), lambda a, b: (-a, 1, b), lambda a, b: (-1, -a, b), lambda a, b: (a, -1, b),
              lambda a, b: (-b, a, 1), lambda a, b: (b, a, -1)]
    g = [math.tan(-math.pi / 4 + (math.pi / 2) * i / n) for i in range(n + 1)]
    for P in panels:
        for j in range(n):
            for i in range(n):
                q = []
                for (a, b) in ((g[i], g[j]), (g[i + 1], g[j]), (g[i + 1], g[j + 1]), (g[i], g[j + 1])):
                    v = np.array(P(a, b), float)
                    v /= np.linalg.norm(v)
                    q.append(node(v))
                faces.append(q)
    m = mk(f"cubed_sphere{n}", lon, lat, faces, closed=True)
    return _ccw(rotate_mesh(m, (0.2, 0.9, 0.4), 11.0, f"cubed_sphere{n}"))


def _ccw(m):
    """orient every face counter-clockwise seen from outside"""
    x, y, z = xyz_of(m["lon"], m["lat"])
    P = np.stack([x, y, z], axis=1)
    fl = []
    for f in range(m["n_face"]):
        c = face_corners(m, f)
        ctr = P[c].mean(axis=0)
        nrm = np.zeros(3)
        for j in range(len(c)):
            nrm += np.cross(P[c[j]], P[c[(j + 1) % len(c)]])
        if nrm @ ctr < 0:
            c = [c[0]] + c[:0:-1]
        fl.append(c)
    out = mk(m["name"], m["lon"], m["lat"], fl, m["closed"], m["faces"].shape[1])
    return out


def dual_of(mesh, name=None):
    """independent dual construction (closed meshes): one node per face (normalised mean of corners), one face per node with
    the incident faces ordered counter-clockwise"""
    x, y, z = xyz_of(mesh["lon"], mesh["lat"])
    P = np.stack([x, y, z], axis=1)
    ctr = []
    for f in range(mesh["n_face"]):
        c = P[face_corners(mesh, f)].mean(axis=0)
        ctr.append(c / np.linalg.norm(c))
    ctr = np.array(ctr)
    inc = {n: [] for n in range(mesh["n_node"])}
    for f in range(mesh["n_face"]):
        for v in face_corners(mesh, f):
            inc[v].append(f)
    fl = []
    for n in range(mesh["n_node"]):
        fs = inc[n]
        if len(fs) < 3:
            continue
        p = P[n]
        e1 = np.cross(p, [0.0, 0.0, 1.0] if abs(p[2]) < 0.9 else [1.0, 0.0, 0.0])
        e1 /= np.linalg.norm(e1)
        e2 = np.cross(p, e1)
        ang = [math.atan2((ctr[f] - p) @ e2, (ctr[f] - p) @ e1) for f in fs]
        fl.append([f for _, f in sorted(zip(ang, fs))])
    lo, la = lonlat_of(ctr[:, 0], ctr[:, 1], ctr[:, 2])
    return mk(name or mesh["name"] + "_dual", lo, la, fl, mesh["closed"])


def closed_meshes(thorough=False):
    out = [cube(), octahedron(), icosahedron(), uv_sphere(6, 4), cubed_sphere(2)]
    out.append(dual_of(icosahedron(), "dodecahedron"))           # 12 pentagons
    out.append(dual_of(uv_sphere(5, 3), "uv_dual_5x3"))          # pentagon caps + quads
    if thorough:
        out += [uv_sphere(8, 6), uv_sphere(5, 5), cubed_sphere(3), dual_of(cubed_sphere(2), "cubed2_dual"),
                dual_of(uv_sphere(7, 4), "uv_dual_7x4")]
    return out


# ---------------------------------------------------------------------------------------------- random meshes
def random_mesh(rng, nx=None, ny=None, place="any", holes=True, merge=True, name=None):
    """random planar patch: jittered quad lattice; cells randomly split into 2 triangles, merged with a neighbour into a
    hexagon (shared edge removed), given an extra mid-edge node (pentagon) or dropped (hole / partial coverage).
    place: 'any' | 'mid' | 'antimeridian' | 'north' | 'south' | 'prime'"""
    nx = nx or rng.randint(1, 4)
    ny = ny or rng.randint(1, 3)
    d = rng.choice([4.0, 8.0, 12.0])
    if place == "any":
        place = rng.choice(["mid", "antimeridian", "north", "south", "prime", "mid"])
    lon0 = {"mid": rng.uniform(-150, 100), "antimeridian": 180.0 - d * nx / 2 - rng.uniform(-2, 2), "prime": -d * nx / 2,
            "north": rng.uniform(-170, 100), "south": rng.uniform(-170, 100)}[place]
    lat0 = {"mid": rng.uniform(-50, 30), "antimeridian": rng.uniform(-40, 20), "prime": -d * ny / 2,
            "north": 84.0 - d * ny, "south": -84.0}[place]
    lons, lats = [], []
    for j in range(ny + 1):
        for i in range(nx + 1):
            lons.append(lon0 + d * i + rng.uniform(-0.15, 0.15) * d)
            lats.append(lat0 + d * j + rng.uniform(-0.15, 0.15) * d)
    nid = lambda i, j: j * (nx + 1) + i
    cells = {}
    for j in range(ny):
        for i in range(nx):
            cells[(i, j)] = [nid(i, j), nid(i + 1, j), nid(i + 1, j + 1), nid(i, j + 1)]
    faces = []
    used = set()
    keys = list(cells)
    rng.shuffle(keys)
    for (i, j) in keys:
        if (i, j) in used:
            continue
        used.add((i, j))
        c = cells[(i, j)]
        r = rng.random()
        if holes and r < 0.12 and len(keys) > 1:
            continue                                     # hole
        if r < 0.35:
            if rng.random() < 0.5:
                faces.append([c[0], c[1], c[2]])
                faces.append([c[0], c[2], c[3]])
            else:
                faces.append([c[0], c[1], c[3]])
                faces.append([c[1], c[2], c[3]])
        elif merge and r < 0.5 and (i + 1, j) in cells and (i + 1, j) not in used:
            used.add((i + 1, j))
            c2 = cells[(i + 1, j)]
            faces.append([c[0], c[1], c2[1], c2[2], c[2], c[3]])   # hexagon (two cells merged)
        elif r < 0.62:
            # pentagon: extra node on the bottom edge, only if the cell below is not present (keeps the mesh conforming)
            if (i, j - 1) not in cells:
                lons.append((lons[c[0]] + lons[c[1]]) / 2)
                lats.append((lats[c[0]] + lats[c[1]]) / 2 - 0.2 * d)
                faces.append([c[0], len(lons) - 1, c[1], c[2], c[3]])
            else:
                faces.append(c)
        else:
            faces.append(c)
    if not faces:
        faces.append(cells[keys[0]])
    # drop unused nodes
    usedn = sorted({v for f in faces for v in f})
    remap = {old: new for new, old in enumerate(usedn)}
    lons = [lons[o] for o in usedn]
    lats = [lats[o] for o in usedn]
    faces = [[remap[v] for v in f] for f in faces]
    lats = [max(-89.0, min(89.0, a)) for a in lats]
    m = mk(name or f"rand_{place}_{nx}x{ny}", lons, lats, faces)
    return _ccw(m)


def random_meshes(seed, n, renumbered=True, **kw):
    rng = random.Random(seed)
    out = []
    for k in range(n):
        m = random_mesh(rng, **kw)
        m["name"] += f"#{k}"
        if renumbered and rng.random() < 0.7:
            m = renumber(m, rng, name=m["name"] + "r")
        out.append(m)
    return out


# ---------------------------------------------------------------------------------------------- exhaustive small tables
def all_small_tables(max_faces=2, n_max=4, n_node=5, min_size=3):
    """every standard-form face-node table (rows of distinct node ids, 3..n_max real corners, padded at the end), up to
    rotation of each row (canonical: smallest node first is NOT imposed - start corner matters for some checks)"""
    rows = []
    for k in range(min_size, n_max + 1):
        for c in itertools.permutations(range(n_node), k):
            rows.append(list(c) + [FILL] * (n_max - k))
    for nf in range(1, max_faces + 1):
        for combo in itertools.product(rows, repeat=nf):
            yield np.array(combo, dtype=np.int64)


def catalogue(tier="quick", seed=0):
    """the standard mesh list used by most stand-ins"""
    rng = random.Random(seed * 7919 + 13)
    ms = list(small_meshes())
    ms += [renumber(m, rng) for m in small_meshes()[2:9]]
    ms += closed_meshes(thorough=(tier == "thorough"))
    ms += random_meshes(seed * 31 + 5, 12 if tier == "quick" else 120)
    return ms


if __name__ == "__main__":
    for m in catalogue():
        sizes = sorted(set(npf(m["faces"]).tolist()))
        print(f"{m['name']:32s} nodes={m['n_node']:3d} faces={m['n_face']:3d} sizes={sizes} closed={m['closed']}")
