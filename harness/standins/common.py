"""shared generators for the bounded stand-ins (run under /venv/bin/python)"""
import itertools
import math
import random
import warnings

import numpy as np

warnings.filterwarnings("ignore")
import uxarray as ux
from uxarray.constants import INT_FILL_VALUE as FILL

FILL = int(FILL)


def quad_grid(nx=2, ny=1, lon0=-20.0, lat0=-10.0, d=10.0, shuffle=None):
    """nx x ny quads; returns node_lon, node_lat, face_nodes"""
    lons, lats = [], []
    for j in range(ny + 1):
        for i in range(nx + 1):
            lons.append(lon0 + d * i)
            lats.append(lat0 + d * j)
    faces = []
    for j in range(ny):
        for i in range(nx):
            a = j * (nx + 1) + i
            faces.append([a, a + 1, a + nx + 2, a + nx + 1])
    return np.array(lons, float), np.array(lats, float), np.array(faces, dtype=np.int64)


def mixed_grid():
    """one quad + one triangle sharing an edge + an isolated triangle (mixed sizes, padding)"""
    lon = np.array([0.0, 10.0, 10.0, 0.0, 20.0, 40.0, 50.0, 45.0])
    lat = np.array([0.0, 0.0, 10.0, 10.0, 5.0, 0.0, 0.0, 8.0])
    faces = np.array([[0, 1, 2, 3], [1, 4, 2, FILL], [5, 6, 7, FILL]], dtype=np.int64)
    return lon, lat, faces


def grid_from(lon, lat, faces, **kw):
    return ux.Grid.from_topology(node_lon=np.array(lon, float), node_lat=np.array(lat, float),
                                 face_node_connectivity=np.array(faces), fill_value=FILL, **kw)


def grid_of(mesh, **kw):
    """a FRESH Grid for a meshgen mesh"""
    return ux.Grid.from_topology(node_lon=np.array(mesh["lon"], float), node_lat=np.array(mesh["lat"], float),
                                 face_node_connectivity=np.array(mesh["faces"]), fill_value=FILL, **kw)


def dedupe(failures, limit=40):
    seen, out = set(), []
    for f in failures:
        k = f.get("key") or f.get("what") or f.get("violated")
        if k in seen:
            continue
        seen.add(k)
        out.append(f)
    return out[:limit]


def result(cases, distinct, failures, bound, samples=None):
    return {"cases": int(cases), "distinct": int(distinct), "failures": dedupe(failures), "bound": bound,
            "samples": (samples or [])[:3]}


def close(a, b, rtol=1e-9, atol=1e-9):
    return bool(np.allclose(np.asarray(a, float), np.asarray(b, float), rtol=rtol, atol=atol, equal_nan=True))
