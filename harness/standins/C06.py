"""C06: integration is the area-weighted sum over faces (bounded stand-in).

`integration(tier, seed)`: for meshes of the meshgen catalogue plus meshes with n_face == n_node (tetrahedron, square and
pentagonal pyramid) and n_face == n_edge (the 10 triangles spanned by 5 nodes - non-manifold, the only way to get equal
counts), for EVERY supported quadrature rule / order (triangular 1, 4, 8, 10, 12; gaussian 1..10):

  oracle  : areas = compute_face_areas(rule, order)[0] of a FRESH grid of the same mesh (never used for anything else);
            expected integral = sum_f values[..., f] * areas[f] in float64, computed with numpy
  checked : value for every leading index (rank 1..4, dtypes float64 / float32 / int64 / int32 / bool), also after
            grid.face_areas (default rule) or another rule was used on the same grid first; default arguments == ("triangular", 4);
            dims == dims[:-1]; name kept; uxgrid is the same object; result is a UxDataArray; linearity; integrate(1) ==
            sum(areas) == calculate_total_face_area(rule, order); the data array and the grid's cached face_areas are not
            modified; node- / edge-dimensioned arrays raise ValueError whatever the element counts are; a face-centred
            array whose face dimension is not last is either integrated over the faces or rejected, never integrated over
            another dimension; UxDataset.integrate (single variable) gives the same numbers.
Runs with NUMBA_DISABLE_JIT=1 (set by the driver) or with the JIT: both work.
"""
import itertools
import random

import numpy as np

from . import meshgen as mg
from .common import FILL, grid_of, result
import uxarray as ux

RULES = [("triangular", o) for o in (1, 4, 8, 10, 12)] + [("gaussian", o) for o in range(1, 11)]
RTOL = 1e-11


def _tetrahedron():
    v = np.array([(1, 1, 1), (1, -1, -1), (-1, 1, -1), (-1, -1, 1)], float)
    lo, la = mg.lonlat_of(v[:, 0], v[:, 1], v[:, 2])
    m = mg.mk("tetrahedron", lo, la, [[0, 1, 2], [0, 1, 3], [0, 2, 3], [1, 2, 3]], closed=True)
    return mg._ccw(mg.rotate_mesh(m, (0.3, 0.5, 0.8), 17.0, "tetrahedron"))


def _pyramid(k, name):
    """apex at lat 80, base ring of k nodes at lat -30: k triangles + one k-gon -> n_node = n_face = k + 1"""
    lon = [0.0] + [-170.0 + 360.0 * i / k for i in range(k)]
    lat = [80.0] + [-30.0] * k
    faces = [[0, 1 + i, 1 + (i + 1) % k] for i in range(k)] + [[1 + i for i in range(k)][::-1]]
    return mg._ccw(mg.mk(name, lon, lat, faces, closed=True))


def _k5():
    """all 10 triangles on 5 nodes: 10 edges, 10 faces (overlapping, non-manifold)"""
    pts = [(0, 0), (20, 0), (10, 15), (-8, 12), (5, -14)]
    tris = [list(t) for t in itertools.combinations(range(5), 3)]
    return mg._ccw(mg.mk("k5_all_triangles", [p[0] for p in pts], [p[1] for p in pts], tris))


def _equal_count_meshes():
    return [_tetrahedron(), _pyramid(4, "square_pyramid"), _pyramid(5, "pentagonal_pyramid"), _k5()]


class _Ck:
    def __init__(self):
        self.failures, self.cases, self.distinct = [], 0, set()

    def fail(self, key, what, violated, inputs, observed=None, expected=None):
        def short(v):
            if v is None:
                return None
            s = repr(v.tolist() if hasattr(v, "tolist") else v)
            return s if len(s) < 240 else s[:240] + "..."
        self.failures.append({"key": key, "what": what, "violated": violated, "inputs": inputs, "observed": short(observed),
                              "expected": short(expected)})


def _values(rng, shape, dtype):
    n = int(np.prod(shape))
    if dtype == "bool":
        v = np.array([rng.random() < 0.5 for _ in range(n)])
    elif dtype in ("int64", "int32"):
        v = np.array([rng.randint(-50, 50) for _ in range(n)], dtype=dtype)
    else:
        v = np.array([rng.uniform(-10, 10) for _ in range(n)], dtype=dtype)
    return v.reshape(shape)


def _expected(vals, areas, axis=-1):
    v = np.moveaxis(np.asarray(vals).astype(np.float64), axis, -1)
    return (v * areas).sum(axis=-1)


def _call(ck, key_site, inputs, f):
    try:
        return True, f()
    except Exception as e:  # noqa
        ck.fail(f"raises:{key_site}:{type(e).__name__}", f"integrate raises {type(e).__name__}: {str(e)[:160]}",
                "integrating a face-centred variable returns the area-weighted sum", inputs)
        return False, None


def _check_result(ck, site, inputs, res, arr, want, g, tol_scale=1.0):
    """all clauses about one integrate() result of a face-last array"""
    ck.cases += 1
    if not isinstance(res, ux.UxDataArray):
        ck.fail(f"result_type:{site}", f"result is {type(res).__name__}, not a UxDataArray", "keeps the variable's name and grid", inputs)
        return
    if res.uxgrid is not g:
        ck.fail(f"keeps_grid:{site}", "result.uxgrid is not the array's grid object", "keeps the variable's grid", inputs)
    if res.name != arr.name:
        ck.fail(f"keeps_name:{site}", "name changed", "keeps the variable's name", inputs, res.name, arr.name)
    if tuple(res.dims) != tuple(arr.dims[:-1]):
        ck.fail(f"removes_face_dim:{site}", "dims of the result are not the leading dims of the input", "removes exactly the face dimension",
                inputs, list(res.dims), list(arr.dims[:-1]))
        return
    got = np.asarray(res.values, dtype=np.float64)
    scale = max(1.0, float(np.max(np.abs(want), initial=0.0))) * tol_scale
    if got.shape != want.shape or not np.allclose(got, want, rtol=RTOL, atol=RTOL * scale):
        ck.fail(f"weighted_sum:{site}", "integral differs from sum_f value*area_f with the areas of the requested rule/order",
                "for every index of the leading dimensions the sum over faces of value times face area (requested rule and order)",
                inputs, got, want)


def _mesh_checks(ck, m, rng, tier, rules):
    name = m["name"]
    nf = m["n_face"]
    fresh = grid_of(m)
    areas = {}
    for rule, order in rules:
        areas[(rule, order)] = np.array(fresh.compute_face_areas(rule, order)[0], dtype=np.float64)
        fresh = grid_of(m)
    default = areas.get(("triangular", 4))
    if default is None:
        default = np.array(grid_of(m).compute_face_areas("triangular", 4)[0], dtype=np.float64)
    shapes = [(), (3,), (2, 3), (2, 1, 3)]
    dtypes = ["float64", "float32", "int64", "bool"] + (["int32"] if tier == "thorough" else [])

    # ---- every rule / order x rank x dtype, on a grid with one of four histories
    for ri, (rule, order) in enumerate(rules):
        a = areas[(rule, order)]
        for hi, hist in enumerate(("fresh", "face_areas_read_first", "other_rule_used_first", "same_grid_reused")):
            if tier == "quick" and (ri + hi) % 2 and hist != "face_areas_read_first":
                continue
            g = grid_of(m)
            if hist == "face_areas_read_first":
                _ = g.face_areas
            elif hist == "other_rule_used_first":
                other = RULES[(RULES.index((rule, order)) + 7) % len(RULES)]
                ux.UxDataArray(np.ones(nf), dims=["n_face"], uxgrid=g).integrate(*other)
            elif hist == "same_grid_reused":
                _ = g.face_areas
                g.compute_face_areas("gaussian", 2)
            for lead in shapes:
                dt = dtypes[(ri + hi + len(lead)) % len(dtypes)] if tier == "quick" else None
                for dtype in ([dt] if dt else dtypes):
                    vals = _values(rng, lead + (nf,), dtype)
                    dims = ["time", "lev", "ens"][:len(lead)] + ["n_face"]
                    arr = ux.UxDataArray(vals.copy(), dims=dims, uxgrid=g, name="psi")
                    inputs = {"mesh": name, "quadrature_rule": rule, "order": order, "dims": dims, "dtype": dtype, "grid_history": hist}
                    site = f"rank{len(lead) + 1}:{'default_rule' if (rule, order) == ('triangular', 4) else 'non_default_rule'}:{hist}"
                    ck.distinct.add((name, rule, order, lead, dtype, hist))
                    ok, res = _call(ck, site, inputs, lambda: arr.integrate(quadrature_rule=rule, order=order))
                    if not ok:
                        continue
                    _check_result(ck, site, inputs, res, arr, _expected(vals, a), g)
                    if not np.array_equal(arr.values, vals):
                        ck.fail(f"input_modified:{site}", "integrate changed the data array", "operation on the data", inputs)
            # the cached default areas of the grid must not be replaced by the requested rule's
            if hist != "fresh":
                ck.cases += 1
                fa = np.asarray(g.face_areas.values, dtype=np.float64)
                if not np.allclose(fa, default, rtol=RTOL, atol=0):
                    ck.fail(f"face_areas_cache_polluted:{hist}", "grid.face_areas no longer holds the default-rule areas after an integrate "
                            "with another rule/order", "areas as computed with the requested rule and order (cache must not leak)",
                            {"mesh": name, "quadrature_rule": rule, "order": order, "grid_history": hist}, fa, default)

    # ---- default arguments, positional arguments
    g = grid_of(m)
    vals = _values(rng, (2, nf), "float64")
    arr = ux.UxDataArray(vals.copy(), dims=["time", "n_face"], uxgrid=g, name="psi")
    for site, f, a in (("default_arguments", lambda: arr.integrate(), default),
                       ("positional_arguments", lambda: arr.integrate("gaussian", 3), areas.get(("gaussian", 3)))):
        if a is None:
            a = np.array(grid_of(m).compute_face_areas("gaussian", 3)[0], dtype=np.float64)
        inputs = {"mesh": name, "call": site, "dims": ["time", "n_face"]}
        ok, res = _call(ck, site, inputs, f)
        if ok:
            _check_result(ck, site, inputs, res, arr, _expected(vals, a), g)

    # ---- linearity and the constant 1
    for rule, order in (rules if tier == "thorough" else rules[:: max(1, len(rules) // 3)]):
        g = grid_of(m)
        a = areas[(rule, order)]
        x = _values(rng, (2, nf), "float64")
        y = _values(rng, (2, nf), "float64")
        al, be = rng.uniform(-3, 3), rng.uniform(-3, 3)
        mkda = lambda v, n="psi": ux.UxDataArray(v, dims=["time", "n_face"], uxgrid=g, name=n)
        inputs = {"mesh": name, "quadrature_rule": rule, "order": order, "alpha": al, "beta": be}
        ck.cases += 2
        try:
            lhs = mkda(al * x + be * y).integrate(rule, order).values
            rhs = al * mkda(x).integrate(rule, order).values + be * mkda(y).integrate(rule, order).values
            one = ux.UxDataArray(np.ones(nf), dims=["n_face"], uxgrid=g, name="one").integrate(rule, order)
            total = g.calculate_total_face_area(rule, order)
        except Exception as e:  # noqa
            ck.fail(f"raises:linearity:{type(e).__name__}", f"raises {type(e).__name__}: {str(e)[:160]}", "linear in the data", inputs)
            continue
        scale = max(1.0, float(np.max(np.abs(rhs))))
        if not np.allclose(lhs, rhs, rtol=1e-10, atol=1e-10 * scale):
            ck.fail("linearity", "integrate(a x + b y) differs from a integrate(x) + b integrate(y)", "linear in the data", inputs, lhs, rhs)
        if not (np.isclose(float(one.values), a.sum(), rtol=RTOL, atol=0) and np.isclose(float(total), a.sum(), rtol=RTOL, atol=0)):
            ck.fail("constant_one_total_area", "integrating 1 differs from the sum of the face areas / calculate_total_face_area",
                    "integrating the constant 1 gives the grid's total area", inputs, [float(one.values), float(total)], float(a.sum()))
        if one.dims != ():
            ck.fail("removes_face_dim:rank1_scalar", "rank-1 integral is not 0-dimensional", "removes exactly the face dimension", inputs, list(one.dims))

    # ---- the constant 1 against areas computed face by face on single-face grids (independent of the order and of the sizes of the
    #      other faces of the mesh)
    if nf <= 16:
        lon_all, lat_all = np.array(m["lon"], float), np.array(m["lat"], float)
        for rule, order in rules[:: max(1, len(rules) // 2)]:
            ck.cases += 1
            inputs = {"mesh": name, "quadrature_rule": rule, "order": order}
            try:
                single = []
                for row in m["faces"]:
                    c = [int(v) for v in row if v != FILL]
                    g1 = ux.Grid.from_topology(node_lon=lon_all[c], node_lat=lat_all[c], face_node_connectivity=np.array([list(range(len(c)))]), fill_value=FILL)
                    single.append(float(g1.compute_face_areas(rule, order)[0][0]))
                one = float(ux.UxDataArray(np.ones(nf), dims=["n_face"], uxgrid=grid_of(m), name="one").integrate(rule, order).values)
            except Exception:  # noqa
                continue
            if not np.isclose(one, float(np.sum(single)), rtol=1e-9, atol=0):
                ck.fail("constant_one_total_area:face_by_face", "integrating 1 differs from the sum of the areas of the faces computed one by one "
                        "(each on a grid holding only that face)", "integrating the constant 1 gives the grid's total area", inputs, one, float(np.sum(single)))

    # ---- the constant 1 on a grid given by Cartesian corners only (radii not uniform), whatever was accessed first
    sizes = {sum(1 for v in row if v != FILL) for row in m["faces"]}
    if len(sizes) == 1 and nf <= 40:
        k = sizes.pop()
        lo, la = np.deg2rad(np.array(m["lon"], float)), np.deg2rad(np.array(m["lat"], float))
        rad = np.array([rng.uniform(0.6, 1.8) for _ in range(len(lo))])
        xyz = np.stack([np.cos(la) * np.cos(lo), np.cos(la) * np.sin(lo), np.sin(la)], axis=1) * rad[:, None]
        verts = np.array([[xyz[v] for v in row[:k]] for row in m["faces"]])
        for rule, order in rules[:: max(1, len(rules) // 2)]:
            inputs = {"mesh": name, "quadrature_rule": rule, "order": order, "construction": "from_face_vertices(xyz with radii in [0.6, 1.8], latlon=False)"}
            ck.cases += 1
            try:
                total_first = float(ux.Grid.from_face_vertices(verts, latlon=False).calculate_total_face_area(rule, order))
                gb = ux.Grid.from_face_vertices(verts, latlon=False)
                one = float(ux.UxDataArray(np.ones(nf), dims=["n_face"], uxgrid=gb, name="one").integrate(rule, order).values)
                total_after = float(gb.calculate_total_face_area(rule, order))
            except Exception as e:  # noqa
                ck.fail(f"raises:cartesian_constant_one:{type(e).__name__}", f"raises {type(e).__name__}: {str(e)[:160]}",
                        "integrating the constant 1 gives the grid's total area", inputs)
                continue
            if not (np.isclose(total_first, one, rtol=RTOL, atol=0) and np.isclose(total_after, one, rtol=RTOL, atol=0)):
                ck.fail("constant_one_total_area:cartesian_only_grid",
                        "on a grid given by Cartesian corners only, calculate_total_face_area (called first on a fresh grid / after "
                        "integrating) differs from integrating the constant 1 with the same rule and order",
                        "integrating the constant 1 gives the grid's total area", inputs, [total_first, total_after], one)

    # ---- node / edge dimensioned arrays must be rejected
    g = grid_of(m)
    nn, ne = int(g.n_node), int(g.n_edge)
    for dim, n in (("n_node", nn), ("n_edge", ne)):
        for lead in ((), (2,)):
            vals = _values(rng, lead + (n,), "float64")
            dims = ["time"][:len(lead)] + [dim]
            arr = ux.UxDataArray(vals, dims=dims, uxgrid=g, name="psi")
            eq = "n_face_eq_" + dim if n == nf else "counts_differ"
            inputs = {"mesh": name, "dims": dims, "n_face": nf, "n_node": nn, "n_edge": ne}
            ck.cases += 1
            ck.distinct.add((name, dim, lead))
            try:
                res = arr.integrate()
            except ValueError:
                continue
            except Exception as e:  # noqa
                ck.fail(f"rejects_non_face:{dim}:{eq}:raises_{type(e).__name__}", f"raises {type(e).__name__} instead of ValueError: {str(e)[:120]}",
                        "variables that are not defined on faces are rejected (ValueError)", inputs)
                continue
            ck.fail(f"rejects_non_face:{dim}:{eq}:silently_integrated", f"a {dim}-dimensioned array is integrated as if it were face-centred "
                    f"(n_face = {nf}, {dim} = {n})", "variables that are not defined on faces are rejected rather than silently integrated",
                    inputs, np.asarray(res.values))
        # inside a UxDataset
        vals = _values(rng, (n,), "float64")
        ds = ux.UxDataset({"psi": ux.UxDataArray(vals, dims=[dim], uxgrid=g, name="psi")}, uxgrid=g)
        eq = "n_face_eq_" + dim if n == nf else "counts_differ"
        ck.cases += 1
        try:
            res = ds.integrate()
        except ValueError:
            pass
        except Exception as e:  # noqa
            ck.fail(f"dataset_rejects_non_face:{dim}:{eq}:raises_{type(e).__name__}", f"UxDataset.integrate raises {type(e).__name__}: {str(e)[:120]}",
                    "variables that are not defined on faces are rejected (ValueError)", {"mesh": name, "dims": [dim]})
        else:
            ck.fail(f"dataset_rejects_non_face:{dim}:{eq}:silently_integrated", f"UxDataset.integrate integrates a {dim}-dimensioned variable",
                    "variables that are not defined on faces are rejected rather than silently integrated",
                    {"mesh": name, "dims": [dim], "n_face": nf, dim: n}, res)

        # a dataset whose FIRST variable (the one integrated) lives on nodes / edges while another variable is face-centred
        ds2 = ux.UxDataset({"psi": ux.UxDataArray(vals, dims=[dim], uxgrid=g, name="psi"),
                            "rho": ux.UxDataArray(_values(rng, (nf,), "float64"), dims=["n_face"], uxgrid=g, name="rho")}, uxgrid=g)
        ck.cases += 1
        try:
            res = ds2.integrate()
        except ValueError:
            pass
        except Exception as e:  # noqa
            ck.fail(f"dataset_rejects_non_face:{dim}:{eq}:with_a_face_variable:raises_{type(e).__name__}",
                    f"UxDataset.integrate raises {type(e).__name__}: {str(e)[:120]}",
                    "variables that are not defined on faces are rejected (ValueError)", {"mesh": name, "variables": {"psi": [dim], "rho": ["n_face"]}})
        else:
            ck.fail(f"dataset_rejects_non_face:{dim}:{eq}:with_a_face_variable:silently_integrated",
                    f"UxDataset.integrate integrates its first variable, dimensioned {dim}, because another variable carries n_face",
                    "variables that are not defined on faces are rejected rather than silently integrated",
                    {"mesh": name, "variables": {"psi": [dim], "rho": ["n_face"]}, "n_face": nf, dim: n}, res)

    # ---- face dimension not last: integrate over the faces or reject, never over another dimension
    g = grid_of(m)
    for other, size, tag in (("lev", nf, "other_dim_has_n_face_entries"), ("lev", nf + 1, "other_dim_differs")):
        vals = _values(rng, (nf, size), "float64")
        arr = ux.UxDataArray(vals, dims=["n_face", other], uxgrid=g, name="psi")
        inputs = {"mesh": name, "dims": ["n_face", other], "shape": [nf, size]}
        ck.cases += 1
        try:
            res = arr.integrate()
        except ValueError:
            continue
        except Exception as e:  # noqa
            ck.fail(f"face_dim_first:{tag}:raises_{type(e).__name__}", f"raises {type(e).__name__}: {str(e)[:120]}", "removes exactly the face dimension", inputs)
            continue
        want = _expected(vals, default, axis=0)
        got = np.asarray(res.values, dtype=np.float64)
        if tuple(res.dims) != (other,) or got.shape != want.shape or not np.allclose(got, want, rtol=RTOL, atol=RTOL * max(1.0, np.abs(want).max())):
            ck.fail(f"face_dim_first:{tag}:integrated_over_wrong_dimension", "a face-centred array with dims (n_face, lev) is integrated over "
                    "'lev' (areas applied to the wrong axis) and the result keeps the n_face dimension",
                    "removes exactly the face dimension / sum over faces of value times face area", inputs, list(res.dims), [other])

    # ---- UxDataset.integrate, single face-centred variable
    for lead, ltag in (((), "rank1"), ((2 if nf != 2 else 3,), "rank2"), ((nf,), "rank2_time_len_eq_n_face")):
        g = grid_of(m)
        _ = g.face_areas
        vals = _values(rng, lead + (nf,), "float64")
        dims = ["time"][:len(lead)] + ["n_face"]
        ds = ux.UxDataset({"psi": ux.UxDataArray(vals, dims=dims, uxgrid=g, name="psi")}, uxgrid=g)
        for rule, order in (("triangular", 4), ("gaussian", 5)):
            a = areas.get((rule, order))
            if a is None:
                a = np.array(grid_of(m).compute_face_areas(rule, order)[0], dtype=np.float64)
            inputs = {"mesh": name, "call": "UxDataset.integrate", "dims": dims, "quadrature_rule": rule, "order": order}
            ck.cases += 1
            try:
                res = ds.integrate(rule, order)
            except Exception as e:  # noqa
                ck.fail(f"raises:dataset_integrate:{ltag}:{type(e).__name__}", f"UxDataset.integrate raises {type(e).__name__}: {str(e)[:140]}",
                        "for every index of the leading dimensions the sum over faces of value times face area", inputs)
                continue
            want = _expected(vals, a)
            got = np.asarray(getattr(res, "values", res), dtype=np.float64)
            if got.shape != want.shape or not np.allclose(got, want, rtol=RTOL, atol=RTOL * max(1.0, np.abs(want).max())):
                ck.fail(f"weighted_sum:dataset_integrate:{ltag}", "UxDataset.integrate differs from sum_f value*area_f",
                        "sum over faces of value times face area (requested rule and order)", inputs, got, want)


def _fine_patch_check(ck):
    """a high-resolution regional patch (cells of 4e-4 degrees, far from lon 0 / lat 0, quads and padded triangles): integrating the
    constant 1 gives the patch's area - reference: flat fan triangles from the corner chord vectors (exact to ~1e-10 relative at this
    size) - and integrating a field gives the area-weighted sum"""
    d = 4e-4
    for (lon0, lat0) in ((120.0, 45.0), (-73.0, -38.0)):
        lons = [lon0 + d * i for i in range(4)]
        lats = [lat0 + d * j for j in range(3)]
        lon = [lo for la in lats for lo in lons]
        lat = [la for la in lats for lo in lons]
        faces = []
        for j in range(2):
            for i in range(3):
                a = j * 4 + i
                if (i + j) % 2:
                    faces.append([a, a + 1, a + 5, FILL])
                    faces.append([a, a + 5, a + 4, FILL])
                else:
                    faces.append([a, a + 1, a + 5, a + 4])
        faces = np.array(faces, dtype=np.int64)
        lo, la = np.deg2rad(np.array(lon)), np.deg2rad(np.array(lat))
        P = np.stack([np.cos(la) * np.cos(lo), np.cos(la) * np.sin(lo), np.sin(la)], axis=1)
        ref = []
        for row in faces:
            c = [int(v) for v in row if v != FILL]
            ref.append(sum(0.5 * np.linalg.norm(np.cross(P[c[t]] - P[c[0]], P[c[t + 1]] - P[c[0]])) for t in range(1, len(c) - 1)))
        ref = np.array(ref)
        vals = np.arange(len(faces), dtype=float) + 1.0
        for rule, order in (("triangular", 4), ("gaussian", 6)):
            ck.cases += 1
            inputs = {"mesh": f"fine_patch_4e-4deg@{lon0:g},{lat0:g}", "quadrature_rule": rule, "order": order}
            try:
                g = ux.Grid.from_topology(node_lon=np.array(lon), node_lat=np.array(lat), face_node_connectivity=faces, fill_value=FILL)
                one = float(ux.UxDataArray(np.ones(len(faces)), dims=["n_face"], uxgrid=g, name="one").integrate(rule, order).values)
                wsum = float(ux.UxDataArray(vals, dims=["n_face"], uxgrid=g, name="v").integrate(rule, order).values)
            except Exception as e:  # noqa
                ck.fail(f"raises:fine_patch:{type(e).__name__}", f"raises {type(e).__name__}: {str(e)[:140]}", "sum over faces of value times face area", inputs)
                continue
            if not np.isclose(one, ref.sum(), rtol=1e-4, atol=0) or not np.isclose(wsum, float((vals * ref).sum()), rtol=1e-4, atol=0):
                ck.fail("constant_one_total_area:fine_patch", "on a high-resolution patch integrating 1 (or a field) differs from the area(-weighted sum) of "
                        "its faces", "integrating the constant 1 gives the grid's total area", inputs, [one, wsum], [float(ref.sum()), float((vals * ref).sum())])


def integration(tier, seed):
    rng = random.Random(seed * 7727 + 6)
    ck = _Ck()
    cat = mg.catalogue(tier, seed)
    special = _equal_count_meshes()
    if tier == "quick":
        small = [m for m in cat if not m["closed"] and not m["name"].startswith("rand_")]
        closed = [m for m in cat if m["closed"]]
        rand = [m for m in cat if m["name"].startswith("rand_")]
        rng.shuffle(small)
        meshes = special + small[:8] + [closed[seed % len(closed)], closed[(seed + 3) % len(closed)]] + rand[:6]
    else:
        rand = [m for m in cat if m["name"].startswith("rand_")]
        meshes = special + [m for m in cat if not m["name"].startswith("rand_")] + rand[:40]
    samples = []
    for mi, m in enumerate(meshes):
        if tier == "quick":
            # every rule/order appears on the special meshes; the others take a rotating third (always incl. a non-default rule)
            rules = RULES if mi < 4 else [r for i, r in enumerate(RULES) if (i + mi) % 3 == 0]
        else:
            rules = RULES
        _mesh_checks(ck, m, rng, tier, rules)
        if len(samples) < 3:
            samples.append({"mesh": m["name"], "n_node": m["n_node"], "n_face": m["n_face"], "rules": [list(r) for r in rules[:3]]})
    _fine_patch_check(ck)
    bound = (f"{len(meshes)} meshes (tetrahedron, square/pentagonal pyramid with n_node == n_face; the 10 triangles on 5 nodes with "
             "n_edge == n_face; meshgen catalogue incl. mixed 3..8-gons, closed and random meshes), all 15 supported rule/order pairs "
             "(triangular 1,4,8,10,12; gaussian 1..10), rank 1..4, dtypes float64/float32/int64/bool(/int32), 4 grid histories "
             "(fresh, face_areas read first, other rule first, reused), linearity with random coefficients, node/edge arrays rank 1..2, "
             "face dimension first, UxDataset.integrate rank 1..2")
    return result(ck.cases, len(ck.distinct), ck.failures, bound, samples)
