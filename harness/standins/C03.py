"""C03 bounded stand-in: incidence tables (node_face, edge_face, face_face, hole edges) are exact transposes.

Oracle (independent of uxarray), from the face-node table F alone:
  corners(f)            leading non-FILL entries of row f
  faces_of_node(n)      {f : n in corners(f)}
  faces_of_pair(p)      {f : p is a pair of cyclically consecutive corners of f}      (p an unordered node pair)
  neighbours(f)         multiset: for every pair p of f with |faces_of_pair(p)| == 2 the other face (once per shared pair)
The grid's own edge numbering is only used to translate an edge index e into its node pair (edge_node_connectivity[e], which
is the subject of C02); for the direct builder calls the stand-in constructs its own edge numbering and face-edge table.
Quantifier: manifold grids only (every pair bounded by at most two faces) - other tables are skipped.
The main pass runs with numba JIT as configured by the driver (disabled by run_standin.py: njit builders run as plain Python);
the catalogue part is repeated in a child process with JIT enabled.
"""
import random
import types
from collections import Counter

import numpy as np

from . import meshgen as mg
from .common import FILL, grid_of, result

INTP = np.dtype(np.intp)

ORDERS = {
    "node_face_first": ("node_face_connectivity", "edge_face_connectivity", "face_face_connectivity", "hole_edge_indices"),
    "face_face_first": ("face_face_connectivity", "hole_edge_indices", "edge_face_connectivity", "node_face_connectivity"),
    "hole_first": ("hole_edge_indices", "face_face_connectivity", "node_face_connectivity", "edge_face_connectivity"),
    "edges_then_edge_face": ("edge_node_connectivity", "n_edge", "edge_face_connectivity", "face_face_connectivity",
                             "hole_edge_indices", "node_face_connectivity"),
}


# ------------------------------------------------------------------------------------------------ oracle
class Oracle:
    def __init__(self, faces, n_node):
        faces = np.asarray(faces)
        self.n_face, self.n_max = faces.shape
        self.n_node = n_node
        self.corners = []
        for row in faces:
            c = []
            for x in row:
                if int(x) == FILL:
                    break
                c.append(int(x))
            self.corners.append(c)
        self.pairs = [[frozenset((c[j], c[(j + 1) % len(c)])) for j in range(len(c))] for c in self.corners]
        self.faces_of_node = {n: set() for n in range(n_node)}
        for f, c in enumerate(self.corners):
            for n in c:
                self.faces_of_node[n].add(f)
        self.faces_of_pair = {}
        for f, ps in enumerate(self.pairs):
            for p in ps:
                self.faces_of_pair.setdefault(p, []).append(f)
        # manifold: every pair bounded by at most two faces, and never twice by the same face
        self.manifold = all(len(v) <= 2 and len(set(v)) == len(v) for v in self.faces_of_pair.values())
        self.neigh = []
        for f, ps in enumerate(self.pairs):
            cnt = Counter()
            for p in ps:
                fs = self.faces_of_pair[p]
                if len(fs) == 2:
                    cnt[fs[0] if fs[1] == f else fs[1]] += 1
            self.neigh.append(cnt)
        self.isolated = any(len(c) == 0 for c in self.neigh)

    def own_edge_tables(self):
        """an edge numbering of the stand-in's own (sorted pairs) and the matching face-edge table"""
        plist = sorted(self.faces_of_pair, key=lambda p: sorted(p))
        idx = {p: i for i, p in enumerate(plist)}
        fec = np.full((self.n_face, self.n_max), FILL, dtype=np.intp)
        for f, ps in enumerate(self.pairs):
            for j, p in enumerate(ps):
                fec[f, j] = idx[p]
        return plist, fec


def _small(a, limit=60):
    a = np.asarray(a)
    if a.size <= limit:
        return a.tolist()
    return {"shape": list(a.shape), "head": a.ravel()[:limit].tolist()}


class _Rec:
    def __init__(self):
        self.failures = []
        self.cases = 0
        self.keys = set()

    def check(self, ok, clause, scenario, what, inputs, observed=None, expected=None):
        self.cases += 1
        if ok:
            return True
        if clause.endswith(".dtype==intp"):
            # the element type does not depend on the order of first access or on where the mesh came from
            parts = scenario.split(":")
            scenario = ("builders" if parts[0].startswith("builders") else "Grid") + ":" + parts[-1]
        key = f"{clause}:{scenario}"
        if key not in self.keys:
            self.keys.add(key)
            self.failures.append({"key": key, "what": what, "violated": clause, "inputs": inputs,
                                  "observed": observed, "expected": expected})
        return False


def _desc(name, faces):
    return {"mesh": name, "face_node_connectivity": _small(faces, 80)}


def _is_fill(v):
    return int(v) == FILL


def _row_entries(row):
    """(non-FILL entries as ints, padding_only_at_end)"""
    vals, seen_fill, tail_ok = [], False, True
    for v in row:
        if _is_fill(v):
            seen_fill = True
        else:
            if seen_fill:
                tail_ok = False
            vals.append(int(v))
    return vals, tail_ok


# ------------------------------------------------------------------------------------------------ clause checks
def check_node_face(rec, sc, inp, orc, nfc):
    nfc = np.asarray(nfc)
    rec.check(nfc.dtype == INTP, "node_face_connectivity.dtype==intp", sc, f"dtype {nfc.dtype}", inp, str(nfc.dtype), str(INTP))
    if not rec.check(nfc.ndim == 2 and nfc.shape[0] == orc.n_node, "node_face_connectivity.shape[0]==n_node", sc,
                     f"shape {nfc.shape}", inp, list(nfc.shape), [orc.n_node, "max valence"]):
        return
    bad_set = bad_dup = bad_pad = None
    for n in range(orc.n_node):
        vals, tail_ok = _row_entries(nfc[n])
        if set(vals) != orc.faces_of_node[n] and bad_set is None:
            bad_set = (n, vals, sorted(orc.faces_of_node[n]))
        if len(set(vals)) != len(vals) and bad_dup is None:
            bad_dup = (n, vals)
        if not tail_ok and bad_pad is None:
            bad_pad = (n, nfc[n].tolist())
    rec.check(bad_set is None, "f in node_face[n] iff n is a corner of f", sc, "row lists a wrong set of faces", inp, bad_set,
              "(node, listed, expected)")
    rec.check(bad_dup is None, "node_face rows have no duplicates", sc, "a face is listed twice for one node", inp, bad_dup)
    rec.check(bad_pad is None, "node_face padding only at the row end", sc, "FILL before a real entry", inp, bad_pad)


def check_edge_face(rec, sc, inp, orc, edge_pairs, efc):
    """edge_pairs[e] = frozenset node pair of edge e"""
    efc = np.asarray(efc)
    rec.check(efc.dtype == INTP, "edge_face_connectivity.dtype==intp", sc, f"dtype {efc.dtype}", inp, str(efc.dtype), str(INTP))
    if not rec.check(efc.shape == (len(edge_pairs), 2), "edge_face_connectivity.shape==(n_edge,2)", sc, f"shape {efc.shape}", inp,
                     list(efc.shape), [len(edge_pairs), 2]):
        return
    bad_set = bad_layout = None
    for e, p in enumerate(edge_pairs):
        exp = orc.faces_of_pair.get(p, [])
        vals, tail_ok = _row_entries(efc[e])
        if sorted(vals) != sorted(exp) and bad_set is None:
            bad_set = (e, sorted(p), efc[e].tolist(), sorted(exp))
        if len(exp) == 1 and not (len(vals) == 1 and tail_ok) and bad_layout is None:
            bad_layout = (e, efc[e].tolist())
    rec.check(bad_set is None, "f in edge_face[e] iff e is an edge of f", sc, "row lists wrong faces", inp, bad_set,
              "(edge, node pair, row, expected faces)")
    rec.check(bad_layout is None, "boundary edge == [face, FILL]", sc, "boundary edge row is not one face followed by padding",
              inp, bad_layout)


def check_face_face(rec, sc, inp, orc, ffc):
    ffc = np.asarray(ffc)
    rec.check(ffc.dtype == INTP, "face_face_connectivity.dtype==intp", sc, f"dtype {ffc.dtype}", inp, str(ffc.dtype), str(INTP))
    if not rec.check(ffc.ndim == 2 and ffc.shape[0] == orc.n_face, "face_face_connectivity.shape[0]==n_face", sc,
                     f"shape {ffc.shape}", inp, list(ffc.shape), [orc.n_face, "<= n_max"]):
        return
    bad = None
    for f in range(orc.n_face):
        vals, _ = _row_entries(ffc[f])
        if Counter(vals) != orc.neigh[f] and bad is None:
            bad = (f, vals, sorted(orc.neigh[f].elements()))
    rec.check(bad is None, "face_face[f] == faces across f's interior edges, once per shared edge", sc,
              "neighbour multiset wrong", inp, bad, "(face, listed, expected)")


def check_holes(rec, sc, inp, orc, edge_pairs, hole):
    hole = np.asarray(hole)
    rec.check(hole.dtype == INTP, "hole_edge_indices.dtype==intp", sc, f"dtype {hole.dtype}", inp, str(hole.dtype), str(INTP))
    exp = sorted(e for e, p in enumerate(edge_pairs) if len(orc.faces_of_pair.get(p, [])) == 1)
    got = [int(v) for v in hole.ravel()]
    rec.check(hole.ndim == 1 and sorted(got) == exp, "hole_edge_indices == edges with exactly one face", sc,
              "hole edge list wrong", inp, got[:40], exp[:40])


# ------------------------------------------------------------------------------------------------ grid level
def _cls(orc):
    return "isolated_face" if orc.isolated else "all_faces_have_neighbours"


def check_grid(rec, source, order, mesh, orc, grid=None):
    g = grid_of(mesh) if grid is None else grid
    sc = f"{order}:{source}:{_cls(orc)}"
    inp = _desc(mesh["name"], mesh["faces"])
    first = {}
    for attr in ORDERS[order]:
        try:
            v = getattr(g, attr)
            first[attr] = np.array(v.values if hasattr(v, "values") else v)
        except Exception as e:
            rec.check(False, f"{attr} raises {type(e).__name__}", sc, f"{type(e).__name__}: {e}"[:200], inp)
            return
    enc = g.edge_node_connectivity.values
    edge_pairs = [frozenset((int(a), int(b))) for a, b in enc]
    # C02 precondition (edge numbering is a bijection onto the pairs) - if it does not hold this is C02's failure, not ours
    if len(set(edge_pairs)) != len(edge_pairs) or set(edge_pairs) != set(orc.faces_of_pair):
        return
    check_node_face(rec, sc, inp, orc, g.node_face_connectivity.values)
    check_edge_face(rec, sc, inp, orc, edge_pairs, g.edge_face_connectivity.values)
    check_face_face(rec, sc, inp, orc, g.face_face_connectivity.values)
    check_holes(rec, sc, inp, orc, edge_pairs, g.hole_edge_indices.values)
    for attr in ("node_face_connectivity", "edge_face_connectivity", "face_face_connectivity", "hole_edge_indices"):
        now = np.asarray(getattr(g, attr).values)
        rec.check(now.shape == first[attr].shape and np.array_equal(now, first[attr]), f"{attr} stable across accesses", sc,
                  "table changed after the other tables were built", inp)
    rec.check(int(g.n_max_node_faces) == g.node_face_connectivity.shape[1] and int(g.n_max_face_faces) == g.face_face_connectivity.shape[1],
              "n_max_node_faces / n_max_face_faces == table widths", sc, "width attributes", inp)
    valence = max(len(s) for s in orc.faces_of_node.values())
    rec.check(int(g.n_max_node_faces) >= valence, "n_max_node_faces >= largest node valence", sc, "too narrow", inp,
              int(g.n_max_node_faces), valence)
    rec.check(g.node_face_connectivity.dims[0] == "n_node" and g.edge_face_connectivity.dims[0] == "n_edge"
              and g.face_face_connectivity.dims[0] == "n_face", "leading dims n_node / n_edge / n_face", sc, "dimension names", inp,
              [g.node_face_connectivity.dims, g.edge_face_connectivity.dims, g.face_face_connectivity.dims])


# ------------------------------------------------------------------------------------------------ sliced grids
# what exists on the SOURCE grid before it is sliced: attributes read (lazily built) / tables shipped with the source
PRE = {
    "nothing": ((), ()),
    "node_face": (("node_face_connectivity",), ()),
    "n_max_node_faces": (("n_max_node_faces",), ()),
    "edge_face": (("edge_face_connectivity",), ()),
    "face_face": (("face_face_connectivity",), ()),
    "holes": (("hole_edge_indices",), ()),
    "all_incidence": (("node_face_connectivity", "edge_face_connectivity", "face_face_connectivity", "hole_edge_indices"), ()),
    "shipped_node_face": ((), ("node_face_connectivity",)),
    "shipped_face_face": ((), ("face_face_connectivity",)),
}


def _oracle_tables(orc):
    """node_face / face_face tables of the oracle in uxarray's layout (to ship them with a source grid)"""
    def pad(rows, width):
        out = np.full((len(rows), max(width, 1)), FILL, dtype=np.int64)
        for i, r in enumerate(rows):
            out[i, :len(r)] = r
        return out
    nf = [sorted(orc.faces_of_node[n]) for n in range(orc.n_node)]
    ff = [sorted(c.elements()) for c in orc.neigh]
    return {"node_face_connectivity": pad(nf, max(len(r) for r in nf)), "face_face_connectivity": pad(ff, orc.n_max)}


def _slice_routes(mesh, orc):
    """(label, function source grid -> sliced grid); the selections are proper sub-selections wherever the mesh allows it, so
    that face / node numbers of the slice differ from the source's"""
    import uxarray as ux
    nf = orc.n_face
    faces = [nf - 1] + list(range(0, nf - 1, 2))                  # unsorted, without face 1
    node = orc.corners[nf - 1][0]
    return [
        ("Grid.isel(n_face)", lambda g: g.isel(n_face=faces)),
        ("Grid.isel(n_node)", lambda g: g.isel(n_node=[node])),
        ("Grid.isel(n_edge)", lambda g: g.isel(n_edge=[0])),
        ("UxDataArray.isel(n_face)", lambda g: ux.UxDataArray(np.arange(nf, dtype=float), dims=["n_face"], uxgrid=g,
                                                              name="v").isel(n_face=faces).uxgrid),
    ]


class _SlicedRec:
    """dedupes consequences: a clause that already fails on a route with nothing built on the source is not reported again
    for the other pre-states of that route, and 'all_incidence' only if no single table produced the same failure"""

    def __init__(self, rec):
        self.rec, self.failed = rec, set()

    def check(self, ok, clause, scenario, *a, **k):
        if ok:
            return self.rec.check(True, clause, scenario, *a, **k)
        _, route, pre = scenario.split(":", 2)
        pre = pre[len("source_had_"):]
        implied = (clause, route, "nothing") in self.failed or (
            pre == "all_incidence" and any(c == clause and r == route and p != "all_incidence" for c, r, p in self.failed))
        self.failed.add((clause, route, pre))
        if implied:
            self.rec.cases += 1
            return False
        return self.rec.check(False, clause, scenario, *a, **k)


def check_sliced(rec, mesh, orc, pres):
    """C03 on grids obtained by slicing: the incidence tables of the SLICE are exact for the slice's own face-node table,
    whatever was built on / shipped with the source grid before (no table with the source's numbering may survive)"""
    inp0 = _desc(mesh["name"], mesh["faces"])
    for route, fn in _slice_routes(mesh, orc):
        for pre in pres:
            reads, ships = PRE[pre]
            sc = f"sliced:{route}:source_had_{pre}"
            inp = dict(inp0, call=route, read_on_source_before_slicing=list(reads), shipped_with_source=list(ships))
            tabs = _oracle_tables(orc) if ships else {}
            g = grid_of(mesh, **{t: tabs[t].copy() for t in ships})
            try:
                for a in reads:
                    getattr(g, a)
                sub = fn(g)
            except Exception as e:
                rec.check(False, f"slicing raises {type(e).__name__}", sc, f"{type(e).__name__}: {e}"[:200], inp)
                continue
            sorc = Oracle(sub.face_node_connectivity.values, int(sub.n_node))
            if not sorc.manifold:
                continue
            got = {}
            try:
                for attr in ("edge_node_connectivity", "node_face_connectivity", "edge_face_connectivity", "face_face_connectivity",
                             "hole_edge_indices"):
                    got[attr] = np.array(getattr(sub, attr).values)
            except Exception as e:
                rec.check(False, f"{attr} raises {type(e).__name__}", sc, f"{type(e).__name__}: {e}"[:200], inp)
                continue
            edge_pairs = [frozenset((int(a), int(b))) for a, b in got["edge_node_connectivity"]]
            if len(set(edge_pairs)) != len(edge_pairs) or set(edge_pairs) != set(sorc.faces_of_pair):
                continue            # C02's business
            inp = dict(inp, slice_face_node_connectivity=_small(sub.face_node_connectivity.values, 80))
            check_node_face(rec, sc, inp, sorc, got["node_face_connectivity"])
            check_edge_face(rec, sc, inp, sorc, edge_pairs, got["edge_face_connectivity"])
            check_face_face(rec, sc, inp, sorc, got["face_face_connectivity"])
            check_holes(rec, sc, inp, sorc, edge_pairs, got["hole_edge_indices"])
            valence = max(len(s_) for s_ in sorc.faces_of_node.values())
            rec.check(int(sub.n_max_node_faces) == got["node_face_connectivity"].shape[1] and int(sub.n_max_node_faces) >= valence,
                      "n_max_node_faces == node_face table width >= largest node valence", sc, "width attribute of the slice", inp,
                      int(sub.n_max_node_faces), [got["node_face_connectivity"].shape[1], valence])


def _sliced_pass(rec, tier, seed, distinct):
    ms = [mg.mk("lattice3x3_quads_tris", [-15.0, -5.0, 5.0] * 3, [5.0] * 3 + [15.0] * 3 + [25.0] * 3,
                [[0, 1, 4, 3], [1, 2, 5, 4], [3, 4, 7, 6], [4, 5, 8], [4, 8, 7]])]
    pool = [m for m in mg.small_meshes() + _extra_meshes()[:1] + mg.closed_meshes()[:2] if m["n_face"] >= 3]
    ms += pool if tier == "thorough" else pool[seed % 3::3][:3]
    if tier == "thorough":
        ms += [m for m in mg.random_meshes(seed * 31 + 7, 12) if m["n_face"] >= 3]
    n = 0
    rec = _SlicedRec(rec)
    for i, m in enumerate(ms):
        orc = Oracle(m["faces"], m["n_node"])
        if not orc.manifold:
            continue
        n += 1
        distinct.add(("sliced", m["faces"].tobytes(), m["faces"].shape))
        # quick: every pre-state on the fixed lattice, the three that differ most on the other meshes
        check_sliced(rec, m, orc, list(PRE) if (i == 0 or tier == "thorough") else ["nothing", "all_incidence", "shipped_node_face"])
    return n


# ------------------------------------------------------------------------------------------------ builders
def check_builders(rec, source, mesh, orc):
    from uxarray.grid import connectivity as C
    from uxarray.grid import geometry as G
    sc = f"builders:{source}:{_cls(orc)}"
    inp = _desc(mesh["name"], mesh["faces"])
    faces = np.ascontiguousarray(np.asarray(mesh["faces"], dtype=np.intp))

    # node faces
    try:
        nfc, width = C._build_node_faces_connectivity(faces, orc.n_node)
    except Exception as e:
        rec.check(False, f"_build_node_faces_connectivity raises {type(e).__name__}", sc, f"{e}"[:200], inp)
    else:
        check_node_face(rec, sc, inp, orc, nfc)
        rec.check(int(width) == np.asarray(nfc).shape[1] == max(len(s) for s in orc.faces_of_node.values()),
                  "_build_node_faces_connectivity width == largest valence", sc, "width", inp, int(width))

    # edge faces from the stand-in's own edge numbering
    plist, fec = orc.own_edge_tables()
    npf_tab = np.array([len(c) for c in orc.corners], dtype=np.intp)
    fns = [("", C._build_edge_face_connectivity)]
    if hasattr(C._build_edge_face_connectivity, "py_func"):
        fns.append(("/py_func", C._build_edge_face_connectivity.py_func))
    efc = None
    for tag, fn in fns:
        try:
            r = fn(fec.copy(), npf_tab, len(plist))
        except Exception as e:
            rec.check(False, f"_build_edge_face_connectivity raises {type(e).__name__}", sc + tag, f"{e}"[:200], inp)
            continue
        check_edge_face(rec, sc + tag, inp, orc, plist, r)
        efc = r if efc is None else efc

    # the oracle's own edge-face table, to feed the next builders independently of the previous result
    own_efc = np.full((len(plist), 2), FILL, dtype=np.intp)
    for e, p in enumerate(plist):
        fs = orc.faces_of_pair[p]
        own_efc[e, :len(fs)] = fs
    stub = types.SimpleNamespace(n_face=orc.n_face, n_max_face_edges=orc.n_max, n_max_face_nodes=orc.n_max,
                                 edge_face_connectivity=types.SimpleNamespace(values=own_efc))
    try:
        ffc = C._build_face_face_connectivity(stub)
    except Exception as e:
        rec.check(False, f"_build_face_face_connectivity raises {type(e).__name__}", sc, f"{e}"[:200], inp)
    else:
        check_face_face(rec, sc, inp, orc, np.asarray(ffc))

    try:
        hole = G._construct_hole_edge_indices(own_efc)
    except Exception as e:
        rec.check(False, f"_construct_hole_edge_indices raises {type(e).__name__}", sc, f"{e}"[:200], inp)
    else:
        check_holes(rec, sc, inp, orc, plist, hole)
    rec.check(np.array_equal(faces, mesh["faces"]), "builders leave their input table unchanged", sc, "input modified", inp)


# ------------------------------------------------------------------------------------------------ entry point
_LON = np.array([3.0, 17.0, 29.0, 8.0, -12.0, 41.0, -25.0, 33.0])
_LAT = np.array([-4.0, 6.0, -9.0, 21.0, 13.0, 18.0, -17.0, 27.0])


def _table_mesh(tab, n_node):
    return {"name": f"table{tab.tolist()}".replace(str(FILL), "F"), "lon": _LON[:n_node], "lat": _LAT[:n_node], "faces": tab,
            "closed": False, "n_node": n_node, "n_face": tab.shape[0]}


def _extra_meshes():
    """hand-made manifold meshes stressing valence / isolation (combinatorial; coordinates arbitrary but distinct)"""
    out = []
    # fan of 7 triangles round node 0 (valence 7, open fan: node 0 on the boundary)
    k = 7
    lon = [0.0] + [10 * np.cos(np.radians(20 * i)) for i in range(k + 1)]
    lat = [0.0] + [10 * np.sin(np.radians(20 * i)) for i in range(k + 1)]
    out.append(mg.mk("open_fan7", lon, lat, [[0, i + 1, i + 2] for i in range(k)]))
    # three mutually isolated faces of different sizes, widest first
    out.append(mg.mk("three_isolated", [0, 5, 6, 3, -1, 20, 25, 22, 40, 46, 46, 40], [0, 0, 4, 7, 4, 0, 0, 5, 0, 0, 5, 5],
                     [[0, 1, 2, 3, 4], [5, 6, 7], [8, 9, 10, 11]]))
    # two faces touching in a single node only (no shared edge): both isolated in the face-face sense
    out.append(mg.mk("bowtie_node_contact", [0, 10, 5, 10, 0], [0, 0, 5, 10, 10], [[0, 1, 2], [2, 3, 4]]))
    # unused node (node 3 belongs to no face)
    out.append(mg.mk("unused_node", [0, 10, 5, 30, 12], [0, 0, 8, 30, 9], [[0, 1, 2], [1, 4, 2]]))
    # pillow: two triangles with the same three nodes, opposite orientation (every edge interior, shared three times)
    out.append(mg.mk("pillow", [0, 120, -120], [0, 0, 0], [[0, 1, 2], [0, 2, 1]], closed=True))
    return out


def _catalogue_pass(rec, tier, seed, distinct):
    cat = mg.catalogue(tier, seed) + _extra_meshes()
    ncat = skipped = 0
    for m in cat:
        orc = Oracle(m["faces"], m["n_node"])
        if not orc.manifold:
            skipped += 1
            continue
        ncat += 1
        distinct.add(("cat", m["faces"].tobytes(), m["faces"].shape))
        for order in ORDERS:
            check_grid(rec, "catalogue", order, m, orc)
        check_builders(rec, "catalogue", m, orc)
    return cat, ncat, skipped


def _jit_disabled():
    # numba.config.DISABLE_JIT is overwritten by uxarray.grid.area at import time, so look at the builder itself
    from uxarray.grid import connectivity as C
    return not hasattr(C._build_edge_face_connectivity, "py_func")


def _jit_entry(seed):
    """run in a child process with NUMBA_DISABLE_JIT=0: the quick catalogue pass on the compiled builders"""
    rec = _Rec()
    _catalogue_pass(rec, "quick", seed, set())
    return {"cases": rec.cases, "failures": rec.failures, "jit_disabled": _jit_disabled()}


def _jit_start(seed):
    """start the catalogue checks with numba JIT enabled in a child process (runs concurrently with the main pass)"""
    import os
    import subprocess
    import sys
    here = os.path.dirname(os.path.dirname(os.path.abspath(__file__)))
    code = ("import sys, json, warnings; warnings.filterwarnings('ignore'); sys.path.insert(0, %r); "
            "from standins import C03; print('\\n' + json.dumps(C03._jit_entry(%d)))" % (here, int(seed)))
    env = dict(os.environ, NUMBA_DISABLE_JIT="0")
    return subprocess.Popen([sys.executable, "-W", "ignore", "-c", code], env=env, stdout=subprocess.PIPE, stderr=subprocess.PIPE,
                            text=True)


def _jit_collect(rec, proc):
    """merge the child's result; only failures whose key was not already seen in the main pass are added"""
    import json
    stdout, stderr = proc.communicate(timeout=900)
    if proc.returncode != 0:
        raise RuntimeError("C03 JIT child failed: " + stderr[-800:])
    out = json.loads(stdout.strip().splitlines()[-1])
    if out["jit_disabled"]:
        raise RuntimeError("C03 JIT child ran with JIT disabled")
    rec.cases += out["cases"]
    for f in out["failures"]:
        if f["key"] in rec.keys:
            continue
        f = dict(f)
        f["key"] += ":jit_enabled"
        if f["key"] not in rec.keys:
            rec.keys.add(f["key"])
            rec.failures.append(f)


def _incidence(tier, seed, child):
    rng = random.Random(seed * 1000003 + 29)
    rec = _Rec()
    distinct = set()
    samples = []

    cat, ncat, skipped = _catalogue_pass(rec, tier, seed, distinct)
    samples += [{"mesh": m["name"], "n_face": m["n_face"], "n_node": m["n_node"]} for m in cat[:2]]
    nsl = _sliced_pass(rec, tier, seed, distinct)

    n_node = 5
    if tier == "thorough":
        tabs = mg.all_small_tables(max_faces=2, n_max=4, n_node=n_node)
        scope = "all"
    else:
        alltabs = list(mg.all_small_tables(max_faces=2, n_max=4, n_node=n_node))
        tabs = [alltabs[i] for i in sorted(rng.sample(range(len(alltabs)), 400))]
        scope = "a seeded sample of 400 of the"
    order_names = list(ORDERS)
    nt = 0
    for i, tab in enumerate(tabs):
        orc = Oracle(tab, n_node)
        if not orc.manifold:
            skipped += 1
            continue
        nt += 1
        distinct.add(("tab", tab.tobytes(), tab.shape))
        m = _table_mesh(tab, n_node)
        check_builders(rec, "small_tables", m, orc)
        for order in (order_names[i % 4], order_names[(i + 1) % 4]) if tier == "thorough" else order_names[:3]:
            check_grid(rec, "small_tables", order, m, orc)
        if len(samples) < 3:
            samples.append({"table": tab.tolist()})

    # incidence tables SUPPLIED to from_topology with the caller's own fill value (-1) on meshes whose faces all have the same size
    # (the face table itself then contains no padding): they are reported padded with the standard fill value like derived ones
    for m in (mg.quad_patch(2, 2), mg.quad_patch(3, 1, lon0=170.0, lat0=-5.0)):
        orc = Oracle(np.asarray(m["faces"]), m["n_node"])
        pairs = sorted(tuple(sorted(p)) for p in orc.faces_of_pair)
        en = np.array(pairs, dtype=np.int64)
        ef = np.full((len(pairs), 2), -1, dtype=np.int64)
        for e, p in enumerate(pairs):
            fs = sorted(orc.faces_of_pair[frozenset(p)] if frozenset(p) in orc.faces_of_pair else orc.faces_of_pair[p])
            ef[e, :len(fs)] = fs
        width = max(len(v) for v in orc.faces_of_node.values())
        nf_tab = np.full((m["n_node"], width), -1, dtype=np.int64)
        for n_, fs in orc.faces_of_node.items():
            nf_tab[n_, :len(fs)] = sorted(fs)
        distinct.add(("supplied_custom_fill", m["name"]))
        try:
            import uxarray as _ux
            g = _ux.Grid.from_topology(node_lon=np.array(m["lon"], float), node_lat=np.array(m["lat"], float),
                                       face_node_connectivity=np.array(m["faces"], dtype=np.int64), fill_value=-1,
                                       edge_node_connectivity=en.copy(), edge_face_connectivity=ef.copy(), node_face_connectivity=nf_tab.copy())
        except Exception as e:  # noqa: BLE001
            rec.check(False, f"from_topology with supplied incidence tables raises {type(e).__name__}", "supplied_tables:custom_fill:uniform_faces",
                      f"{type(e).__name__}: {e}"[:200], _desc(m["name"], m["faces"]))
            continue
        check_grid(rec, "supplied_tables_custom_fill", "node_face_first", m, orc, grid=g)

    if child is not None:
        _jit_collect(rec, child)
        jit = "main pass with numba JIT disabled (njit builders run as Python) + the quick catalogue pass repeated in a child process with JIT enabled"
    else:
        jit = "numba JIT enabled"

    bound = (f"{ncat} manifold catalogue + hand-made meshes (open fan valence 7, isolated faces, node-only contact, unused node, pillow; "
             f"tier {tier}) x {len(ORDERS)} first-access orders + direct builder calls fed with the stand-in's own edge tables; {scope} "
             f"32580 standard-form tables with <=2 faces, <=4 corners, 5 nodes of which {nt} manifold ones were checked "
             f"({skipped} non-manifold inputs skipped: outside the quantifier); slices (Grid.isel by face / node / edge, "
             f"UxDataArray.isel) of {nsl} meshes whose source had nothing / each incidence table / all of them built or node_face, "
             f"face_face shipped before slicing, tables of the slice checked against the slice's own face-node table; {jit}")
    return result(rec.cases, len(distinct), rec.failures, bound, samples)


def incidence(tier, seed):
    child = _jit_start(seed) if _jit_disabled() else None
    try:
        return _incidence(tier, seed, child)
    except BaseException:
        if child is not None and child.poll() is None:
            child.kill()
        raise


# ------------------------------------------------------------------------------------------------ consumers leave the tables intact
_TABLES = ("node_face_connectivity", "edge_face_connectivity", "face_face_connectivity", "hole_edge_indices",
           "edge_node_connectivity", "face_edge_connectivity", "face_node_connectivity", "n_nodes_per_face")


def consumers(tier, seed, tables=None, oracle_after=True):
    """(tables: which variables of the grid are watched - default the incidence / edge tables; other properties reuse this stand-in
    for their own variables.)  The incidence tables a grid reports are still the exact ones after operations that only READ them (differences and
    gradients over edges, topological aggregations, integration, subsetting, area / bounds construction, dual construction):
    every table is compared with a copy taken before the operation, and a table first built AFTER the operation is checked
    against the oracle."""
    import uxarray as ux
    rng = random.Random(seed * 9176 + 41)
    rec = _Rec()
    meshes = [m for m in mg.catalogue(tier, seed) if m["n_face"] <= (80 if tier == "thorough" else 30)]
    open_m = [m for m in meshes if not m["closed"]]
    closed_m = [m for m in meshes if m["closed"]]
    rng.shuffle(open_m)
    pick = open_m[: (40 if tier == "thorough" else 7)] + closed_m[: (6 if tier == "thorough" else 2)]
    distinct = set()

    def ops(g, mesh):
        nf, nn = mesh["n_face"], mesh["n_node"]
        fda = ux.UxDataArray(np.arange(nf, dtype=float) * 1.5 + 1.0, dims=["n_face"], uxgrid=g, name="f")
        fda2 = ux.UxDataArray(np.arange(2 * nf, dtype=float).reshape(2, nf), dims=["time", "n_face"], uxgrid=g, name="f2")
        nda = ux.UxDataArray(np.arange(nn, dtype=float) - 2.0, dims=["n_node"], uxgrid=g, name="n")
        yield "UxDataArray.gradient()", lambda: fda.gradient()
        yield "UxDataArray.gradient(normalize=True) on (time, n_face)", lambda: fda2.gradient(normalize=True)
        yield "UxDataArray.difference('edge') of face data", lambda: fda.difference(destination="edge")
        yield "UxDataArray.difference('edge') of node data", lambda: nda.difference(destination="edge")
        yield "topological_mean('face')", lambda: nda.topological_mean(destination="face")
        yield "topological_max('edge')", lambda: nda.topological_max(destination="edge")
        yield "topological_sum('face') on (time, n_node)", lambda: ux.UxDataArray(
            np.arange(2 * nn, dtype=float).reshape(2, nn), dims=["time", "n_node"], uxgrid=g, name="n2").topological_sum(destination="face")
        yield "integrate()", lambda: fda.integrate()
        yield "Grid.isel(n_face=...)", lambda: g.isel(n_face=list(range(0, nf, 2)))
        yield "Grid.isel(n_node=...)", lambda: g.isel(n_node=[0, nn - 1])
        yield "face_areas / bounds", lambda: (g.face_areas, g.bounds)
        yield "remap.nearest_neighbor onto the grid's own face centers", lambda: nda.remap.nearest_neighbor(g, remap_to="face centers")
        yield "remap.inverse_distance_weighted onto the grid's own nodes", lambda: fda.remap.inverse_distance_weighted(g, remap_to="nodes", k=min(3, nf))
        yield "subset.bounding_circle / nearest_neighbor", lambda: (g.subset.bounding_circle((float(mesh["lon"][0]), float(mesh["lat"][0])), 25.0, element="nodes"),
                                                                  g.subset.nearest_neighbor((float(mesh["lon"][0]), float(mesh["lat"][0])), k=1, element="face centers"))
        yield "get_ball_tree('face centers').query", lambda: g.get_ball_tree("face centers").query([float(mesh["lon"][0]), float(mesh["lat"][0])], k=1)
        yield "to_polycollection / to_linecollection", lambda: (g.to_polycollection(periodic_elements="exclude"), g.to_linecollection(periodic_elements="exclude"))
        yield "to_geodataframe of a variable", lambda: fda.to_geodataframe(periodic_elements="ignore", engine="geopandas")
        yield "to_xarray('ugrid')", lambda: g.to_xarray("ugrid")
        yield "edge distances", lambda: (g.edge_node_distances, g.edge_face_distances)

        def reassign():
            # every variable the grid holds written back through its own public setter (what Grid.chunk does): no OTHER variable may change
            for nm in list(g._ds.data_vars) + [c for c in g._ds.coords if c in g._ds.variables]:
                prop = getattr(type(g), nm, None)
                if isinstance(prop, property) and prop.fset is not None:
                    setattr(g, nm, getattr(g, nm))
        yield "every stored variable re-assigned through its setter", reassign
        yield "Grid.chunk(n_node=2, n_edge=2, n_face=1)", lambda: g.chunk(n_node=2, n_edge=2, n_face=1)
        if mesh["closed"]:
            yield "get_dual()", lambda: g.get_dual()

    for mesh in pick:
        orc = Oracle(np.asarray(mesh["faces"]), mesh["n_node"])
        if not orc.manifold:
            continue
        probe = grid_of(mesh)
        names = [name for name, _ in ops(probe, mesh)]
        for oi, opname in enumerate(names):
            for prepared in ("all_tables_built", "nothing_built"):
                rec.cases += 1
                distinct.add((mesh["name"], opname, prepared))
                g = grid_of(mesh)
                before = {}
                if prepared == "all_tables_built":
                    try:
                        for t in (tables or _TABLES):
                            before[t] = np.array(getattr(g, t).values, copy=True)
                    except Exception:  # noqa: BLE001   (construction failures are the main pass's business)
                        continue
                fn = [f for n_, f in ops(g, mesh)][oi]
                try:
                    fn()
                except Exception:  # noqa: BLE001   (whether the operation works is another property's business)
                    pass
                inp = {"mesh": _desc(mesh["name"], np.asarray(mesh["faces"])), "operation": opname, "grid_prepared": prepared}
                sc = f"consumer:{opname.split('(')[0]}"
                if prepared == "all_tables_built":
                    for t, v in before.items():
                        try:
                            now = np.asarray(getattr(g, t).values)
                        except Exception as e:  # noqa: BLE001
                            rec.check(False, f"{t} still readable after a read-only operation", sc, f"{t} raises {type(e).__name__} after {opname}",
                                      inp, type(e).__name__, "the table")
                            continue
                        rec.check(now.shape == v.shape and np.array_equal(now, v), f"{t} unchanged by a read-only operation", sc,
                                  f"{t} reported by the grid changed after {opname}", inp, _small(now), _small(v))
                elif oracle_after:
                    # tables first built after the operation: against the oracle
                    check_grid(rec, "after_" + sc, "edges_then_edge_face", mesh, orc, grid=g)
    bound = (f"{len(pick)} manifold catalogue meshes (open patches with boundary edges first, closed ones for the dual) x 22 read-only / value-preserving "
             f"operations x grid prepared with all tables built (compared with copies taken before) or nothing built (tables first "
             f"built afterwards, checked against the oracle)")
    return result(rec.cases, len(distinct), rec.failures, bound, [{"mesh": m["name"]} for m in pick[:3]])
