"""C11 bounded stand-in: Grid.get_ball_tree / get_kd_tree queries against brute force under the tree's metric, and the tree
handed back after a history of differently parameterised requests.

Oracle (numpy only): element positions are computed from the mesh (nodes as given, edge centres = normalised mid point of
the two end nodes of uxarray's edge i, face centres = normalised mean of the corners); distances by brute force:
  spherical + haversine          great-circle distance atan2(|a x b|, a.b)          (degrees unless in_radians)
  spherical + minkowski/euclidean planar distance on (lat, lon) in radians           (degrees unless in_radians)
  cartesian + minkowski/euclidean chord length, cartesian + manhattan: L1 on xyz
Ties are handled by comparing distances: the returned distance row must equal the k smallest brute-force distances
(ascending) and every returned index must really lie at the returned distance.

Query point order for spherical trees: BallTree documents (lon, lat).  KDTree.query's docstring says "(lat, lon)" while the
error message of the shared helper and the user guide say (lon, lat) / "identical to BallTree"; for KDTree the stand-in
therefore accepts EITHER order as long as one order explains every query of that tree (no false alarm on an ambiguity).
"""
import itertools
import math
import random

import numpy as np

from . import meshgen as mg
from .common import FILL, grid_of, result, ux

KINDS = ("nodes", "edge centers", "face centers")
CONFIGS = {
    "ball": [("spherical", "haversine"), ("cartesian", "minkowski"), ("cartesian", "manhattan"), ("spherical", "euclidean")],
    "kd": [("cartesian", "minkowski"), ("spherical", "minkowski"), ("cartesian", "manhattan")],
}
TOL = 1e-9


# ------------------------------------------------------------------------------------------------ oracle
def _xyz(lon_deg, lat_deg):
    lo, la = np.deg2rad(np.asarray(lon_deg, float)), np.deg2rad(np.asarray(lat_deg, float))
    return np.stack([np.cos(lo) * np.cos(la), np.sin(lo) * np.cos(la), np.sin(la)], axis=-1)


def _gc(A, B):
    """great-circle distances between rows of A (nq,3) and rows of B (n,3) -> (nq, n)"""
    cr = np.linalg.norm(np.cross(A[:, None, :], B[None, :, :]), axis=-1)
    dt = (A[:, None, :] * B[None, :, :]).sum(-1)
    return np.arctan2(cr, dt)


def _elements(mesh):
    """kind -> dict(xyz (n,3), latlon (n,2) radians with the longitude representation the grid reports)"""
    ref = grid_of(mesh)                      # a separate grid: reading coordinates here cannot disturb the grid under test
    P = _xyz(mesh["lon"], mesh["lat"])
    en = np.asarray(ref.edge_node_connectivity.values)
    E = P[en].mean(axis=1)
    E /= np.linalg.norm(E, axis=1)[:, None]
    F = np.array([P[mg.face_corners(mesh, f)].mean(axis=0) for f in range(mesh["n_face"])])
    F /= np.linalg.norm(F, axis=1)[:, None]
    rep = {"nodes": (ref.node_lon.values, ref.node_lat.values), "edge centers": (ref.edge_lon.values, ref.edge_lat.values),
           "face centers": (ref.face_lon.values, ref.face_lat.values)}
    out = {}
    for kind, X in (("nodes", P), ("edge centers", E), ("face centers", F)):
        lon_r, lat_r = (np.asarray(v, float) for v in rep[kind])
        R = _xyz(lon_r, lat_r)
        same = len(R) == len(X) and float(np.max(np.arctan2(np.linalg.norm(np.cross(R, X), axis=1), (R * X).sum(1)))) < 1e-9
        if not same:
            continue                         # coordinates disagree with the mesh geometry: C04's subject, not C11's
        # exact own positions, longitude representation (multiple of 360) as reported
        lat = np.arcsin(np.clip(X[:, 2], -1, 1))
        lon = np.arctan2(X[:, 1], X[:, 0])
        lon_rep = np.deg2rad(lon_r)
        lon = lon + 2 * math.pi * np.round((lon_rep - lon) / (2 * math.pi))
        polar = np.hypot(X[:, 0], X[:, 1]) < 1e-12
        lon[polar] = lon_rep[polar]
        out[kind] = {"xyz": X, "latlon": np.stack([lat, lon], axis=1)}
    return out


def _dist(system, metric, q_lonlat_deg, el):
    """brute-force distance matrix (nq, n) in the tree's native unit (radians / chord)"""
    q = np.asarray(q_lonlat_deg, float).reshape(-1, 2)
    if system == "spherical":
        if metric == "haversine":
            return _gc(_xyz(q[:, 0], q[:, 1]), el["xyz"])
        ql = np.deg2rad(np.stack([q[:, 1], q[:, 0]], axis=1))       # (lat, lon)
        return np.sqrt(((ql[:, None, :] - el["latlon"][None, :, :]) ** 2).sum(-1))
    Q = _xyz(q[:, 0], q[:, 1])
    diff = Q[:, None, :] - el["xyz"][None, :, :]
    if metric == "manhattan":
        return np.abs(diff).sum(-1)
    return np.sqrt((diff ** 2).sum(-1))


def _tol(system, metric, D):
    """absolute tolerance per entry: haversine via arcsin loses precision towards the antipode"""
    t = np.full(D.shape, TOL)
    if system == "spherical" and metric == "haversine":
        t = np.where(D > 3.0, 2e-7, np.where(D > 2.0, 1e-8, TOL))
    return t


def _queries(mesh, els, kind, rng, n_rand):
    """(lon, lat) degrees"""
    lat, lon = np.rad2deg(els[kind]["latlon"][:, 0]), np.rad2deg(els[kind]["latlon"][:, 1])
    n = len(lat)
    qs = []
    for i in rng.sample(range(n), min(3, n)):
        qs.append((float(lon[i]), float(lat[i])))                       # an element's own position
    qs += [(179.7, 10.0), (-179.6, 10.3), (180.0, -5.0), (-180.0, 20.0), (0.0, 90.0), (123.0, 90.0), (-45.0, -90.0), (0.0, 0.0),
           (12.5, 47.25)]
    for _ in range(n_rand):
        i = rng.randrange(n)
        qs.append((float(max(-180.0, min(180.0, lon[i] + rng.uniform(-4, 4)))), float(max(-90.0, min(90.0, lat[i] + rng.uniform(-4, 4))))))
        qs.append((rng.uniform(-180, 180), math.degrees(math.asin(rng.uniform(-1, 1)))))
    return qs


def _get_tree(g, tree, kind, system, metric, **kw):
    f = g.get_ball_tree if tree == "ball" else g.get_kd_tree
    return f(coordinates=kind, coordinate_system=system, distance_metric=metric, **kw)


def _fmt(q, system, order, in_radians):
    """query array in the form the API takes for this tree"""
    q = np.asarray(q, float).reshape(-1, 2)
    if system == "cartesian":
        return _xyz(q[:, 0], q[:, 1])
    a = q if order == "lonlat" else q[:, ::-1]
    return np.deg2rad(a) if in_radians else a.copy()


def _small_list(a, limit=12):
    return np.asarray(a, float).ravel()[:limit].round(6).tolist()


class _Rec:
    def __init__(self, cfg, inputs):
        self.cfg, self.inputs, self.fails, self.cases = cfg, inputs, [], 0

    def fail(self, clause, call, what, observed=None, expected=None, extra=None):
        d = dict(self.inputs)
        d["call"] = call
        if extra:
            d.update(extra)
        self.fails.append({"key": f"{clause}:{self.cfg}:{call}", "what": what, "violated": clause, "inputs": d,
                           "observed": observed, "expected": expected})


def _check_knn(rec, call, ret, D, k, scale, tolm, with_d=True, extra=None):
    """ret: (d, ind) or ind; D brute-force (nq, n) in native unit; scale: factor native -> returned unit"""
    nq, n = D.shape
    rec.cases += 1
    try:
        if with_d:
            d, ind = ret
            d = np.asarray(d, float).reshape(nq, k)
        else:
            ind = ret
        ind = np.asarray(ind).reshape(nq, k).astype(np.int64)
    except Exception:  # noqa: BLE001
        rec.fail("knn_result_shape", call, "result cannot be arranged as (n_query, k)", str(np.shape(ret[1] if with_d else ret)),
                 [nq, k], extra)
        return
    srt = np.sort(D, axis=1)[:, :k]
    tk = np.sort(tolm, axis=1)[:, -1:]            # generous: the largest tolerance of the row
    if ind.min() < 0 or ind.max() >= n or any(len(set(r)) != k for r in ind.tolist()):
        rec.fail("knn_indices_valid_distinct", call, "indices out of range or repeated", ind[:3].tolist(), "k distinct element ids", extra)
        return
    true_d = np.take_along_axis(D, ind, axis=1)
    bad_i = np.abs(true_d - srt) > tk
    if bad_i.any():
        r = int(np.where(bad_i.any(axis=1))[0][0])
        e = dict(extra or {})
        e["query_row"] = r
        rec.fail("knn_elements_are_brute_force_nearest", call, "returned elements are not the k nearest (nearest first) under the tree's metric",
                 {"ind": ind[r].tolist(), "their_true_distance": true_d[r].tolist()},
                 {"ind": np.argsort(D[r], kind="stable")[:k].tolist(), "distance": srt[r].tolist()}, e)
        return
    if with_d:
        rec.cases += 1
        bad_d = np.abs(d - srt * scale) > tk * scale
        if bad_d.any():
            r = int(np.where(bad_d.any(axis=1))[0][0])
            e = dict(extra or {})
            e["query_row"] = r
            rec.fail("knn_distances_in_documented_unit", call, "returned distances differ from the brute-force distances in the documented unit",
                     d[r].tolist(), (srt[r] * scale).tolist(), e)


def _check_radius(rec, call, ind_lists, D, r_native, tolm, d_lists=None, scale=1.0, counts=None, extra=None):
    nq, n = D.shape
    rec.cases += 1
    must = D <= r_native - tolm
    may = D <= r_native + tolm
    if counts is not None:
        c = np.asarray(counts).reshape(-1)
        lo, hi = must.sum(1), may.sum(1)
        if len(c) != nq or np.any(c < lo) or np.any(c > hi):
            rec.fail("radius_count", call, "count_only result differs from the brute-force count", c.tolist(), lo.tolist(), extra)
        return
    if nq == 1 and not (len(ind_lists) == 1 and isinstance(ind_lists, list)):
        ind_lists = [ind_lists]
        if d_lists is not None:
            d_lists = [d_lists]
    if len(ind_lists) != nq:
        rec.fail("radius_result_shape", call, "one index array per query point expected", len(ind_lists), nq, extra)
        return
    for i in range(nq):
        got = np.asarray(ind_lists[i]).reshape(-1).astype(np.int64)
        s = set(got.tolist())
        if len(s) != len(got) or not set(np.where(must[i])[0].tolist()) <= s or not s <= set(np.where(may[i])[0].tolist()):
            e = dict(extra or {})
            e["query_row"] = i
            rec.fail("radius_elements_are_brute_force_set", call, "elements returned for the radius differ from the brute-force set",
                     sorted(s)[:12], sorted(np.where(must[i])[0].tolist())[:12], e)
            return
        if d_lists is not None:
            dd = np.asarray(d_lists[i], float).reshape(-1)
            if len(dd) != len(got) or np.any(np.abs(dd - D[i, got] * scale) > tolm[i, got] * scale):
                e = dict(extra or {})
                e["query_row"] = i
                rec.fail("radius_distances_in_documented_unit", call, "distances returned with the radius query differ from brute force in the documented unit",
                         dd[:6].tolist(), (D[i, got] * scale)[:6].tolist(), e)
                return


def _exercise(t, tree, system, metric, el, qs, order, rec, rng, full=True):
    """all query / query_radius checks on tree object t; returns nothing (failures in rec)"""
    n = len(el["xyz"])
    D = _dist(system, metric, qs, el)
    tolm = _tol(system, metric, D)
    sph = system == "spherical"
    deg = 180.0 / math.pi
    nq = len(qs)

    def call(name, f, *a, **kw):
        try:
            return True, f(*a, **kw)
        except Exception as e:  # noqa: BLE001
            rec.cases += 1
            rec.fail(f"exception_{type(e).__name__}", name, f"{name} raised {type(e).__name__}: {e}"[:300], "exception", "a result")
            return False, None

    ks = sorted({1, min(2, n), min(3, n), n}) if full else [min(2, n)]
    for k in ks:
        ok, ret = call("query_deg", t.query, _fmt(qs, system, order, False), k=k, return_distance=True)
        if ok:
            _check_knn(rec, "query_deg", ret, D, k, deg if sph else 1.0, tolm, extra={"k": k, "batched": True})
    k = min(2, n)
    ok, ret = call("query_deg", t.query, _fmt(qs, system, order, False), k=k, return_distance=False)
    if ok:
        _check_knn(rec, "query_deg", ret, D, k, 1.0, tolm, with_d=False, extra={"k": k, "batched": True, "return_distance": False})
    if sph:
        ok, ret = call("query_rad", t.query, _fmt(qs, system, order, True), k=k, return_distance=True, in_radians=True)
        if ok:
            _check_knn(rec, "query_rad", ret, D, k, 1.0, tolm, extra={"k": k, "batched": True, "in_radians": True})
    # the same float64 query array used for two calls (query, then query_radius / query): both answers are for the points supplied
    qa = np.ascontiguousarray(_fmt(qs, system, order, False), dtype=np.float64)
    qkeep = qa.copy()
    ok, ret = call("query_deg", t.query, qa, k=k, return_distance=True)
    rec.cases += 1
    if not np.array_equal(qa, qkeep):
        rec.fail("query_points_left_as_supplied", "query_deg", "the caller's query array was modified by query()", _small_list(qa), _small_list(qkeep),
                 {"k": k, "batched": True})
    ok, ret = call("query_deg", t.query, qa, k=k, return_distance=True)
    if ok:
        _check_knn(rec, "query_deg", ret, D, k, deg if sph else 1.0, tolm, extra={"k": k, "batched": True, "query_array": "reused from an earlier query"})
    q1 = np.array(_fmt([qs[0]], system, order, False)[0], dtype=np.float64)
    ok, ret = call("query_deg", t.query, q1, k=1)
    ok, ret = call("query_deg", t.query, q1, k=1)
    if ok:
        _check_knn(rec, "query_deg", ret, D[0:1], 1, deg if sph else 1.0, tolm[0:1], extra={"k": 1, "batched": False, "query_array": "reused from an earlier query"})
    # single points (1-d input, list input, one-row 2-d input)
    for j in ([0, 3, 4, 7, 8] if full else [0, 4]):
        if j >= nq:
            continue
        for kk in ((1, k) if full else (1,)):
            single = _fmt([qs[j]], system, order, False)[0]
            ok, ret = call("query_deg", t.query, list(single) if j % 2 else single, k=kk)
            if ok:
                _check_knn(rec, "query_deg", ret, D[j:j + 1], kk, deg if sph else 1.0, tolm[j:j + 1], extra={"k": kk, "batched": False, "point": list(qs[j])})
    ok, ret = call("query_deg", t.query, _fmt([qs[1]], system, order, False), k=k)
    if ok:
        _check_knn(rec, "query_deg", ret, D[1:2], k, deg if sph else 1.0, tolm[1:2], extra={"k": k, "batched": "one row"})
    # ---------------- radius
    flat = np.sort(D.ravel())
    radii = [0.0, float(flat[len(flat) // 4]) * 1.0000001 + 1e-6, float(flat[len(flat) // 2]) + 1e-6]
    for r_native in (radii if full else radii[1:2]):
        # keep away from ties with the radius itself
        if np.any(np.abs(D - r_native) < 1e-7) and r_native > 0:
            r_native += 3e-7
        r_arg = r_native * deg if sph else r_native            # documented / user-guide unit: degrees for spherical trees
        ex = {"r": r_arg}
        ok, ret = call("query_radius_deg", t.query_radius, _fmt(qs, system, order, False), r=r_arg)
        if ok:
            _check_radius(rec, "query_radius_deg", ret, D, r_native, tolm, extra=ex)
        ok, ret = call("query_radius_deg", t.query_radius, _fmt(qs, system, order, False), r=r_arg, return_distance=True)
        if ok:
            _check_radius(rec, "query_radius_deg", ret[1], D, r_native, tolm, d_lists=ret[0], scale=deg if sph else 1.0, extra=ex)
        if full:
            ok, ret = call("query_radius_deg", t.query_radius, _fmt(qs, system, order, False), r=r_arg, return_distance=True, sort_results=True)
            if ok:
                _check_radius(rec, "query_radius_deg", ret[1], D, r_native, tolm, d_lists=ret[0], scale=deg if sph else 1.0, extra=ex)
                rec.cases += 1
                if any(np.any(np.diff(np.asarray(x, float).reshape(-1)) < -1e-12) for x in ret[0]):
                    rec.fail("radius_sorted_nearest_first", "query_radius_deg", "sort_results=True but distances are not ascending", None, None, ex)
            ok, ret = call("query_radius_deg", t.query_radius, _fmt(qs, system, order, False), r=r_arg, count_only=True)
            if ok:
                _check_radius(rec, "query_radius_deg", None, D, r_native, tolm, counts=ret, extra=ex)
            j = 4 if nq > 4 else 0
            ok, ret = call("query_radius_deg", t.query_radius, _fmt([qs[j]], system, order, False)[0], r=r_arg, return_distance=True)
            if ok:
                _check_radius(rec, "query_radius_deg", ret[1], D[j:j + 1], r_native, tolm[j:j + 1], d_lists=ret[0], scale=deg if sph else 1.0,
                              extra={"r": r_arg, "batched": False})
    if sph:
        if tree == "kd":
            # k-d tree, radians in / radians out: radius in radians
            r_native = radii[1]
            ok, ret = call("query_radius_rad", t.query_radius, _fmt(qs, system, order, True), r=r_native, return_distance=True, in_radians=True)
            if ok:
                _check_radius(rec, "query_radius_rad", ret[1], D, r_native, tolm, d_lists=ret[0], scale=1.0, extra={"r": r_native, "in_radians": True})
        else:
            # BallTree documents r in degrees; with in_radians=True only unit-independent radii are used (everything)
            ok, ret = call("query_radius_rad", t.query_radius, _fmt(qs, system, order, True), r=1000.0, return_distance=True, in_radians=True)
            if ok:
                _check_radius(rec, "query_radius_rad", ret[1], D, 1000.0, tolm, d_lists=ret[0], scale=1.0, extra={"r": 1000.0, "in_radians": True})


def _run_config(g, tree, kind, system, metric, el, qs, mesh_name, rng, full, t=None, history=None):
    """returns (cases, failures) for one tree; decides the query order convention as described in the module docstring"""
    cfg = f"{tree}_{system}_{metric}"
    inputs = {"mesh": mesh_name, "coordinates": kind, "coordinate_system": system, "distance_metric": metric}
    if history:
        inputs["history"] = history
    orders = ["lonlat"] if system == "cartesian" else ["lonlat", "latlon"]
    recs = {}
    for order in orders:
        rec = _Rec(cfg, dict(inputs, query_order=order))
        if t is None:
            try:
                tt = _get_tree(g, tree, kind, system, metric, reconstruct=True)
            except Exception as e:  # noqa: BLE001
                rec.cases += 1
                rec.fail(f"exception_{type(e).__name__}", "get_tree", f"get_{tree}_tree raised {type(e).__name__}: {e}"[:300], "exception", "a tree")
                return rec.cases, rec.fails
        else:
            tt = t
        _exercise(tt, tree, system, metric, el, qs, order, rec, rng, full)
        recs[order] = rec
        if not rec.fails:
            break
    if system == "cartesian":
        r = recs["lonlat"]
        return r.cases, r.fails
    a = recs["lonlat"]
    if not a.fails:
        return a.cases, []
    b = recs["latlon"]
    if tree == "kd":
        # ambiguous documentation: either order is accepted when it explains everything
        if not b.fails:
            return a.cases, []
        best = a if len(a.fails) <= len(b.fails) else b
        return a.cases, best.fails
    # BallTree: (lon, lat) is documented
    if not b.fails:
        f = a.fails[0]
        return a.cases, [{"key": f"query_point_order_is_lonlat:{cfg}:query", "what": "BallTree documents query points as (lon, lat) but this tree "
                          "answers correctly only when given (lat, lon)", "violated": "brute force under the tree's metric for (lon, lat) query points",
                          "inputs": f["inputs"], "observed": f["observed"], "expected": f["expected"]}]
    return a.cases, a.fails


# ------------------------------------------------------------------------------------------------ histories
def _history_checks(mesh, els, rng, tier):
    """request tree A then tree B (and A, B, C in thorough) from ONE grid without reconstruct; B must answer like a fresh B"""
    fails, cases, distinct = [], 0, 0
    for tree in ("ball", "kd"):
        params = [(k, s, m) for (s, m) in CONFIGS[tree][:3] for k in KINDS if k in els]
        seqs = list(itertools.permutations(params, 2))
        if tier == "thorough":
            tri = list(itertools.permutations(params, 3))
            seqs += rng.sample(tri, min(len(tri), 150))
        for seq in seqs:
            g = grid_of(mesh)
            ok = True
            for (k, s, m) in seq[:-1]:
                try:
                    t0 = _get_tree(g, tree, k, s, m)
                    # use it once, as a caller would
                    t0.query(_fmt([(10.0, 10.0)], s, "lonlat", False)[0], k=1)
                except Exception:  # noqa: BLE001
                    ok = False
            if not ok:
                continue
            kind, system, metric = seq[-1]
            # in which arguments does ANY earlier request differ from this one
            differs = [nm for i, nm in enumerate(("kind", "coordinate_system", "metric")) if any(p[i] != seq[-1][i] for p in seq[:-1])]
            distinct += 1
            hist = [list(x) for x in seq]
            tag = f"{tree}:earlier_requests_differ_in_{'+'.join(differs)}"
            cases += 1
            try:
                t = _get_tree(g, tree, kind, system, metric)
            except Exception as e:  # noqa: BLE001
                fails.append({"key": f"history_exception_{type(e).__name__}:{tag}", "what": f"get_{tree}_tree raised {type(e).__name__}: {e}"[:300],
                              "violated": "the tree handed back reflects this call's arguments", "inputs": {"mesh": mesh["name"], "history": hist},
                              "observed": "exception", "expected": "a tree"})
                continue
            got = (t.coordinates, t.coordinate_system, t.distance_metric)
            if got != (kind, system, metric):
                fails.append({"key": f"history_tree_reflects_this_call:{tag}", "what": "the tree handed back was built for other arguments than this call's",
                              "violated": "the tree handed back reflects the element kind, coordinate system and metric requested in that call",
                              "inputs": {"mesh": mesh["name"], "tree": tree, "history": hist}, "observed": list(got), "expected": [kind, system, metric]})
                continue
            qs = _queries(mesh, els, kind, rng, 2)
            c, f = _run_config(g, tree, kind, system, metric, els[kind], qs, mesh["name"], rng, False, t=t, history=hist)
            cases += c
            if f:
                # differential: only what a FRESH tree for the same arguments answers correctly counts against the history
                _, f0 = _run_config(grid_of(mesh), tree, kind, system, metric, els[kind], qs, mesh["name"], rng, False)
                fresh_keys = {x["key"] for x in f0}
                f = [x for x in f if x["key"] not in fresh_keys]
            for x in f:
                x = dict(x)
                x["key"] = f"history_answers_like_fresh_tree:{tag}"
                x["violated"] = "the tree handed back reflects this call's arguments (answers equal brute force for them)"
                fails.append(x)
                break
    return cases, distinct, fails


def _meshes(tier, seed):
    sm = {m["name"]: m for m in mg.small_meshes()}
    cl = {m["name"]: m for m in mg.closed_meshes(thorough=(tier == "thorough"))}
    out = [sm["quads3x2@165,-15"], sm["quads2x2@-10,-10"], sm["quads2x1@30,70"], sm["tri_pent_quad"], cl["octahedron"], cl["uv_sphere6x4"],
           cl["icosahedron"]]
    if tier == "thorough":
        out += [m for n, m in cl.items() if n not in ("octahedron", "uv_sphere6x4", "icosahedron")] + [sm["hex_quad_tri"], sm["oct_hept"]]
    out += mg.random_meshes(seed * 13 + 2, 4 if tier == "quick" else 60)
    return out


def neighbours(tier, seed):
    rng = random.Random(seed * 7907 + 5)
    fails, cases, keys, samples = [], 0, set(), []
    meshes = _meshes(tier, seed)
    for m in meshes:
        els = _elements(m)
        g = grid_of(m)
        for kind in KINDS:
            if kind not in els:
                continue
            qs = _queries(m, els, kind, rng, 3 if tier == "quick" else 6)
            for tree in ("ball", "kd"):
                for (system, metric) in CONFIGS[tree]:
                    c, f = _run_config(g, tree, kind, system, metric, els[kind], qs, m["name"], rng, True)
                    cases += c
                    fails += f
                    keys.add((m["name"], kind, tree, system, metric))
        if len(samples) < 3:
            samples.append({"mesh": m["name"], "queries_lonlat_deg": qs[:5]})
    # node coordinates stored as INTEGER arrays (whole degrees): the Grid keeps the dtype it was given, the trees must not
    im = mg.quad_patch(3, 2, lon0=170.0, lat0=-10.0, d=10.0, name="quads3x2_integer_coordinates")
    els = _elements(im)
    gi = ux.Grid.from_topology(node_lon=np.array(np.round(im["lon"]), dtype=np.int64), node_lat=np.array(np.round(im["lat"]), dtype=np.int64),
                               face_node_connectivity=np.array(im["faces"]), fill_value=FILL)
    for kind in KINDS:
        if kind not in els:
            continue
        qs = _queries(im, els, kind, rng, 3)
        for tree in ("ball", "kd"):
            for (system, metric) in CONFIGS[tree][:2]:
                c, f = _run_config(gi, tree, kind, system, metric, els[kind], qs, im["name"], rng, False)
                cases += c
                fails += f
                keys.add((im["name"], kind, tree, system, metric))
    # histories on two small meshes
    hm = [meshes[0], meshes[3]] if tier == "quick" else [meshes[0], meshes[3], meshes[5]]
    n_hist = 0
    for m in hm:
        els = _elements(m)
        c, d, f = _history_checks(m, els, rng, tier)
        cases += c
        n_hist += d
        fails += f
    bound = (f"{len(meshes)} meshes (antimeridian patch, prime-meridian patch, high latitude, mixed polygons, octahedron / uv sphere with "
             f"pole nodes, icosahedron, seeded random patches) x 3 element kinds x ball(spherical/haversine, cartesian/minkowski, "
             f"cartesian/manhattan, spherical/euclidean) + kd(cartesian/minkowski, spherical/minkowski, cartesian/manhattan), fresh trees "
             f"(reconstruct=True); queries at element positions, both sides of the antimeridian, poles, random; k in 1,2,3,n; batched, single, "
             f"degrees and radians, with / without distances; query_radius with 3 radii (sets, distances, counts, sorted); "
             f"{n_hist} request histories (all ordered pairs"
             + (" + sampled triples" if tier == "thorough" else "") + " of 9 parameter tuples per tree type) without reconstruct; JIT off")
    return result(cases, len(keys) + n_hist, fails, bound, samples)
