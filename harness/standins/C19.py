"""C19 bounded stand-in: a grid shares no mutable state with its inputs, copies or exports.

Every expectation is a snapshot taken BEFORE the operation (deep copies made with numpy / copy.deepcopy, never by uxarray):
 * constructors: the caller's arrays / lists / dataset (values, dtypes, dims, names, attrs dictionaries) are bit-identical after
   construction and after lazy derivations on the new grid;
 * g2 = g.copy(): what g2 reports (every variable it holds: values, attrs, chunking; inventories; attrs) is unchanged by public
   mutators applied to g, and vice versa;
 * exports: caller edits of to_xarray() datasets, GeoDataFrames, Poly/LineCollections do not change what the grid reports afterwards.
Exceptions raised for container kinds a constructor does not accept (e.g. python lists in from_topology) are not judged; only the
inputs are compared afterwards.
"""
import copy
import random

import numpy as np
import xarray as xr

from . import meshgen as mg
from .common import FILL, result

import uxarray as ux

DERIVE = ["n_nodes_per_face", "edge_node_connectivity", "face_edge_connectivity", "node_face_connectivity", "edge_face_connectivity",
          "face_face_connectivity", "node_x", "edge_lon", "edge_x", "face_lon", "face_x", "face_areas", "edge_node_distances",
          "hole_edge_indices"]


# ------------------------------------------------------------------------------------------------ deep snapshots / comparison
def snap(obj):
    """deep, uxarray-independent snapshot of an input object"""
    if isinstance(obj, np.ndarray):
        return ("nd", obj.dtype.str, obj.shape, obj.copy(), obj.flags.writeable)
    if isinstance(obj, xr.Dataset):
        return ("ds", {str(k): snap(obj[k]) for k in obj.variables}, snap(dict(obj.attrs)), dict(obj.sizes),
                sorted(str(c) for c in obj.coords))
    if isinstance(obj, (xr.DataArray, xr.Variable)):
        return ("da", tuple(obj.dims), snap(np.asarray(obj.values)), snap(dict(obj.attrs)))
    if isinstance(obj, dict):
        return ("dict", {k: snap(v) for k, v in obj.items()})
    if isinstance(obj, (list, tuple)):
        return (type(obj).__name__, [snap(v) for v in obj])
    return ("v", copy.deepcopy(obj))


def diff(a, b, path=""):
    """list of paths at which two snapshots differ (bitwise for arrays; NaNs equal)"""
    if a[0] != b[0]:
        return [path + ":kind"]
    k = a[0]
    if k == "nd":
        out = []
        if a[1] != b[1]:
            out.append(path + ":dtype")
        if a[2] != b[2]:
            out.append(path + ":shape")
        elif not np.array_equal(a[3], b[3], equal_nan=(a[3].dtype.kind in "fc")):
            out.append(path + ":values")
        return out
    if k == "ds":
        out = []
        if sorted(a[1]) != sorted(b[1]):
            out.append(path + ":variables")
        for n in a[1]:
            if n in b[1]:
                out += diff(a[1][n], b[1][n], path + "/" + n)
        out += diff(a[2], b[2], path + "/attrs")
        if a[3] != b[3]:
            out.append(path + ":sizes")
        if a[4] != b[4]:
            out.append(path + ":coords")
        return out
    if k == "da":
        out = []
        if a[1] != b[1]:
            out.append(path + ":dims")
        out += diff(a[2], b[2], path)
        out += diff(a[3], b[3], path + "/attrs")
        return out
    if k == "dict":
        out = []
        if list(a[1]) != list(b[1]):
            out.append(path + ":keys")
        for n in a[1]:
            if n in b[1]:
                out += diff(a[1][n], b[1][n], path + "/" + str(n))
        return out
    if k in ("list", "tuple"):
        if len(a[1]) != len(b[1]):
            return [path + ":len"]
        out = []
        for i, (x, y) in enumerate(zip(a[1], b[1])):
            out += diff(x, y, path + f"[{i}]")
        return out
    try:
        same = bool(a[1] == b[1])
    except Exception:
        same = False
    return [] if same else [path + ":value"]


def report(g):
    """what a grid currently reports, WITHOUT deriving anything new: every variable it holds (values, dims, attrs, chunked or not),
    inventories, sizes, attrs"""
    names = sorted(g.coordinates | g.connectivity | g.descriptors)
    out = {"coordinates": sorted(g.coordinates), "connectivity": sorted(g.connectivity), "descriptors": sorted(g.descriptors),
           "sizes": dict(g.sizes), "attrs": snap(dict(g.attrs)), "vars": {}}
    for n in names:
        da = g._ds[n] if n in ("edge_lon", "edge_lat") else getattr(g, n)
        out["vars"][n] = (snap(da), da.chunks is not None)
    return out


def report_diff(a, b):
    out = []
    for k in ("coordinates", "connectivity", "descriptors", "sizes"):
        if a[k] != b[k]:
            out.append("inventory:" + k)
    out += ["attrs" + d for d in diff(a["attrs"], b["attrs"])]
    for n in a["vars"]:
        if n not in b["vars"]:
            out.append(n + ":dropped")
            continue
        out += [n + d for d in diff(a["vars"][n][0], b["vars"][n][0])]
        if a["vars"][n][1] != b["vars"][n][1]:
            out.append(n + ":chunking")
    return out


def derive(g, names=DERIVE):
    for n in names:
        try:
            getattr(g, n)
        except Exception:
            pass


# ------------------------------------------------------------------------------------------------ inputs
def topo_inputs(mesh, fill, start, dtype, lon360):
    faces = np.array(mesh["faces"], dtype=np.int64)
    real = faces != FILL
    f = np.where(real, faces + start, fill).astype(dtype)
    lon = np.array(mesh["lon"], float)
    if lon360:
        lon = np.where(lon < 0, lon + 360.0, lon)
    return lon, np.array(mesh["lat"], float), f


def ugrid_dataset(mesh, fill, start, dtype, lon360, with_attrs=True):
    lon, lat, f = topo_inputs(mesh, fill, start, dtype, lon360)
    ds = xr.Dataset()
    ds["Mesh2"] = xr.DataArray(np.int32(0), attrs={"cf_role": "mesh_topology", "long_name": "topology", "topology_dimension": 2,
                                                   "node_coordinates": "Mesh2_node_x Mesh2_node_y",
                                                   "face_node_connectivity": "Mesh2_face_nodes", "face_dimension": "nMesh2_face"})
    ds["Mesh2_node_x"] = xr.DataArray(lon, dims=["nMesh2_node"], attrs={"standard_name": "longitude", "units": "degrees_east"})
    ds["Mesh2_node_y"] = xr.DataArray(lat, dims=["nMesh2_node"], attrs={"standard_name": "latitude", "units": "degrees_north"})
    ds["Mesh2_face_nodes"] = xr.DataArray(f, dims=["nMesh2_face", "nMaxMesh2_face_nodes"],
                                          attrs={"cf_role": "face_node_connectivity", "_FillValue": dtype(fill) if fill is not None else None,
                                                 "start_index": dtype(start)})
    if fill is None:
        del ds["Mesh2_face_nodes"].attrs["_FillValue"]
    if with_attrs:
        ds.attrs = {"title": "in-memory ugrid", "history": ["a", "b"], "nested": {"k": [1, 2, 3]}}
    return ds


def ugrid_dataset_with_edges(mesh):
    """a UGRID dataset that ships its OWN edge table in the standard encoding (int64, zero-based, no attributes to convert), rows in
    the order of the sorted pairs but every other row listed as (larger node, smaller node)"""
    ds = ugrid_dataset(mesh, FILL, 0, np.int64, False)
    es = sorted(mg.edge_set(mesh["faces"]))
    en = np.array([(b, a) if i % 2 else (a, b) for i, (a, b) in enumerate(es)], dtype=np.int64)
    ds["Mesh2_edge_nodes"] = xr.DataArray(en, dims=["nMesh2_edge", "Two"], attrs={"cf_role": "edge_node_connectivity", "_FillValue": FILL})
    ds["Mesh2"].attrs["edge_node_connectivity"] = "Mesh2_edge_nodes"
    return ds


# ------------------------------------------------------------------------------------------------ the sweep
def sharing(tier, seed):
    thorough = tier == "thorough"
    rng = random.Random(seed * 7 + 3)
    failures, cases, distinct, samples = [], 0, set(), []

    def fail(key, what, violated, inputs, observed=None, expected=None):
        failures.append({"key": key, "what": what, "violated": violated, "inputs": inputs, "observed": observed, "expected": expected})

    cat = [m for m in mg.catalogue(tier, seed) if m["n_face"] <= 40]
    fixed = [m for m in cat if m["name"] in ("mixed_quad_tri_isolated", "quads3x2@165,-15", "tri_pent_quad", "quads2x2@-10,-10")]
    rest = [m for m in cat if m not in fixed]
    rng.shuffle(rest)
    meshes = fixed + rest[: (40 if thorough else 4)]

    # ================================================================ A. constructors leave their inputs alone
    V_INPUTS = "building a grid does not modify the arrays, attribute dictionaries or dataset it is built from"
    variants = [(FILL, 0, np.int64, False), (-1, 0, np.int64, False), (-1, 1, np.int64, False), (FILL, 1, np.int64, False),
                (-1, 1, np.int32, False), (-1, 0, np.int32, True), (FILL, 0, np.int64, True), (999, 1, np.int64, True)]
    topo_found, ds_found = [], []
    for mesh in meshes:
        for (fill, start, dtype, lon360) in variants:
            vtag = f"fill={'standard' if fill == FILL else 'custom'},start_index={start},{np.dtype(dtype).name}" + (",lon0-360" if lon360 else "")
            # ---------- from_topology, numpy arrays
            lon, lat, f = topo_inputs(mesh, fill, start, dtype, lon360)
            before = snap([lon, lat, f])
            cases += 1
            distinct.add((mesh["name"], "topo", vtag))
            g = None
            try:
                g = ux.Grid.from_topology(node_lon=lon, node_lat=lat, face_node_connectivity=f, fill_value=fill, start_index=start)
            except Exception:
                pass
            d = diff(before, snap([lon, lat, f]))
            if d:
                which = sorted({("node_lon", "node_lat", "face_node_connectivity")[int(x[1])] for x in d})
                for w in which:
                    topo_found.append((w, _why(w, fill, start, lon360), vtag, mesh["name"],
                                       {"mesh": mesh["name"], "fill_value": fill, "start_index": start, "dtype": np.dtype(dtype).name,
                                        "lon_0_360": lon360}, d[:4]))
            elif g is not None:
                derive(g)
                try:
                    g.normalize_cartesian_coordinates()
                    g.to_xarray()
                except Exception:
                    pass
                d = diff(before, snap([lon, lat, f]))
                cases += 1
                if d:
                    which = sorted({("node_lon", "node_lat", "face_node_connectivity")[int(x[1])] for x in d})
                    for w in which:
                        fail(f"input_modified:from_topology:ndarray:{w}:after_lazy_derivation",
                             f"lazy derivations on the grid changed the caller's {w} array passed to from_topology ({vtag})", V_INPUTS,
                             {"mesh": mesh["name"], "fill_value": fill, "start_index": start, "lon_0_360": lon360}, d[:4])
            # ---------- from_topology, python lists
            if (fill, start, dtype) in ((FILL, 0, np.int64), (-1, 1, np.int64)):
                llon, llat, lf = lon.tolist(), lat.tolist(), f.tolist()
                lbefore = copy.deepcopy([llon, llat, lf])
                cases += 1
                distinct.add((mesh["name"], "topo-list", vtag))
                try:
                    g = ux.Grid.from_topology(node_lon=llon, node_lat=llat, face_node_connectivity=lf, fill_value=fill, start_index=start)
                    derive(g)
                except Exception:
                    pass
                if [llon, llat, lf] != lbefore:
                    fail("input_modified:from_topology:list", f"Grid.from_topology changed the caller's lists ({vtag})", V_INPUTS,
                         {"mesh": mesh["name"], "fill_value": fill, "start_index": start})
            # ---------- from_dataset / open_grid with an in-memory UGRID dataset
            if fill == FILL and np.dtype(dtype) == np.int32:
                continue
            openers = ("from_dataset", "open_grid") + (("from_dataset:own_edge_table",) if (fill == FILL and start == 0 and np.dtype(dtype) == np.int64 and not lon360) else ())
            for opener in openers:
                ds = ugrid_dataset(mesh, fill, start, dtype, lon360) if ":" not in opener else ugrid_dataset_with_edges(mesh)
                raw = {n: ds[n].values for n in ds.variables}      # the caller may hold the arrays too
                before = snap(ds)
                raw_before = snap(raw)
                cases += 1
                distinct.add((mesh["name"], opener, vtag))
                g = None
                try:
                    g = ux.Grid.from_dataset(ds) if opener.startswith("from_dataset") else ux.open_grid(ds)
                except Exception:
                    pass
                d = diff(before, snap(ds)) + diff(raw_before, snap(raw), "arrays")
                stage = "construction"
                if not d and g is not None:
                    derive(g)
                    try:
                        g.face_edge_connectivity, g.edge_face_connectivity
                        g.to_xarray()
                        g.attrs["added_by_user_of_grid"] = 1
                        g.node_lon.attrs["edited"] = True
                    except Exception:
                        pass
                    d = diff(before, snap(ds)) + diff(raw_before, snap(raw), "arrays")
                    stage = "after_use_of_grid"
                if d:
                    for what in sorted({_ds_part(x) for x in d}):
                        ds_found.append((what, stage, opener, vtag,
                                         {"mesh": mesh["name"], "fill_value": fill, "start_index": start, "dtype": np.dtype(dtype).name,
                                          "lon_0_360": lon360, "opener": opener}, [x for x in d if _ds_part(x) == what][:4]))
        # ---------- from_face_vertices (all faces of one size only)
        sizes = set(mg.npf(mesh["faces"]).tolist())
        if len(sizes) == 1:
            k = sizes.pop()
            fv = np.array([[[mesh["lon"][v], mesh["lat"][v]] for v in mg.face_corners(mesh, i)] for i in range(mesh["n_face"])], float)
            for kind in ("ndarray", "list"):
                arg = fv.copy() if kind == "ndarray" else fv.tolist()
                before = copy.deepcopy(arg)
                cases += 1
                distinct.add((mesh["name"], "fv", kind))
                try:
                    g = ux.Grid.from_face_vertices(arg, latlon=True)
                    derive(g)
                except Exception:
                    pass
                same = np.array_equal(arg, before) if kind == "ndarray" else (arg == before)
                if not same:
                    fail(f"input_modified:from_face_vertices:{kind}", f"Grid.from_face_vertices changed the caller's {kind}", V_INPUTS,
                         {"mesh": mesh["name"]})
        if len(samples) < 3:
            samples.append({"mesh": mesh["name"], "variants": "fill/start_index/dtype/lon-range x from_topology, from_dataset, open_grid"})

    # one failure per (array, single cause); a combination of causes is reported only if some cause is not reported on its own
    singles = {(w, why) for (w, why, *_r) in topo_found if "+" not in why}
    seen = set()
    for (w, why, vtag, mname, inputs, d) in topo_found:
        if "+" in why and all((w, c) in singles for c in why.split("+")):
            continue
        if (w, why) in seen:
            continue
        seen.add((w, why))
        fail(f"input_modified:from_topology:ndarray:{w}:{why}", f"Grid.from_topology changed the caller's {w} array ({vtag})", V_INPUTS,
             inputs, d)
    byk = {}
    for (what, stage, opener, vtag, inputs, d) in ds_found:
        byk.setdefault((what, stage), {"openers": set(), "vtags": set(), "inputs": inputs, "d": d})
        byk[(what, stage)]["openers"].add(opener)
        byk[(what, stage)]["vtags"].add(vtag)
    for (what, stage), v in sorted(byk.items()):
        if what.startswith("array_of_") and (what[len("array_of_"):] + ".values", stage) in byk:
            continue       # the same array seen through the caller's own reference
        fail(f"input_modified:ugrid_dataset:{what}:{stage}",
             f"{' / '.join(sorted(v['openers']))} on an in-memory UGRID dataset changed the caller's dataset: {what} "
             f"(variants: {sorted(v['vtags'])[:3]}; {stage})", V_INPUTS, v["inputs"], v["d"])

    # ================================================================ B. copy()
    V_COPY = "copy() returns a grid that stays unchanged when the original is later modified through the public API, and vice versa"

    def mutators():
        def m_face_centers(g):
            g.construct_face_centers("welzl")

        def m_face_centers_avg(g):
            g.construct_face_centers("cartesian average")

        def m_normalize(g):
            g.normalize_cartesian_coordinates()

        def m_chunk(g):
            g.chunk(n_node=2, n_edge=2, n_face=1)

        def m_set_node_lon(g):
            g.node_lon = xr.DataArray(g.node_lon.values + 0.25, dims=g.node_lon.dims, attrs=dict(g.node_lon.attrs))

        def m_set_fnc(g):
            v = g.face_node_connectivity.values.copy()
            v[0, :3] = v[0, [1, 2, 0]]
            g.face_node_connectivity = xr.DataArray(v, dims=g.face_node_connectivity.dims, attrs=dict(g.face_node_connectivity.attrs))

        def m_set_face_areas(g):
            g.face_areas = xr.DataArray(np.full(g.n_face, 7.0), dims=["n_face"])

        def m_lazy(g):
            derive(g)

        return [("construct_face_centers(welzl)", m_face_centers), ("construct_face_centers(cartesian average)", m_face_centers_avg),
                ("normalize_cartesian_coordinates", m_normalize), ("chunk", m_chunk), ("setter:node_lon", m_set_node_lon),
                ("setter:face_node_connectivity", m_set_fnc), ("setter:face_areas", m_set_face_areas), ("lazy_derivation", m_lazy)]

    def build(mesh, prepared):
        lon, lat = np.array(mesh["lon"], float), np.array(mesh["lat"], float)
        kw = {}
        if prepared in ("scaled_xyz", "derived"):
            x, y, z = mg.xyz_of(lon, lat)
            kw = dict(node_x=2.0 * x, node_y=2.0 * y, node_z=2.0 * z)      # not normalised: normalize_* has something to do
        g = ux.Grid.from_topology(node_lon=lon, node_lat=lat, face_node_connectivity=np.array(mesh["faces"]), fill_value=FILL, **kw)
        if prepared == "derived":
            derive(g, ["face_lon", "face_x", "edge_x", "n_nodes_per_face", "edge_node_connectivity", "face_areas"])
        return g

    # the arrays a grid was built from stay the caller's: a later public mutator of the grid (normalisation of off-unit
    # Cartesian coordinates handed to from_topology) must not write into them
    for mesh in meshes[: (40 if thorough else 4)]:
        lon0, lat0 = np.array(mesh["lon"], float), np.array(mesh["lat"], float)
        x0, y0, z0 = mg.xyz_of(lon0, lat0)
        cx, cy, cz = 2.0 * x0, 2.0 * y0, 2.0 * z0
        keep = (cx.copy(), cy.copy(), cz.copy())
        cases += 1
        distinct.add((mesh["name"], "caller_xyz_after_normalize"))
        try:
            gg = ux.Grid.from_topology(node_lon=lon0, node_lat=lat0, face_node_connectivity=np.array(mesh["faces"]), fill_value=FILL,
                                       node_x=cx, node_y=cy, node_z=cz)
            gg.normalize_cartesian_coordinates()
        except Exception:
            gg = None
        if gg is not None:
            ch = [n for n, a_, k_ in zip(("node_x", "node_y", "node_z"), (cx, cy, cz), keep) if not np.array_equal(a_, k_)]
            if ch:
                fail("caller_array_modified:normalize_cartesian_coordinates",
                     f"normalize_cartesian_coordinates() on a grid built by from_topology(node_x=...) overwrote the caller's arrays {ch}",
                     "the arrays a grid is built from are not modified by building the grid or by later operations on it",
                     {"mesh": mesh["name"], "construction": "from_topology(node_x=2x, node_y=2y, node_z=2z)", "history": ["normalize_cartesian_coordinates()"]}, ch)

    for mesh in meshes[: (40 if thorough else 4)]:
        for prepared in ("plain", "scaled_xyz", "derived"):
            for mname, mut in mutators():
                for direction in ("original_mutated", "copy_mutated"):
                    cases += 1
                    distinct.add((mesh["name"], prepared, mname, direction))
                    g = build(mesh, prepared)
                    g2 = g.copy()
                    a, b = (g, g2) if direction == "original_mutated" else (g2, g)
                    before = report(b)
                    spec_before = b.source_grid_spec
                    try:
                        mut(a)
                    except Exception:
                        continue
                    d = report_diff(before, report(b))
                    if b.source_grid_spec != spec_before:
                        d.append("source_grid_spec")
                    if d:
                        fail(f"copy_shares_state:{mname.split('(')[0].split(':')[0]}",
                             f"after g2 = g.copy(), {mname} on the {'original' if direction == 'original_mutated' else 'copy'} changed what "
                             f"the other grid reports: {d[:6]}", V_COPY,
                             {"mesh": mesh["name"], "grid_prepared": prepared, "mutator": mname, "direction": direction}, d[:8])
        # what a grid EXPORTS is part of what it reports: after g2 = g.copy(), modifying one side and exporting it (default caching)
        # must not change what the other side exports (conversion caches are per grid)
        for ename, efn, _edit, enorm in _geometry_exports():
            for exported_before_copy in (False, True):
                for direction in ("original_mutated", "copy_mutated"):
                    cases += 1
                    distinct.add((mesh["name"], "export_after_copy", ename, exported_before_copy, direction))
                    try:
                        ref = enorm(efn(build(mesh, "plain")))
                        g = build(mesh, "plain")
                        if exported_before_copy:
                            efn(g)
                        g2 = g.copy()
                        a, b = (g, g2) if direction == "original_mutated" else (g2, g)
                        a.node_lon = xr.DataArray(a.node_lon.values + 0.25, dims=a.node_lon.dims, attrs=dict(a.node_lon.attrs))
                        efn(a)
                        got = enorm(efn(b))
                    except Exception:
                        continue
                    if not _same_geo(got, ref):
                        fail(f"copy_shares_state:export_cache:{ename.split('(')[0]}",
                             f"after g2 = g.copy(), setting node_lon on the {'original' if direction == 'original_mutated' else 'copy'} and "
                             f"calling {ename} on it changed what {ename} returns for the other grid", V_COPY,
                             {"mesh": mesh["name"], "export": ename, "exported_before_copy": exported_before_copy, "direction": direction},
                             _brief(got), _brief(ref))
        # UxDataArray.copy(deep=True) relies on Grid.copy (also when replacement data are supplied: deep defaults to True)
        for how in ("deep=True", "data=...", "deep=True,data=..."):
            cases += 1
            g = build(mesh, "derived")
            da = ux.UxDataArray(np.arange(mesh["n_face"], dtype=float), dims=["n_face"], uxgrid=g, name="v")
            kw = {}
            if "deep" in how:
                kw["deep"] = True
            if "data" in how:
                kw["data"] = np.arange(mesh["n_face"], dtype=float) * 2.0
            da2 = da.copy(**kw)
            before = report(da.uxgrid)
            try:
                da2.uxgrid.construct_face_centers("welzl")
                da2.uxgrid.node_lon = xr.DataArray(da2.uxgrid.node_lon.values + 0.5, dims=["n_node"])
            except Exception:
                pass
            d = report_diff(before, report(da.uxgrid))
            if d:
                fail(f"copy_shares_state:UxDataArray.copy({how})", "mutating the grid of a deep copy of a UxDataArray changed the "
                     f"original's grid: {d[:6]}", V_COPY, {"mesh": mesh["name"], "copy": f"UxDataArray.copy({how})"}, d[:8])

    # ================================================================ C. exports
    V_EXP = "datasets and geometry objects returned by export calls can be modified by the caller without changing what the Grid reports"
    for mesh in meshes[: (40 if thorough else 4)]:
        for prepared in ("plain", "derived"):
            # ---- to_xarray (first and second call: the second takes another path through _encode_ugrid)
            for ncall in (1, 2):
                for fmt in ("ugrid", "exodus", "scrip"):
                    cases += 1
                    distinct.add((mesh["name"], prepared, "to_xarray", fmt, ncall))
                    g = build(mesh, prepared)
                    try:
                        for _ in range(ncall):
                            ds = g.to_xarray(fmt)
                    except Exception:
                        continue
                    before = report(g)
                    edits = []
                    try:
                        for n in list(ds.data_vars):
                            v = ds[n]
                            if v.dtype.kind == "f" and v.size and v.values.flags.writeable:
                                v.values[...] = v.values + 1.0
                                edits.append("values")
                                break
                        for n in list(ds.data_vars):
                            if ds[n].dtype.kind == "i" and ds[n].ndim == 2 and ds[n].values.flags.writeable:
                                ds[n].values[0, 0] = ds[n].values[0, 0] + 1
                                break
                        ds.attrs["edited_by_caller"] = 1
                        for n in list(ds.data_vars)[:3]:
                            ds[n].attrs["edited_by_caller"] = 1
                        ds["caller_variable"] = xr.DataArray(np.zeros(2), dims=["caller_dim"])
                    except Exception:
                        pass
                    d = report_diff(before, report(g))
                    if d:
                        fail(f"export_aliases_grid:to_xarray({fmt})",
                             f"editing the dataset returned by to_xarray('{fmt}') (call #{ncall}) changed what the grid reports: {d[:6]}", V_EXP,
                             {"mesh": mesh["name"], "grid_prepared": prepared, "format": fmt, "nth_call": ncall}, d[:8])
            # ---- exporting a VARIABLE on the grid (cache on / off) is itself an export whose result the caller owns: it must not
            #      change what the grid's own export returns afterwards
            for eng in ("geopandas", "spatialpandas"):
                for cache_flag in (True, False):
                    cases += 1
                    distinct.add((mesh["name"], prepared, "variable_export", eng, cache_flag))
                    g = build(mesh, prepared)
                    try:
                        ref = g.to_geodataframe(periodic_elements="ignore", engine=eng)
                        cols_before, n_before = list(ref.columns), len(ref)
                        da = ux.UxDataArray(np.arange(mesh["n_face"], dtype=float), dims=["n_face"], uxgrid=g, name="temp")
                        out = da.to_geodataframe(periodic_elements="ignore", engine=eng, cache=cache_flag)
                        out["caller_column"] = 1.0
                        again = g.to_geodataframe(periodic_elements="ignore", engine=eng)
                    except Exception:
                        continue
                    if list(again.columns) != cols_before or len(again) != n_before or list(ref.columns) != cols_before:
                        fail(f"variable_export_alters_grid_export:to_geodataframe:cache={cache_flag}",
                             f"after UxDataArray.to_geodataframe(cache={cache_flag}) and a column added to ITS result, Grid.to_geodataframe() "
                             f"returns columns {list(again.columns)} (before: {cols_before})", V_EXP,
                             {"mesh": mesh["name"], "grid_prepared": prepared, "engine": eng, "cache": cache_flag}, list(again.columns), cols_before)
            # ---- geometry exports
            for name, call, edit, norm in _geometry_exports():
                cases += 1
                distinct.add((mesh["name"], prepared, name))
                g = build(mesh, prepared)
                try:
                    obj = call(g)
                    first = norm(obj)
                except Exception:
                    continue
                before = report(g)
                try:
                    edit(obj)
                except Exception:
                    continue
                d = report_diff(before, report(g))
                try:
                    again = norm(call(g))
                except Exception as e:
                    again = ("EXC", type(e).__name__)
                if d or not _same_geo(first, again):
                    fail(f"export_aliases_grid:{name.split('(')[0]}",
                         f"editing the object returned by {name} changed what the same call returns afterwards" + (f" / the grid reports {d[:4]}" if d else ""),
                         V_EXP, {"mesh": mesh["name"], "grid_prepared": prepared, "export": name},
                         _brief(again), _brief(first))

    bound = (f"{len(meshes)} meshes (<= 40 faces) x 8 input variants (fill value, start_index, int32/int64, lon in [0,360)) x "
             "{from_topology(ndarray/list), from_dataset, open_grid, from_face_vertices(ndarray/list)}, inputs compared bitwise before/after "
             "construction and after lazy derivations; copy(): 8 mutators x 3 grid preparations x both directions; exports: to_xarray "
             "(ugrid/exodus/scrip, 1st and 2nd call), to_geodataframe (2 engines), to_polycollection, to_linecollection edited by the caller")
    return result(cases, len(distinct), failures, bound, samples)


def _why(w, fill, start, lon360):
    if w == "face_node_connectivity":
        bits = []
        if fill != FILL:
            bits.append("custom_fill_value")
        if start != 0:
            bits.append("start_index")
        return "+".join(bits) or "standard"
    return "lon_wrap" if lon360 else "standard"


def _ds_part(path):
    """coarse part of the input dataset that changed"""
    p = path.lstrip("/")
    if p.startswith("arrays"):
        p = p[len("arrays"):].lstrip("/")
        return "array_of_" + p.split(":")[0].split("/")[0]
    if p.startswith("attrs") or p.startswith(":"):
        return "global_attrs" if p.startswith("attrs") else "structure"
    var = p.split(":")[0].split("/")[0]
    if "/attrs" in p:
        return var + ".attrs"
    return var + "." + p.split(":")[-1]


def _rep_kind(x):
    if x.startswith("inventory"):
        return "inventory"
    if x.startswith("attrs"):
        return "attrs"
    if x == "source_grid_spec":
        return "source_grid_spec"
    if x.endswith(":chunking"):
        return "chunking"
    if "/attrs" in x:
        return "variable_attrs"
    return "values"


def _geometry_exports():
    from .C15 import gdf_rows, pc_rings, lc_rings

    def gdf_edit(gdf):
        gdf["caller_column"] = 1.0
        gdf.drop(index=gdf.index[0], inplace=True)

    def norm_gdf(gdf):
        return {"rows": gdf_rows(gdf), "columns": list(gdf.columns)}

    def pc_edit(pc):
        pc.set_verts([np.zeros((3, 2))])

    def lc_edit(lc):
        lc.set_segments([np.zeros((2, 2))])

    out = []
    for eng in ("spatialpandas", "geopandas"):
        out.append((f"to_geodataframe({eng})", (lambda g, e=eng: g.to_geodataframe(periodic_elements="ignore", engine=e)), gdf_edit, norm_gdf))
    out.append(("to_polycollection", lambda g: g.to_polycollection(periodic_elements="ignore"), pc_edit,
                lambda pc: {"rows": [[r] for r in pc_rings(pc)], "columns": None}))
    out.append(("to_linecollection", lambda g: g.to_linecollection(periodic_elements="ignore"), lc_edit,
                lambda lc: {"rows": [[r] for r in lc_rings(lc)], "columns": None}))
    return out


def _same_geo(a, b):
    if isinstance(a, tuple) or isinstance(b, tuple):
        return a == b
    if a["columns"] != b["columns"] or len(a["rows"]) != len(b["rows"]):
        return False
    for ra, rb in zip(a["rows"], b["rows"]):
        if len(ra) != len(rb):
            return False
        for x, y in zip(ra, rb):
            if x.shape != y.shape or not np.array_equal(x, y):
                return False
    return True


def _brief(n):
    if isinstance(n, tuple):
        return list(n)
    return {"n_items": len(n["rows"]), "columns": n["columns"]}


# ---------------------------------------------------------------------------------------------- explicit-spec route (added by main)
def explicit_spec(tier, seed):
    """Grid.from_dataset(ds, source_grid_spec=...) and Grid(ds, source_grid_spec=...) on a dataset that already follows the internal
    naming: construction and every later lazy derivation must leave the caller's dataset (variables, values, attrs) as it was."""
    import copy as _copy
    import numpy as _np
    from . import meshgen as _mg
    from .common import grid_of as _grid_of, result as _result
    failures, cases, distinct = [], 0, 0
    meshes = _mg.small_meshes()[:6] + [_mg.quad_patch(2, 1, lon0=170.0)] + (_mg.closed_meshes()[:3] if tier == "thorough" else [])
    derive = ("face_areas", "edge_node_connectivity", "face_lon", "node_x", "n_nodes_per_face", "bounds")
    for m in meshes:
        for lon360 in (False, True):
            for route in ("from_dataset", "constructor"):
                base = _grid_of(m)._ds.copy(deep=True)
                if lon360:
                    base["node_lon"].data = _np.where(base["node_lon"].values < 0, base["node_lon"].values + 360.0, base["node_lon"].values)
                base.attrs["title"] = "caller's dataset"
                snap_vals = {k: _np.array(v.values, copy=True) for k, v in base.variables.items()}
                snap_attrs = _copy.deepcopy(dict(base.attrs))
                snap_vattrs = {k: _copy.deepcopy(dict(v.attrs)) for k, v in base.variables.items()}
                import uxarray as _ux
                g = _ux.Grid.from_dataset(base, source_grid_spec="HandMade") if route == "from_dataset" else _ux.Grid(base, source_grid_spec="HandMade")
                distinct += 1
                for stage in ("construction",) + derive:
                    if stage != "construction":
                        try:
                            getattr(g, stage)
                        except Exception:
                            continue
                    cases += 1
                    what = None
                    if set(base.variables) != set(snap_vals):
                        what = ("variables", sorted(set(base.variables) ^ set(snap_vals)))
                    elif dict(base.attrs) != snap_attrs:
                        what = ("attrs", {k: base.attrs.get(k) for k in set(base.attrs) ^ set(snap_attrs)} or "changed value")
                    else:
                        for k, v in snap_vals.items():
                            if not _np.array_equal(base[k].values, v, equal_nan=True) if v.dtype.kind == "f" else not _np.array_equal(base[k].values, v):
                                what = ("values", k)
                                break
                            if dict(base[k].attrs).keys() != snap_vattrs[k].keys():
                                what = ("variable_attrs", k)
                                break
                    if what is not None:
                        # the bare constructor documents that it takes over the dataset it is given; only from_dataset is judged for
                        # variables the grid derives later - construction itself must not touch values / attrs on either route
                        if route == "constructor" and stage != "construction":
                            continue
                        failures.append({"key": f"input_modified:{route}(source_grid_spec):{what[0]}:{'construction' if stage == 'construction' else 'lazy_derivation'}"
                                                f"{':lon_0_360' if lon360 and what[0] == 'values' else ''}",
                                         "what": f"{route} with an explicit source_grid_spec changed the caller's dataset ({what[0]}: {what[1]}) at stage {stage}",
                                         "violated": "building a grid does not modify the dataset it is built from",
                                         "inputs": {"mesh": m["name"], "route": route, "lon_0_360": lon360, "stage": stage}})
                        break
    return _result(cases, distinct, failures, f"{len(meshes)} meshes x lon convention x {{from_dataset, constructor}} with explicit source_grid_spec; "
                   f"dataset snapshot compared after construction and after each of {len(derive)} lazy derivations")
