"""C13 bounded stand-in: Grid.bounds encloses every face (dense independent sampling of the great-circle boundary) and is tight.

Oracle (numpy only, independent of uxarray's helpers): every edge is sampled with 200 points by spherical linear
interpolation, plus the analytic highest / lowest point of the edge's great circle when it falls inside the arc
(p = +-(z - (z.n) n)/|.|, n = a x b).  Longitude is monotonic along a great-circle arc that does not pass over a pole, so the
shortest covering longitude interval is the complement of the largest gap between the sampled longitudes.

JIT must be ON: Grid.bounds does not run with NUMBA_DISABLE_JIT=1 (arcs._point_within_gca_body only works compiled).
"""
import os

os.environ["NUMBA_DISABLE_JIT"] = "0"

import math
import random

import numpy as np

from . import meshgen as mg
from .common import FILL, grid_from, grid_of, result

TWO_PI = 2.0 * math.pi
N_SAMPLE = 200
TOL = 1e-9
TIGHT = 1e-4


# ------------------------------------------------------------------------------------------------ geometry (oracle side)
def _xyz(lon_deg, lat_deg):
    lo, la = np.deg2rad(np.asarray(lon_deg, float)), np.deg2rad(np.asarray(lat_deg, float))
    return np.stack([np.cos(lo) * np.cos(la), np.sin(lo) * np.cos(la), np.sin(la)], axis=-1)


def _arc_samples(a, b, n=N_SAMPLE):
    """n points on the minor great-circle arc a->b (end points included), by slerp"""
    th = math.atan2(np.linalg.norm(np.cross(a, b)), float(a @ b))
    t = np.linspace(0.0, 1.0, n)
    if th < 1e-14:
        return np.repeat(a[None, :], n, axis=0)
    s = math.sin(th)
    P = (np.sin((1 - t) * th) / s)[:, None] * a[None, :] + (np.sin(t * th) / s)[:, None] * b[None, :]
    P[0], P[-1] = a, b
    return P / np.linalg.norm(P, axis=1)[:, None]


def _arc_extremes(a, b):
    """highest and lowest point of the great circle through a, b if strictly inside the arc"""
    n = np.cross(a, b)
    nn = np.linalg.norm(n)
    out = []
    if nn < 1e-14:
        return out
    n = n / nn
    z = np.array([0.0, 0.0, 1.0])
    p = z - (z @ n) * n
    pn = np.linalg.norm(p)
    if pn < 1e-12:            # great circle is the equator
        return out
    p = p / pn
    for q in (p, -p):
        # q on the great circle; inside the arc iff it is on the b-side of a and on the a-side of b
        if np.cross(a, q) @ n > 0 and np.cross(q, b) @ n > 0:
            out.append(q)
    return out


def _face_oracle(lon_deg, lat_deg):
    """returns dict: samples (lat, lon rad, arrays), corner lats, pole flags, expected longitude interval ..."""
    lon_deg = np.asarray(lon_deg, float)
    lat_deg = np.asarray(lat_deg, float)
    n = len(lon_deg)
    P = _xyz(lon_deg, lat_deg)
    pole_corner = [i for i in range(n) if abs(lat_deg[i]) == 90.0]
    for i in pole_corner:
        P[i] = [0.0, 0.0, math.copysign(1.0, lat_deg[i])]
    pts, is_corner = [], []
    for i in range(n):
        a, b = P[i], P[(i + 1) % n]
        S = _arc_samples(a, b)
        pts.append(S)
        fl = np.zeros(len(S), bool)
        fl[0] = fl[-1] = True
        is_corner.append(fl)
        ex = _arc_extremes(a, b)
        if ex:
            pts.append(np.array(ex))
            is_corner.append(np.zeros(len(ex), bool))
    pts = np.concatenate(pts)
    is_corner = np.concatenate(is_corner)
    lat = np.arcsin(np.clip(pts[:, 2], -1.0, 1.0))
    lon = np.mod(np.arctan2(pts[:, 1], pts[:, 0]), TWO_PI)
    has_lon = np.hypot(pts[:, 0], pts[:, 1]) > 1e-7          # longitude undefined at a pole
    # corners: use the GIVEN lat (exact) for the corner samples
    # orientation and pole enclosure (convex polygon: pole inside iff on the inner side of every edge)
    nrm = np.array([np.cross(P[i], P[(i + 1) % n]) for i in range(n)])
    nlen = np.linalg.norm(nrm, axis=1)
    ctr = P.mean(axis=0)
    sgn = 1.0 if (nrm @ ctr).sum() > 0 else -1.0
    side_n = sgn * nrm[:, 2] / nlen            # signed distance-like of the north pole to each edge's great circle
    enclosed_n = bool(np.all(side_n > 1e-6))
    enclosed_s = bool(np.all(-side_n > 1e-6))
    # ambiguous: a pole within 1e-6 of an edge's great circle while on the inner side of all others (and not a corner)
    amb = False
    for s in (side_n, -side_n):
        if np.all(s > -1e-6) and not np.all(s > 1e-6):
            amb = True
    if pole_corner:
        amb = False
        enclosed_n = enclosed_s = False
    # shortest covering longitude interval of the boundary points that have a longitude
    L = np.sort(lon[has_lon])
    gaps = np.diff(np.concatenate([L, [L[0] + TWO_PI]]))
    k = int(np.argmax(gaps))
    lon_lo = L[(k + 1) % len(L)]
    lon_hi = L[k]
    width = TWO_PI - gaps[k]
    return {"lat": lat, "lon": lon, "has_lon": has_lon, "is_corner": is_corner, "enclosed_n": enclosed_n,
            "enclosed_s": enclosed_s, "ambiguous": amb, "pole_corner": pole_corner, "lon_lo": lon_lo, "lon_hi": lon_hi,
            "width": width, "second_gap": float(np.sort(gaps)[-2]) if len(gaps) > 1 else 0.0, "max_gap": float(gaps[k]),
            "convex": _convex(P, sgn), "corner_lon": np.mod(np.deg2rad(lon_deg), TWO_PI), "corner_lat": np.deg2rad(lat_deg)}


def _convex(P, sgn):
    n = len(P)
    for i in range(n):
        a, b, c = P[i], P[(i + 1) % n], P[(i + 2) % n]
        if sgn * (np.cross(a, b) @ c) < -1e-12:
            return False
    return True


def _in_lon(lon, lo, hi, tol=TOL):
    """lon (array, rad, any representation) inside the eastward interval [lo, hi] (wrapping if lo > hi)"""
    lon = np.mod(lon, TWO_PI)
    lo_m, hi_m = lo, hi
    if lo_m <= hi_m:
        ok = (lon >= lo_m - tol) & (lon <= hi_m + tol)
        # 0 and 2 pi are the same meridian
        ok |= (lon + TWO_PI >= lo_m - tol) & (lon + TWO_PI <= hi_m + tol)
        ok |= (lon - TWO_PI >= lo_m - tol) & (lon - TWO_PI <= hi_m + tol)
        return ok
    return (lon >= lo_m - tol) | (lon <= hi_m + tol)


def _circ_close(a, b, tol):
    d = abs((a - b + math.pi) % TWO_PI - math.pi)
    return d <= tol


# ------------------------------------------------------------------------------------------------ face generators
def _hull(points):
    pts = sorted(set(points))
    if len(pts) < 3:
        return pts

    def cross(o, a, b):
        return (a[0] - o[0]) * (b[1] - o[1]) - (a[1] - o[1]) * (b[0] - o[0])
    lower, upper = [], []
    for p in pts:
        while len(lower) >= 2 and cross(lower[-2], lower[-1], p) <= 1e-9:
            lower.pop()
        lower.append(p)
    for p in reversed(pts):
        while len(upper) >= 2 and cross(upper[-2], upper[-1], p) <= 1e-9:
            upper.pop()
        upper.append(p)
    return lower[:-1] + upper[:-1]          # counter-clockwise


def _gnomonic_face(rng, clon, clat, size_deg, n_target):
    """convex polygon: hull of random points in the tangent plane at (clon, clat) (gnomonic keeps great circles straight)"""
    r = math.tan(math.radians(size_deg))
    for _ in range(50):
        k = n_target
        ang0 = rng.uniform(0, TWO_PI)
        raw = []
        for j in range(k):
            a = ang0 + TWO_PI * (j + rng.uniform(-0.3, 0.3)) / k
            rr = r * rng.uniform(0.75, 1.0)
            raw.append((rr * math.cos(a), rr * math.sin(a) * rng.choice([1.0, 1.0, 0.6])))
        h = _hull(raw)
        if len(h) == n_target:
            break
    else:
        return None
    c = _xyz(clon, clat)
    east = np.array([-math.sin(math.radians(clon)), math.cos(math.radians(clon)), 0.0])
    north = np.cross(c, east)
    V = np.array([c + u * east + v * north for (u, v) in h])
    V /= np.linalg.norm(V, axis=1)[:, None]
    lon = np.degrees(np.arctan2(V[:, 1], V[:, 0]))
    lat = np.degrees(np.arcsin(np.clip(V[:, 2], -1, 1)))
    return list(lon), list(lat)


FIXED_FACES = [
    # lowest corner starts a poleward-bulging edge whose other end is higher (corner latitudes 50/55/70/70)
    ("bulge_unequal_ends", [0.0, 40.0, 40.0, 0.0], [50.0, 55.0, 70.0, 70.0]),
    ("bulge_unequal_ends", [100.0, 60.0, 60.0, 100.0], [-50.0, -55.0, -70.0, -70.0]),
    # small faces around / next to the point lon 0, lat 0
    ("equator", [-5.0, 5.0, 5.0, -5.0], [-5.0, -5.0, 5.0, 5.0]),
    ("equator", [10.0, 20.0, 20.0, 10.0], [-5.0, -5.0, 5.0, 5.0]),
    ("prime_meridian", [-5.0, 5.0, 5.0, -5.0], [5.0, 5.0, 15.0, 15.0]),
    # corner at a pole, the pole node stored with longitude 0 far away from the face's longitudes
    ("pole_corner", [174.0, 0.0, -53.0, -86.0, -119.0, -152.0], [-62.5, -90.0, -62.5, -62.5, -62.5, -62.5]),
    ("pole_corner", [127.0, -173.0, 0.0], [45.0, 45.0, 90.0]),
    # corner at a pole with the other corners at clearly DIFFERENT latitudes (which of them precedes the pole matters)
    # the pole node stored with a longitude far outside the face's own range (the pole has no longitude of its own)
    ("pole_corner", [20.0, 70.0, 170.0], [60.0, 62.0, 90.0]),
    ("pole_corner", [-160.0, -110.0, -60.0, 65.0], [-60.0, -55.0, -62.0, -90.0]),
    ("pole_corner", [10.0, 40.0, 0.0], [-80.0, -65.0, -90.0]),
    ("pole_corner", [10.0, 40.0, 0.0], [80.0, 65.0, 90.0]),
    ("pole_corner", [-120.0, -95.0, -70.0, 0.0], [-75.0, -60.0, -70.0, -90.0]),
    ("pole_corner", [-120.0, -95.0, -70.0, 0.0], [75.0, 60.0, 70.0, 90.0]),
    ("pole_corner", [100.0, 150.0, 125.0], [60.0, 60.0, 90.0]),
    # pole strictly inside
    ("pole_enclosed", [0.0, 90.0, 180.0, -90.0], [70.0, 75.0, 80.0, 75.0]),
    ("pole_enclosed", [0.0, -120.0, 120.0], [-60.0, -70.0, -65.0]),
    ("pole_enclosed", [10.0, 100.0, -170.0, -80.0], [70.0, 75.0, 80.0, 75.0]),
    ("pole_enclosed", [20.0, -100.0, 140.0], [-60.0, -70.0, -65.0]),
]


def _scenario_faces(rng, n_per):
    """yields (scenario, lon list, lat list)"""
    out = [(a, list(b), list(c)) for (a, b, c) in FIXED_FACES]
    for _ in range(n_per):
        n = rng.randint(3, 8)
        south = rng.random() < 0.5
        sg = -1.0 if south else 1.0
        # 1 generic mid-latitude face
        f = _gnomonic_face(rng, rng.uniform(-170, 170), rng.uniform(-55, 55), rng.uniform(3, 25), n)
        if f:
            out.append(("generic", f[0], f[1]))
        # 2 bulging edge with end points at DIFFERENT latitudes: wide quad/polygon at high latitude
        lon0 = rng.uniform(-180, 180)
        w = rng.uniform(30, 110)
        la, lb = rng.uniform(35, 60), rng.uniform(35, 60)
        if abs(la - lb) < 1.0:
            lb = la + 3.0
        top = max(la, lb) + rng.uniform(8, 20)
        lo = [lon0, lon0 + w, lon0 + w, lon0]
        lt = [sg * la, sg * lb, sg * top, sg * top]
        if south:
            lo, lt = lo[::-1], lt[::-1]
        out.append(("bulge_unequal_ends", lo, lt))
        # 2b triangle whose lowest corner starts a poleward-bulging edge
        w = rng.uniform(40, 100)
        la = rng.uniform(30, 60)
        lb = la + rng.uniform(2, 8)
        lo = [lon0, lon0 + w, lon0 + w / 2 + rng.uniform(-5, 5)]
        lt = [sg * la, sg * lb, sg * min(88.0, lb + rng.uniform(10, 25))]
        if south:
            lo, lt = lo[::-1], lt[::-1]
        out.append(("bulge_triangle", lo, lt))
        # 3 antimeridian / prime meridian crossing
        f = _gnomonic_face(rng, 180.0 + rng.uniform(-4, 4), rng.uniform(-60, 60), rng.uniform(6, 25), n)
        if f:
            out.append(("antimeridian", f[0], f[1]))
        f = _gnomonic_face(rng, rng.uniform(-4, 4), rng.uniform(-60, 60), rng.uniform(6, 25), n)
        if f:
            out.append(("prime_meridian", f[0], f[1]))
        # 4 equator straddling
        f = _gnomonic_face(rng, rng.uniform(-170, 170), rng.uniform(-3, 3), rng.uniform(6, 30), n)
        if f:
            out.append(("equator", f[0], f[1]))
        # 5 corner at a pole: fan of corners at lower latitude spanning < 150 deg of longitude
        m = rng.randint(2, 6)
        span = rng.uniform(20, 140)
        lon0 = rng.uniform(-180, 180)
        base = rng.uniform(55, 85)
        lons = [lon0 + span * j / (m - 1) for j in range(m)]
        # lower corners on one great circle-ish band: keep convex by putting them on a small circle around the pole
        lo = lons + [rng.choice([0.0, lon0, rng.uniform(-180, 180)])]
        lt = [sg * base] * m + [sg * 90.0]
        if south:
            lo, lt = lo[::-1], lt[::-1]
        out.append(("pole_corner", lo, lt))
        # 5b the same fan with the lower corners at different latitudes (non-convex ones are filtered out later)
        lt2 = [sg * min(88.0, max(40.0, base + rng.uniform(-12, 12))) for _ in range(m)] + [sg * 90.0]
        lo2 = lons + [lo[-1] if not south else lo[0]]
        if south:
            lo2, lt2 = lo2[::-1], lt2[::-1]
        out.append(("pole_corner", lo2, lt2))
        # 6 pole enclosed: polygon around a centre close to the pole
        f = _gnomonic_face(rng, rng.uniform(-180, 180), sg * rng.uniform(80, 90), rng.uniform(12, 35), n)
        if f:
            out.append(("pole_enclosed", f[0], f[1]))
        # 7 high latitude, pole outside
        f = _gnomonic_face(rng, rng.uniform(-180, 180), sg * rng.uniform(62, 78), rng.uniform(3, 10), n)
        if f:
            out.append(("high_latitude", f[0], f[1]))
    return out


def _norm_lon(lon):
    return [((x + 180.0) % 360.0) - 180.0 for x in lon]


# ------------------------------------------------------------------------------------------------ checks
def _face_class(orc):
    """classification of the INPUT face (used in the failure keys)"""
    on_lon0 = bool(np.any(np.minimum(orc["corner_lon"], TWO_PI - orc["corner_lon"]) <= 1e-9))
    if orc["enclosed_n"] or orc["enclosed_s"]:
        return "pole_enclosed_face_with_corner_on_lon0" if on_lon0 else "pole_enclosed_face"
    if orc["pole_corner"]:
        return "pole_corner_face"
    return "normal_face"


def _check_face(box, orc, desc, fails):
    """box: 2x2 array from Grid.bounds; returns number of clause evaluations.
    keys: <clause>:<face class> with face class in normal_face / pole_corner_face / pole_enclosed_face (oracle's classification)"""
    (lat_min, lat_max), (lon_min, lon_max) = box
    lat, lon = orc["lat"], orc["lon"]
    cls = _face_class(orc)
    ncase = 0
    half_pi = math.pi / 2

    def fail(clause, what, observed, expected):
        fails.append({"key": f"{clause}:{cls}", "what": what, "violated": clause, "inputs": desc,
                      "observed": observed, "expected": expected})

    box_l = [[float(lat_min), float(lat_max)], [float(lon_min), float(lon_max)]]
    if not np.all(np.isfinite(box)) or np.any(np.asarray(box) == FILL):
        fail("bounds_finite", "bounds contain fill / non-finite values", box_l, "finite radians")
        return 1
    north_ok = orc["enclosed_n"] or any(orc["corner_lat"][i] > 0 for i in orc["pole_corner"])
    south_ok = orc["enclosed_s"] or any(orc["corner_lat"][i] < 0 for i in orc["pole_corner"])
    width_rep = (lon_max - lon_min) if lon_max >= lon_min else (TWO_PI - lon_min + lon_max)
    # ---- a pole's latitude reported although that pole is neither inside nor a corner (tightness clause)
    ncase += 1
    spurious = (lat_max >= half_pi - TOL and not north_ok) or (lat_min <= -half_pi + TOL and not south_ok)
    if spurious:
        eq = "_touching_equator" if (lat.min() <= 1e-12 and lat.max() >= -1e-12) else ""
        fail("not_tight_spurious_pole_bounds" + eq, "no pole inside the face (nor that pole a corner) but the bounds report a pole's "
             "latitude" + (" and the full longitude circle" if abs(width_rep - TWO_PI) <= TOL else ""), box_l,
             {"lat": [float(lat.min()), float(lat.max())], "lon": [float(orc["lon_lo"]), float(orc["lon_hi"])]})
    enclosed = orc["enclosed_n"] or orc["enclosed_s"]
    # ---- pole enclosed => pole latitude and full circle
    if enclosed:
        ncase += 2
        missed = False
        if orc["enclosed_n"] and abs(lat_max - half_pi) > TOL:
            missed = True
            fail("pole_enclosed_lat", "north pole inside the face but lat_max is not pi/2", box_l, "lat_max = pi/2")
        if orc["enclosed_s"] and abs(lat_min + half_pi) > TOL:
            missed = True
            fail("pole_enclosed_lat", "south pole inside the face but lat_min is not -pi/2", box_l, "lat_min = -pi/2")
        if abs(width_rep - TWO_PI) > TOL:
            if not missed:
                fail("pole_enclosed_lon_full_circle", "pole inside the face but the longitude interval is not the full circle",
                     box_l, "[0, 2 pi]")
            missed = True
        if missed:
            return ncase          # everything else follows from the missed pole
    # ---- latitude enclosure (corners and every arc point)
    for which, i, bad in (("lat_min", int(np.argmin(lat)), lat.min() < lat_min - TOL),
                          ("lat_max", int(np.argmax(lat)), lat.max() > lat_max + TOL)):
        ncase += 1
        if bad:
            kind = "corner" if orc["is_corner"][i] else "arc_point"
            excess = abs(lat[i] - (lat_min if which == "lat_min" else lat_max))
            mag = "_by_less_than_2e-5_rad" if (kind == "arc_point" and excess <= 2e-5) else ""
            fail(f"{which}_excludes_{kind}{mag}", f"a boundary {kind} lies outside [{which} ...] by {excess:.3g} rad", box_l,
                 {"extreme boundary latitude": float(lat[i])})
    if not enclosed:
        # ---- longitude enclosure
        ncase += 1
        ok = _in_lon(lon[orc["has_lon"]], lon_min, lon_max)
        if not np.all(ok):
            bad = np.where(~ok)[0]
            j = np.where(orc["has_lon"])[0][bad[0]]
            kind = "corner" if orc["is_corner"][j] else "arc_point"
            fail(f"lon_interval_excludes_{kind}", f"a boundary {kind} lies outside the longitude interval", box_l,
                 {"lon": float(lon[j]), "lat": float(lat[j])})
    if spurious:
        return ncase
    # ---- tightness: each latitude bound attained by a boundary point (or a pole that is inside / a corner)
    ncase += 2
    if not (np.min(np.abs(lat - lat_min)) <= TIGHT or (south_ok and abs(lat_min + half_pi) <= TOL)):
        fail("lat_min_not_attained", "lat_min is not attained by any boundary point", box_l, float(lat.min()))
    if not (np.min(np.abs(lat - lat_max)) <= TIGHT or (north_ok and abs(lat_max - half_pi) <= TOL)):
        fail("lat_max_not_attained", "lat_max is not attained by any boundary point", box_l, float(lat.max()))
    if enclosed:
        return ncase
    ncase += 1
    exp_lo, exp_hi = orc["lon_lo"], orc["lon_hi"]
    tight = _circ_close(lon_min, exp_lo, 1e-7) and _circ_close(lon_max, exp_hi, 1e-7)
    if not tight and orc["pole_corner"] and LENIENT_POLE_LON:
        # a pole corner has no longitude of its own; ALSO accept the shortest interval that additionally covers the
        # longitude value stored for the pole node (lenient reading of "covering the boundary")
        L = np.sort(np.concatenate([lon[orc["has_lon"]], orc["corner_lon"][orc["pole_corner"]]]))
        gaps = np.diff(np.concatenate([L, [L[0] + TWO_PI]]))
        k = int(np.argmax(gaps))
        tight = _circ_close(lon_min, L[(k + 1) % len(L)], 1e-7) and _circ_close(lon_max, L[k], 1e-7)
    if not tight:
        fail("lon_interval_not_shortest", "longitude interval is not the shortest one covering the boundary"
             + (" (with or without the longitude stored for the pole corner)" if orc["pole_corner"] else ""), box_l,
             [float(exp_lo), float(exp_hi)])
    return ncase


LENIENT_POLE_LON = False


def _admissible(orc):
    """inside the property's quantifier: convex, no pole ambiguity, longitude extent < 180 deg unless a pole is enclosed"""
    if not orc["convex"] or orc["ambiguous"]:
        return False
    if orc["enclosed_n"] and orc["enclosed_s"]:
        return False
    if orc["enclosed_n"] or orc["enclosed_s"]:
        return True
    if orc["width"] > math.radians(170.0):
        return False
    # the covering interval must be unambiguous
    if orc["max_gap"] - orc["second_gap"] < 1e-6:
        return False
    return True


def _bounds_of(lon, lat, faces):
    g = grid_from(lon, lat, faces)
    return np.asarray(g.bounds.values, float)


def _family(name):
    if name.startswith("rand_"):
        return "mesh:" + name.split("#")[0].rsplit("_", 1)[0]
    return "mesh:" + name.split("@")[0]


def bounds(tier, seed):
    rng = random.Random(1000003 * seed + 77)
    fails, cases, keys, samples = [], 0, set(), []
    skipped = 0
    # ---------------------------------------------------------------- catalogue meshes: every face
    meshes = mg.catalogue(tier, seed)
    for m in meshes:
        fam = _family(m["name"])
        try:
            B = np.asarray(grid_of(m).bounds.values, float)
        except Exception as e:  # noqa: BLE001
            # only a failure when every face of the mesh is admissible
            allok = all(_admissible(_face_oracle(m["lon"][mg.face_corners(m, f)], m["lat"][mg.face_corners(m, f)]))
                        for f in range(m["n_face"]))
            cases += 1
            if allok:
                fails.append({"key": f"exception_{type(e).__name__}:catalogue_mesh", "what": f"Grid.bounds raised {type(e).__name__}: {e}"[:300],
                              "violated": "bounds exist for every admissible face", "inputs": {"mesh": m["name"]},
                              "observed": "exception", "expected": "bounds"})
            continue
        for f in range(m["n_face"]):
            c = mg.face_corners(m, f)
            orc = _face_oracle(m["lon"][c], m["lat"][c])
            if not _admissible(orc):
                skipped += 1
                continue
            desc = {"mesh": m["name"], "face": f, "lon_deg": [float(x) for x in m["lon"][c]],
                    "lat_deg": [float(x) for x in m["lat"][c]]}
            cases += _check_face(B[f], orc, desc, fails)
            keys.add((m["name"], f))
    # ---------------------------------------------------------------- node coordinates handed over as INTEGER arrays (whole degrees)
    im = mg.quad_patch(3, 2, lon0=-30.0, lat0=10.0, d=20.0, name="quads3x2_integer_coordinates")
    cases += 1
    try:
        import uxarray as _ux
        from .common import FILL as _FILL
        Bf = np.asarray(grid_of(im).bounds.values, float)
        gi = _ux.Grid.from_topology(node_lon=np.array(np.round(im["lon"]), dtype=np.int64), node_lat=np.array(np.round(im["lat"]), dtype=np.int64),
                                    face_node_connectivity=np.array(im["faces"]), fill_value=_FILL)
        Bi = np.asarray(gi.bounds.values, float)
        if Bi.shape != Bf.shape or not np.allclose(Bi, Bf, rtol=0, atol=1e-9):
            f = int(np.argmax(np.abs(Bi - Bf).reshape(len(Bf), -1).max(axis=1))) if Bi.shape == Bf.shape else 0
            fails.append({"key": "bounds_differ_for_integer_typed_coordinates", "what": "Grid.bounds of a grid whose node_lon / node_lat were handed over as "
                          "integer arrays (whole degrees) differs from the bounds of the same grid with float coordinates",
                          "violated": "every corner lies within the bounds / the bounds are tight", "inputs": {"mesh": im["name"], "face": f},
                          "observed": Bi[f].tolist() if Bi.shape == Bf.shape else list(Bi.shape), "expected": Bf[f].tolist()})
    except Exception as e:  # noqa: BLE001
        fails.append({"key": f"exception_{type(e).__name__}:integer_typed_coordinates", "what": f"Grid.bounds raised {type(e).__name__}: {e}"[:300] + " for integer-typed node coordinates",
                      "violated": "bounds exist for every admissible face", "inputs": {"mesh": im["name"]}, "observed": "exception", "expected": "bounds"})
    # ---------------------------------------------------------------- a "return only" bounds computation leaves Grid.bounds alone
    # (_populate_bounds(..., return_array=True) with the constant-latitude-edge reading, shown in its docstring, before Grid.bounds)
    try:
        from uxarray.grid.geometry import _populate_bounds as _pb
    except Exception:  # noqa: BLE001
        _pb = None
    if _pb is not None:
        for m in [x for x in meshes if x["n_face"] <= 12][:3]:
            cases += 1
            try:
                ref = np.asarray(grid_of(m).bounds.values, float)
                g2 = grid_of(m)
                _pb(g2, is_latlonface=True, return_array=True)
                got = np.asarray(g2.bounds.values, float)
            except Exception:  # noqa: BLE001   (signature / availability of the internal entry point is not the property's subject)
                continue
            if got.shape != ref.shape or not np.allclose(got, ref, rtol=0, atol=1e-12, equal_nan=True):
                f = int(np.argmax(np.abs(got - ref).reshape(len(ref), -1).max(axis=1))) if got.shape == ref.shape else 0
                fails.append({"key": "bounds_depend_on_history:after_return_only_latlonface_computation",
                              "what": "Grid.bounds read after _populate_bounds(grid, is_latlonface=True, return_array=True) differs from Grid.bounds of a fresh grid "
                                      "(the great-circle box was replaced by the constant-latitude-edge box)",
                              "violated": "every point of every great-circle edge lies within the bounds", "inputs": {"mesh": m["name"], "face": f},
                              "observed": got[f].tolist() if got.shape == ref.shape else list(got.shape), "expected": ref[f].tolist()})
    # ---------------------------------------------------------------- generated single faces, packed into grids of mixed size
    n_per = 6 if tier == "quick" else 1200
    faces = _scenario_faces(rng, n_per)
    # start-corner rotations and the clockwise traversal of the same polygons
    extra = []
    n_fixed = len(FIXED_FACES)
    for fi, (sc, lo, lt) in enumerate(faces):
        if sc == "pole_corner" or fi < n_fixed:
            # faces with a corner at a pole and the hand-made faces: EVERY start corner, both orientations (which corner precedes /
            # follows the pole in the traversal decides the code path)
            for k in range(len(lo)):
                for rev in (False, True):
                    a, b = lo[k:] + lo[:k], lt[k:] + lt[:k]
                    if rev:
                        a, b = a[::-1], b[::-1]
                    if k or rev:
                        extra.append((sc, a, b))
            continue
        k = rng.randrange(len(lo))
        extra.append((sc, lo[k:] + lo[:k], lt[k:] + lt[:k]))
        if rng.random() < 0.5:
            extra.append((sc, lo[::-1], lt[::-1]))          # clockwise traversal of the same polygon
    faces = faces + extra
    adm = []
    for (sc, lo, lt) in faces:
        lo = _norm_lon(lo)
        orc = _face_oracle(lo, lt)
        if not _admissible(orc):
            skipped += 1
            continue
        if sc == "pole_enclosed" and not (orc["enclosed_n"] or orc["enclosed_s"]):
            sc = "high_latitude"
        if sc != "pole_enclosed" and (orc["enclosed_n"] or orc["enclosed_s"]):
            sc = "pole_enclosed"
        adm.append((sc, lo, lt, orc))
    group = 12
    for g0 in range(0, len(adm), group):
        chunk = adm[g0:g0 + group]
        lon_all, lat_all, fl = [], [], []
        for (sc, lo, lt, orc) in chunk:
            base = len(lon_all)
            lon_all += lo
            lat_all += lt
            fl.append(list(range(base, base + len(lo))))
        conn = mg.pad_faces(fl)
        try:
            B = _bounds_of(lon_all, lat_all, conn)
            per_face = [B[i] for i in range(len(chunk))]
        except Exception:  # noqa: BLE001
            per_face = []
            for (sc, lo, lt, orc) in chunk:
                try:
                    per_face.append(_bounds_of(lo, lt, mg.pad_faces([list(range(len(lo)))]))[0])
                except Exception as e:  # noqa: BLE001
                    per_face.append(e)
        for (sc, lo, lt, orc), box in zip(chunk, per_face):
            desc = {"single_face_lon_deg": [round(float(x), 9) for x in lo], "lat_deg": [round(float(x), 9) for x in lt],
                    "scenario": sc}
            keys.add((sc, tuple(round(x, 6) for x in lo), tuple(round(x, 6) for x in lt)))
            if isinstance(box, Exception):
                cases += 1
                fails.append({"key": f"exception_{type(box).__name__}:gen:{sc}", "what": f"Grid.bounds raised {type(box).__name__}: {box}"[:300],
                              "violated": "bounds exist for every admissible face", "inputs": desc, "observed": "exception",
                              "expected": "bounds"})
                continue
            cases += _check_face(box, orc, desc, fails)
            if len(samples) < 3:
                samples.append(desc)
    bound = (f"every admissible face of {len(meshes)} catalogue meshes (small, renumbered, closed, seeded random) and "
             f"{len(adm)} generated convex single faces with 3..8 corners (generic, bulging edges with unequal end latitudes, "
             f"antimeridian, prime meridian, equator, corner at a pole, pole enclosed, high latitude; rotated start corner, some traversed clockwise; pole-corner and hand-made faces from every start corner in both orientations), "
             f"{N_SAMPLE} slerp samples per edge + analytic arc extremes; {skipped} faces outside the quantifier skipped; JIT on")
    return result(cases, len(keys), fails, bound, samples)
