"""C12 bounded stand-in: UxDataArray.remap.nearest_neighbor / inverse_distance_weighted against brute force.

Oracle (numpy only): element positions from the mesh (nodes as given; edge centre = normalised mid point of the end nodes of
uxarray's edge i; face centre = normalised mean of the corners), great-circle distance atan2(|a x b|, a.b), the source
element kind is the one named by the data's last dimension (n_node / n_edge / n_face) - never inferred from a length.
IDW weights are observed by remapping the one-hot fields (identity matrix with a leading dimension).
Destination points whose two nearest sources are closer than 1e-9 rad to a tie are skipped for the value clauses.
"""
import math
import random

import numpy as np

from . import meshgen as mg
from .common import FILL, grid_of, result, ux

KIND_DIM = {"nodes": "n_node", "edge centers": "n_edge", "face centers": "n_face"}
KINDS = ("nodes", "edge centers", "face centers")
TIE = 1e-9


def _xyz(lon_deg, lat_deg):
    lo, la = np.deg2rad(np.asarray(lon_deg, float)), np.deg2rad(np.asarray(lat_deg, float))
    return np.stack([np.cos(lo) * np.cos(la), np.sin(lo) * np.cos(la), np.sin(la)], axis=-1)


def _gc(A, B):
    cr = np.linalg.norm(np.cross(A[:, None, :], B[None, :, :]), axis=-1)
    dt = (A[:, None, :] * B[None, :, :]).sum(-1)
    return np.arctan2(cr, dt)


def _positions(mesh):
    ref = grid_of(mesh)
    P = _xyz(mesh["lon"], mesh["lat"])
    en = np.asarray(ref.edge_node_connectivity.values)
    E = P[en].mean(axis=1)
    E /= np.linalg.norm(E, axis=1)[:, None]
    F = np.array([P[mg.face_corners(mesh, f)].mean(axis=0) for f in range(mesh["n_face"])])
    F /= np.linalg.norm(F, axis=1)[:, None]
    return {"nodes": P, "edge centers": E, "face centers": F}


def _tetrahedron():
    v = np.array([(1, 1, 1), (1, -1, -1), (-1, 1, -1), (-1, -1, 1)], float)
    lon, lat = mg.lonlat_of(v[:, 0], v[:, 1], v[:, 2])
    m = mg._ccw(mg.mk("tetrahedron", lon, lat, [[0, 1, 2], [0, 3, 1], [0, 2, 3], [1, 3, 2]], closed=True))
    return mg.rotate_mesh(m, (0.3, 0.2, 0.9), 23.0, "tetrahedron")          # 4 nodes, 6 edges, 4 faces


def _scenario(kind, counts):
    """which other element kinds have the same count as the data's kind"""
    same = [k for k in KINDS if k != kind and counts[k] == counts[kind]]
    if not same:
        return KIND_DIM[kind] + "_data"
    return KIND_DIM[kind] + "_data_count_equals_" + "_and_".join(KIND_DIM[k] for k in same)


class _Ctx:
    def __init__(self):
        self.fails, self.cases = [], 0

    VALUE_CLAUSES = ("nn_value_of_nearest_source_element_of_the_data_kind", "identity_on_own_elements",
                     "idw_between_min_and_max_of_k_nearest", "idw_weights_on_k_nearest_of_the_data_kind",
                     "idw_weights_non_increasing_with_distance", "idw_constant_reproduced", "idw_convex_combination")

    def fail(self, clause, method, scen, coord, what, inputs, observed=None, expected=None):
        """key = clause : method : scenario.  Scenario = kind of the data (+ which other element counts coincide with it);
        a destination with a single point and an admissible k above n_node are scenarios of their own.  When element counts
        coincide, every value clause is an instance of 'the source elements are those of the kind the data live on'."""
        if clause.startswith("exception_") and scen.endswith("_k_above_n_node"):
            scen = "admissible_k_above_n_node"
        elif clause.startswith("exception_") and "_single_destination_point" in scen:
            scen = "single_destination_point"
        else:
            scen = scen.replace("_single_destination_point", "")
            if "_count_equals_" in scen and clause in self.VALUE_CLAUSES:
                what = f"[{clause}] " + what
                clause = "source_elements_of_the_kind_the_data_live_on"
        self.fails.append({"key": f"{clause}:{method}:{scen}", "what": what, "violated": clause, "inputs": inputs,
                           "observed": observed, "expected": expected})


def _mk_data(rng, lead, n):
    shape = tuple(lead) + (n,)
    return np.array([rng.uniform(-10, 10) for _ in range(int(np.prod(shape)))]).reshape(shape)


def _lead_dims(lead):
    return ["time", "lev"][:len(lead)]


def _check_pair(ctx, src, dst, spos, dpos, rng, tier, same_mesh):
    counts = {k: len(spos[k]) for k in KINDS}
    for kind in KINDS:
        n_src = counts[kind]
        scen0 = _scenario(kind, counts)
        S = spos[kind]
        for remap_to in KINDS:
            Dp = dpos[remap_to]
            n_dst = len(Dp)
            scen = scen0 + ("_single_destination_point" if n_dst == 1 else "")
            G = _gc(Dp, S)                                   # (n_dst, n_src)
            order = np.argsort(G, axis=1, kind="stable")
            srt = np.take_along_axis(G, order, axis=1)
            clear = np.ones(n_dst, bool) if n_src == 1 else (srt[:, 1] - srt[:, 0] > TIE)
            for coord in ("spherical", "cartesian"):
                for lead in ((), (2,), (2, 3)) if tier == "thorough" or remap_to == "nodes" else ((), (2,)):
                    data = _mk_data(rng, lead, n_src)
                    dims = _lead_dims(lead) + [KIND_DIM[kind]]
                    inputs = {"source": src["name"], "destination": dst["name"], "data_dims": dims, "remap_to": remap_to,
                              "coord_type": coord, "source_counts": [counts[k] for k in KINDS]}
                    gs = grid_of(src)
                    # a mesh remapped onto itself: the destination is the very grid object the data live on (the common call
                    # uxda.remap.*(uxda.uxgrid, remap_to=...)); for the longer leading shapes an equal but separate grid
                    gd = gs if (same_mesh and len(lead) < 2) else grid_of(dst)
                    if gd is gs:
                        inputs["destination"] = "the source grid object itself"
                    da = ux.UxDataArray(data.copy(), dims=dims, uxgrid=gs, name="v")
                    # ------------------------------------------------ nearest neighbour
                    ctx.cases += 1
                    try:
                        r = da.remap.nearest_neighbor(gd, remap_to=remap_to, coord_type=coord)
                    except Exception as e:  # noqa: BLE001
                        ctx.fail(f"exception_{type(e).__name__}", "nearest_neighbor", scen, coord, f"raised {type(e).__name__}: {e}"[:300],
                                 inputs, "exception", "remapped data")
                        r = None
                    if r is not None:
                        exp_dims = tuple(_lead_dims(lead) + [KIND_DIM[remap_to]])
                        got = np.asarray(r.values)
                        if tuple(r.dims) != exp_dims or got.shape != tuple(lead) + (n_dst,):
                            ctx.fail("output_dims", "nearest_neighbor", scen, coord, "dims / shape of the result are not the input's with the "
                                     "element dimension replaced by the destination's", inputs, [list(r.dims), list(got.shape)],
                                     [list(exp_dims), list(lead) + [n_dst]])
                        else:
                            ctx.cases += 2
                            if r.uxgrid is not gd:
                                ctx.fail("attached_to_destination_grid", "nearest_neighbor", scen, coord, "result is not attached to the destination grid",
                                         inputs)
                            exp = data[..., order[:, 0]]
                            bad = ~np.isclose(got, exp, rtol=0, atol=1e-12) & clear
                            if bad.any():
                                j = int(np.where(bad.reshape(-1, n_dst).any(axis=0))[0][0])
                                ctx.fail("nn_value_of_nearest_source_element_of_the_data_kind", "nearest_neighbor", scen, coord,
                                         "a destination point did not receive the value of the great-circle nearest source element of the kind the "
                                         "data live on", dict(inputs, destination_index=j), got[..., j].ravel()[:4].tolist(),
                                         {"nearest_source_index": int(order[j, 0]), "value": exp[..., j].ravel()[:4].tolist()})
                            if same_mesh and remap_to == kind:
                                ctx.cases += 1
                                if got.shape != data.shape or not np.array_equal(got, data):
                                    ctx.fail("identity_on_own_elements", "nearest_neighbor", scen, coord, "remapping onto the source grid's own "
                                             "elements is not the identity", inputs, got.ravel()[:6].tolist(), data.ravel()[:6].tolist())
                    # ------------------------------------------------ inverse distance weighted
                    if n_src < 2:
                        continue
                    ks = sorted({2, min(4, n_src), n_src}) if (lead == () or tier == "thorough") else [min(3, n_src)]
                    for k in ks:
                        power = rng.choice([1, 2, 2, 3.5])
                        inp = dict(inputs, k=k, power=power)
                        ctx.cases += 1
                        try:
                            r = da.remap.inverse_distance_weighted(gd, remap_to=remap_to, coord_type=coord, power=power, k=k)
                        except Exception as e:  # noqa: BLE001
                            sc = scen + ("_k_above_n_node" if k > counts["nodes"] else "")
                            ctx.fail(f"exception_{type(e).__name__}", "inverse_distance_weighted", sc, coord, f"admissible k (2 <= k <= number of "
                                     f"source elements of the data's kind) but raised {type(e).__name__}: {e}"[:300], inp, "exception", "remapped data")
                            continue
                        exp_dims = tuple(_lead_dims(lead) + [KIND_DIM[remap_to]])
                        got = np.asarray(r.values)
                        if tuple(r.dims) != exp_dims or got.shape != tuple(lead) + (n_dst,):
                            ctx.fail("output_dims", "inverse_distance_weighted", scen, coord, "dims / shape of the result are wrong", inp,
                                     [list(r.dims), list(got.shape)], [list(exp_dims), list(lead) + [n_dst]])
                            continue
                        ctx.cases += 2
                        if r.uxgrid is not gd:
                            ctx.fail("attached_to_destination_grid", "inverse_distance_weighted", scen, coord, "result is not attached to the "
                                     "destination grid", inp)
                        # within [min, max] of the k nearest source values (ties at the k-th place: allow either)
                        kth = srt[:, k - 1]
                        allowed = G <= (kth[:, None] + TIE)                          # (n_dst, n_src)
                        lo = np.where(allowed.T, data[..., :, None], np.inf).min(axis=-2)
                        hi = np.where(allowed.T, data[..., :, None], -np.inf).max(axis=-2)
                        tol = 1e-9 * (1 + np.abs(data).max())
                        bad = (got < lo - tol) | (got > hi + tol) | ~np.isfinite(got)
                        if bad.any():
                            j = int(np.where(bad.reshape(-1, n_dst).any(axis=0))[0][0])
                            ctx.fail("idw_between_min_and_max_of_k_nearest", "inverse_distance_weighted", scen, coord, "result outside the range "
                                     "of the k nearest source values (of the kind the data live on)", dict(inp, destination_index=j),
                                     got[..., j].ravel()[:4].tolist(), [lo[..., j].ravel()[:4].tolist(), hi[..., j].ravel()[:4].tolist()])
                    if lead != ():
                        continue
                    # ---- constants reproduced + observed weights (one-hot fields)
                    k = min(3, n_src)
                    power = 2
                    inp = dict(inputs, k=k, power=power)
                    try:
                        const = ux.UxDataArray(np.full(n_src, 7.25), dims=[KIND_DIM[kind]], uxgrid=gs, name="c")
                        rc = np.asarray(const.remap.inverse_distance_weighted(gd, remap_to=remap_to, coord_type=coord, power=power, k=k).values)
                        onehot = ux.UxDataArray(np.eye(n_src), dims=["basis", KIND_DIM[kind]], uxgrid=gs, name="w")
                        W = np.asarray(onehot.remap.inverse_distance_weighted(gd, remap_to=remap_to, coord_type=coord, power=power, k=k).values)
                    except Exception:  # noqa: BLE001
                        continue            # already reported above
                    ctx.cases += 1
                    if rc.shape != (n_dst,) or not np.allclose(rc, 7.25, rtol=1e-12, atol=1e-12):
                        ctx.fail("idw_constant_reproduced", "inverse_distance_weighted", scen, coord, "a constant field is not reproduced", inp,
                                 rc.ravel()[:6].tolist(), 7.25)
                    # integer-valued variables (counts, codes, masks): the same convex combination of the values, not truncated
                    try:
                        ivals = np.array([rng.randint(-9, 9) for _ in range(n_src)], dtype=np.int64)
                        ri = np.asarray(ux.UxDataArray(ivals.copy(), dims=[KIND_DIM[kind]], uxgrid=gs, name="i").remap.inverse_distance_weighted(
                            gd, remap_to=remap_to, coord_type=coord, power=power, k=k).values, dtype=float)
                        rf = np.asarray(ux.UxDataArray(ivals.astype(float), dims=[KIND_DIM[kind]], uxgrid=gs, name="f").remap.inverse_distance_weighted(
                            gd, remap_to=remap_to, coord_type=coord, power=power, k=k).values, dtype=float)
                        rci = np.asarray(ux.UxDataArray(np.full(n_src, 7, dtype=np.int64), dims=[KIND_DIM[kind]], uxgrid=gs, name="ci").remap.inverse_distance_weighted(
                            gd, remap_to=remap_to, coord_type=coord, power=power, k=k).values, dtype=float)
                    except Exception:  # noqa: BLE001
                        ri = None
                    if ri is not None:
                        ctx.cases += 2
                        if rci.shape != (n_dst,) or not np.allclose(rci, 7.0, rtol=1e-12, atol=1e-12):
                            ctx.fail("idw_constant_reproduced:integer_data", "inverse_distance_weighted", scen, coord, "a constant integer field is not "
                                     "reproduced", dict(inp, dtype="int64"), rci.ravel()[:6].tolist(), 7.0)
                        elif ri.shape != rf.shape or not np.allclose(ri, rf, rtol=1e-12, atol=1e-12):
                            ctx.fail("idw_integer_data_same_as_float", "inverse_distance_weighted", scen, coord, "an integer-valued variable is remapped "
                                     "to other numbers than the same values stored as float", dict(inp, dtype="int64"), ri.ravel()[:6].tolist(), rf.ravel()[:6].tolist())
                    if W.shape != (n_src, n_dst):
                        continue
                    ctx.cases += 3
                    kth = srt[:, k - 1]
                    allowed = (G <= kth[:, None] + TIE).T                        # (n_src, n_dst)
                    if np.any(W < -1e-12) or not np.allclose(W.sum(axis=0), 1.0, rtol=0, atol=1e-9):
                        ctx.fail("idw_convex_combination", "inverse_distance_weighted", scen, coord, "weights are not non-negative with sum 1", inp,
                                 W.sum(axis=0)[:6].tolist(), 1.0)
                    elif np.any((np.abs(W) > 1e-15) & ~allowed) or np.any((np.abs(W) > 1e-15).sum(axis=0) != k):
                        j = int(np.where(((np.abs(W) > 1e-15) & ~allowed).any(axis=0) | ((np.abs(W) > 1e-15).sum(axis=0) != k))[0][0])
                        ctx.fail("idw_weights_on_k_nearest_of_the_data_kind", "inverse_distance_weighted", scen, coord, "weights sit on other source "
                                 "elements than the k great-circle nearest of the kind the data live on", dict(inp, destination_index=j),
                                 np.where(np.abs(W[:, j]) > 1e-15)[0].tolist(), order[j, :k].tolist())
                    else:
                        # non-increasing with distance
                        for j in range(n_dst):
                            idx = order[j, :][np.abs(W[order[j, :], j]) > 1e-15]
                            dd, ww = G[j, idx], W[idx, j]
                            viol = [(a, b) for a in range(len(idx)) for b in range(len(idx)) if dd[a] < dd[b] - TIE and ww[a] < ww[b] - 1e-12]
                            if viol:
                                ctx.fail("idw_weights_non_increasing_with_distance", "inverse_distance_weighted", scen, coord, "a nearer source "
                                         "element has a smaller weight than a farther one", dict(inp, destination_index=j), ww.tolist(), dd.tolist())
                                break


def _pairs(tier, seed):
    rng = random.Random(seed * 6151 + 9)
    sm = {m["name"]: m for m in mg.small_meshes()}
    cl = {m["name"]: m for m in mg.closed_meshes()}
    rnd = mg.random_meshes(seed * 29 + 3, 6 if tier == "quick" else 40)
    tet = _tetrahedron()
    sources = [sm["quads2x2@-20,-10"], sm["tri_pent_quad"], sm["quads3x2@165,-15"], cl["uv_sphere6x4"], tet, sm["single_tri"], sm["single_pent"]]
    sources += rnd[:2] if tier == "quick" else rnd[:20] + [cl["icosahedron"], cl["cubed_sphere2"], sm["hex_quad_tri"], sm["oct_hept"]]
    dests = [sm["mixed_quad_tri_isolated"], sm["quads2x1@30,70"], cl["octahedron"], sm["single_tri"], sm["quads3x2@165,-15"], tet] + rnd[2:]
    pairs = []
    for i, s in enumerate(sources):
        pairs.append((s, s, True))
        n_d = 2 if tier == "quick" else 5
        for d in rng.sample(dests, n_d):
            if d["name"] != s["name"]:
                pairs.append((s, d, False))
        # a rotated copy of a random mesh lands near the source with generic (tie-free) positions
        d = rnd[(i + 3) % len(rnd)]
        pairs.append((s, mg.rotate_mesh(d, (0.1 + 0.1 * i, 0.7, 0.3), 5.0 + 3 * i, d["name"] + f"_rot{i}"), False))
    if tier == "quick":
        pairs.append((sources[0], sm["single_tri"], False))
        pairs.append((tet, cl["octahedron"], False))
    return pairs


def remapping(tier, seed):
    rng = random.Random(seed * 4099 + 21)
    ctx = _Ctx()
    pairs = _pairs(tier, seed)
    keys, samples = set(), []
    cache = {}
    for (s, d, same) in pairs:
        for m in (s, d):
            if m["name"] not in cache:
                cache[m["name"]] = _positions(m)
        _check_pair(ctx, s, d, cache[s["name"]], cache[d["name"]], rng, tier, same)
        keys.add((s["name"], d["name"]))
        if len(samples) < 3:
            samples.append({"source": s["name"], "destination": d["name"]})
    bound = (f"{len(pairs)} source/destination mesh pairs (quads, mixed polygons, antimeridian patch, uv sphere with pole nodes, tetrahedron "
             f"[n_node == n_face], single triangle / pentagon [n_node == n_edge, single face], seeded random patches and rotated copies, "
             f"each source also onto itself) x data on nodes / edges / faces x 3 destinations x spherical / cartesian x 0..2 leading "
             f"dims; IDW with k in 2, 4, n and power in 1, 2, 3.5, one-hot fields to observe the weights; JIT off")
    return result(ctx.cases, len(keys) * 18, ctx.fails, bound, samples)


# ---------------------------------------------------------------------------------------------- history scenario (added by main)
def remap_history(tier, seed):
    """remap -> move the source grid's nodes through the public coordinate setters -> remap again: the second remap must use the
    grid's CURRENT coordinates (nearest source by brute-force great circle), also after trees were requested by hand in between"""
    import numpy as _np
    import xarray as _xr
    import uxarray as _ux
    from . import meshgen as _mg
    from .common import grid_of as _grid_of, result as _result
    rng = random.Random(seed * 911 + 3)
    fails, cases, distinct = [], 0, 0
    meshes = [_mg.quad_patch(3, 2), _mg.quad_patch(2, 2, lon0=165.0, lat0=-15.0), _mg.small_meshes()[6]]
    if tier == "thorough":
        meshes += _mg.random_meshes(seed + 77, 8)
    for m in meshes:
        for coord_type in ("spherical", "cartesian"):
            for method in ("nearest_neighbor", "inverse_distance_weighted"):
                for pre in ("remap_first", "tree_first"):
                    g = _grid_of(m)
                    dst = _grid_of(_mg.quad_patch(2, 1, lon0=float(_np.min(m["lon"])) + 1.3, lat0=float(_np.min(m["lat"])) + 0.7, d=3.1))
                    n = g.n_node
                    data = _np.arange(n, dtype=float) * 10.0 + 1.0
                    da = _ux.UxDataArray(data, dims=["n_node"], uxgrid=g, name="v")
                    kw = {"remap_to": "nodes", "coord_type": coord_type}
                    if method == "inverse_distance_weighted":
                        kw.update(k=2, power=2)
                    if pre == "remap_first":
                        getattr(da.remap, method)(dst, **kw)
                    else:
                        g.get_ball_tree("nodes", coordinate_system=coord_type, distance_metric="haversine" if coord_type == "spherical" else "minkowski")
                    # move the nodes: mirror the patch about its centre longitude (a permutation-free, large displacement)
                    lon = _np.array(g.node_lon.values, copy=True)
                    lat = _np.array(g.node_lat.values, copy=True)
                    c = 0.5 * (lon.min() + lon.max())
                    new_lon = 2 * c - lon
                    g.node_lon = _xr.DataArray(new_lon, dims=g.node_lon.dims, attrs=g.node_lon.attrs)
                    for nm in ("node_x", "node_y", "node_z"):
                        if nm in g._ds:
                            g._ds = g._ds.drop_vars(nm)
                    out = getattr(da.remap, method)(dst, **kw).values
                    distinct += 1
                    S = _xyz(new_lon, lat)
                    D = _xyz(dst.node_lon.values, dst.node_lat.values)
                    for j in range(D.shape[0]):
                        cases += 1
                        ang = _np.arccos(_np.clip(S @ D[j], -1, 1))
                        order = _np.argsort(ang)
                        if len(order) > 1 and abs(ang[order[0]] - ang[order[1]]) < 1e-9:
                            continue    # tie
                        if method == "nearest_neighbor":
                            ok = abs(out[j] - data[order[0]]) < 1e-9
                        else:
                            lo, hi = sorted((data[order[0]], data[order[1]]))
                            ok = lo - 1e-9 <= out[j] <= hi + 1e-9 and len(order) > 2 and abs(ang[order[1]] - ang[order[2]]) > 1e-9 or \
                                (lo - 1e-9 <= out[j] <= hi + 1e-9)
                        if not ok:
                            fails.append({"key": f"stale_source_positions_after_coordinate_setter:{method}:{coord_type}:{pre}",
                                          "what": f"{method} after the source grid's node_lon was replaced through the setter still answers from the old "
                                                  f"node positions (destination node {j}: got {out[j]!r})",
                                          "violated": "every destination gets the value of the nearest source element (current coordinates)",
                                          "inputs": {"mesh": m["name"], "coord_type": coord_type, "history": pre}})
                            break
    return _result(cases, distinct, fails, f"{len(meshes)} source meshes x spherical/cartesian x NN/IDW x (remap | tree request) before "
                   "the source nodes are moved through the node_lon setter, then a second remap compared with brute force")


# ---------------------------------------------------------------------------------------------- source-supplied face centres (added by main)
def supplied_centres(tier, seed):
    """Face-centred data on a grid whose face centres are SUPPLIED by the source as lon/lat only (and differ from the corner average):
    nearest-neighbour remapping, spherical and cartesian, takes the value of the face whose supplied centre is nearest."""
    import numpy as _np
    rng = random.Random(seed * 2221 + 3)
    fails, cases, distinct = [], 0, 0
    for (nx, ny, lon0, lat0) in ((3, 3, -20.0, -10.0), (3, 2, 165.0, 30.0)) + (((4, 3, 40.0, -60.0),) if tier == "thorough" else ()):
        m = mg.quad_patch(nx, ny, lon0=lon0, lat0=lat0, d=8.0)
        lon, lat = _np.array(m["lon"], float), _np.array(m["lat"], float)
        # centres pulled towards the first corner of each face (still inside the face)
        flon, flat = [], []
        for f in range(m["n_face"]):
            c = mg.face_corners(m, f)
            w = _np.array([0.55, 0.15, 0.15, 0.15])
            lo = lon[c]
            lo = _np.where(lo - lo[0] > 180, lo - 360, _np.where(lo - lo[0] < -180, lo + 360, lo))
            flon.append(float((w * lo).sum()))
            flat.append(float((w * lat[c]).sum()))
        flon = ((_np.array(flon) + 180.0) % 360.0) - 180.0
        flat = _np.array(flat)
        S = _xyz(flon, flat)
        dst = mg.quad_patch(nx + 1, ny + 1, lon0=lon0 + 1.7, lat0=lat0 + 1.1, d=5.5)
        Dp = _xyz(dst["lon"], dst["lat"])
        G = _gc(Dp, S)
        order = _np.argsort(G, axis=1, kind="stable")
        srt = _np.take_along_axis(G, order, axis=1)
        clear = srt[:, 1] - srt[:, 0] > 1e-6
        vals = _np.array([rng.uniform(-10, 10) for _ in range(m["n_face"])])
        for coord in ("spherical", "cartesian"):
            cases += 1
            distinct += 1
            gs = ux.Grid.from_topology(node_lon=lon.copy(), node_lat=lat.copy(), face_node_connectivity=_np.array(m["faces"]), fill_value=FILL,
                                       face_lon=flon.copy(), face_lat=flat.copy())
            da = ux.UxDataArray(vals.copy(), dims=["n_face"], uxgrid=gs, name="v")
            inputs = {"source": m["name"] + " with face_lon / face_lat supplied (pulled towards the first corner)", "destination": dst["name"],
                      "remap_to": "nodes", "coord_type": coord}
            try:
                got = _np.asarray(da.remap.nearest_neighbor(grid_of(dst), remap_to="nodes", coord_type=coord).values)
            except Exception as e:  # noqa: BLE001
                fails.append({"key": f"exception_{type(e).__name__}:nearest_neighbor:supplied_face_centres:{coord}", "what": f"raised {type(e).__name__}: {e}"[:300],
                              "violated": "remapped data", "inputs": inputs, "observed": "exception", "expected": "remapped data"})
                continue
            exp = vals[order[:, 0]]
            bad = clear & (got != exp)
            if got.shape != exp.shape or bad.any():
                j = int(_np.where(bad)[0][0]) if got.shape == exp.shape else 0
                fails.append({"key": f"nn_value_of_nearest_source_element_of_the_data_kind:nearest_neighbor:supplied_face_centres:{coord}",
                              "what": "face-centred data on a grid with source-supplied face centres: a destination node does not get the value "
                                      "of the face whose (supplied) centre is nearest",
                              "violated": "nearest-neighbour remapping takes the value of the great-circle nearest source element", "inputs": dict(inputs, destination_index=j),
                              "observed": float(got[j]) if got.shape == exp.shape else list(got.shape), "expected": float(exp[j])})
    bound = f"{distinct} remaps (2-3 quad patches incl. one across the antimeridian, face centres supplied as lon/lat and pulled towards a corner) x spherical / cartesian onto the nodes of another patch"
    return result(cases, distinct, fails, bound, [])
