"""C07 bounded stand-in: encoding a Grid (UGRID / Exodus / SCRIP) and reading the result back preserves the faces.

For catalogue meshes (mixed face sizes included) x derived quantities materialised first x output format x encode
history x API spelling, the stand-in encodes the REAL grid and evaluates

  encode          Grid.to_xarray(fmt) / Grid.encode_as(FMT) returns a dataset
  module_state    the call leaves every module-level dict of uxarray.conventions.ugrid as it was
  refs            (UGRID) every variable / coordinate / dimension named by the topology variable exists in the dataset
  reopen          ux.open_grid(encoded) returns a Grid
  faces           ... with the same faces as the mesh that was encoded: corner positions (1e-9 degree) in the same cyclic
                  order, same face order for UGRID and SCRIP, same multiset for Exodus
  to_netcdf       encoded.to_netcdf(tmpfile) works
  attr:<var>.<a>  (diagnostic refinement of to_netcdf) the attribute can be stored in a NetCDF file at all
  reopen_file / faces_file   ux.open_grid(tmpfile) gives the same faces again

The oracle is the mesh itself (meshgen arrays), never the grid under test.  'history=fresh' restores the module-level
dicts of uxarray.conventions.ugrid to their import-time content first (what a new process would see);
'history=after_bigger' then encodes a bigger grid (uv-sphere 8x6 with edges, centres, areas, bounds materialised) to UGRID
and to the format under test before the grid under test is encoded.  Failing scenarios are reduced (axes moved towards
the baseline, probe meshes) before they are keyed, as in C01.
"""
import copy
import itertools
import os
import random
import sys
import tempfile

import numpy as np

from . import meshgen as mg
from .C01 import _UxError, _compare_faces, _decoded_faces, _is_mixed, _mesh_faces_xyz, _ux
from .common import FILL, grid_of, result, ux

import uxarray.conventions.ugrid as _ugrid_mod



def _unjit():
    """With NUMBA_DISABLE_JIT=1 (the driver's default) uxarray ends up half compiled: uxarray/grid/area.py resets
    numba.config.DISABLE_JIT at import, so modules imported after it hold compiled dispatchers that call plain Python
    functions of modules imported before it, and Grid.bounds raises a numba TypingError.  Replace every dispatcher in the
    uxarray modules by its Python body: the same source text then runs interpreted everywhere."""
    if os.environ.get("NUMBA_DISABLE_JIT", "0") != "1":
        return "on"
    from numba.core.dispatcher import Dispatcher
    for name, mod in list(sys.modules.items()):
        if name.startswith("uxarray") and mod is not None:
            for k, v in list(vars(mod).items()):
                if isinstance(v, Dispatcher):
                    setattr(mod, k, v.py_func)
    return "off (dispatchers left over by uxarray/grid/area.py replaced by their Python bodies so that Grid.bounds runs)"


_JIT = _unjit()
FORMATS = ["ugrid", "exodus", "scrip"]
AXES = {"pre": ["nothing", "xyz", "centres", "areas", "edges", "bounds", "all"], "history": ["fresh", "after_bigger"],
        "api": ["to_xarray", "encode_as"],
        # where the source keeps its node positions: lon/lat only, or lon/lat plus Cartesian node_x/y/z on the unit sphere or on a
        # sphere of radius 6371.22 (MPAS / ESMF style, kilometres)
        # "constructor": the bare constructor ux.Grid(dataset) on a dataset in the internal naming (no source_grid_spec)
        # "topology_start1": Grid.from_topology handed ONE-BASED tables (start_index=1)
        "source": ["lonlat", "xyz_unit", "xyz_km", "constructor", "topology_start1"]}
_ENCODE_AS = {"ugrid": "UGRID", "exodus": "Exodus", "scrip": "SCRIP"}


# ------------------------------------------------------------------------------------------------ module state
def _module_dicts():
    return {k: v for k, v in vars(_ugrid_mod).items() if isinstance(v, dict) and not k.startswith("__")}


def _same(a, b):
    if isinstance(a, dict):
        return isinstance(b, dict) and list(a.keys()) == list(b.keys()) and all(_same(a[k], b[k]) for k in a)
    if isinstance(a, (list, tuple)):
        return isinstance(b, type(a)) and len(a) == len(b) and all(_same(x, y) for x, y in zip(a, b))
    if isinstance(a, np.ndarray) or isinstance(b, np.ndarray):
        return isinstance(a, np.ndarray) and isinstance(b, np.ndarray) and a.shape == b.shape and bool(np.array_equal(a, b))
    return type(a) is type(b) and a == b


_PRISTINE = copy.deepcopy(_module_dicts())


def _restore_pristine():
    for name, d in _module_dicts().items():
        if not _same(d, _PRISTINE[name]):
            d.clear()
            d.update(copy.deepcopy(_PRISTINE[name]))


def _diff_state(before):
    now = _module_dicts()
    out = []
    for name in before:
        if not _same(now[name], before[name]):
            added = [k for k in now[name] if k not in before[name]]
            out.append(f"{name} (+{added})" if added else name)
    return out


# ------------------------------------------------------------------------------------------------ scenario
def _materialise(grid, pre):
    if pre in ("xyz", "all"):
        grid.node_x, grid.node_y, grid.node_z
    if pre in ("centres", "all"):
        grid.face_lon, grid.face_lat
    if pre in ("areas", "all"):
        grid.face_areas
    if pre in ("edges", "all"):
        grid.edge_node_connectivity, grid.face_edge_connectivity
    if pre in ("bounds", "all"):
        grid.bounds


def _source_grid(mesh, source):
    if source == "lonlat":
        return grid_of(mesh)
    import xarray as xr
    if source == "topology_start1":
        f1 = np.array(mesh["faces"], dtype=np.int64)
        f1 = np.where(f1 == FILL, FILL, f1 + 1)
        return ux.Grid.from_topology(node_lon=np.array(mesh["lon"], float), node_lat=np.array(mesh["lat"], float), face_node_connectivity=f1,
                                     fill_value=FILL, start_index=1)
    if source == "constructor":
        import warnings
        ds0 = xr.Dataset()
        ds0["node_lon"] = xr.DataArray(np.array(mesh["lon"], float), dims=["n_node"])
        ds0["node_lat"] = xr.DataArray(np.array(mesh["lat"], float), dims=["n_node"])
        ds0["face_node_connectivity"] = xr.DataArray(np.array(mesh["faces"], dtype=np.int64), dims=["n_face", "n_max_face_nodes"],
                                                     attrs={"cf_role": "face_node_connectivity", "start_index": 0, "_FillValue": FILL})
        with warnings.catch_warnings():
            warnings.simplefilter("ignore")
            return ux.Grid(ds0)
    radius = 1.0 if source == "xyz_unit" else 6371.22
    lon, lat = np.array(mesh["lon"], float), np.array(mesh["lat"], float)
    lo, la = np.deg2rad(lon), np.deg2rad(lat)
    xyz = np.stack([np.cos(la) * np.cos(lo), np.cos(la) * np.sin(lo), np.sin(la)], axis=0) * radius
    ds = xr.Dataset()
    ds["mesh"] = xr.DataArray(-1, attrs={"cf_role": "mesh_topology", "topology_dimension": 2,
                                         "node_coordinates": "node_lon node_lat",
                                         "face_node_connectivity": "face_node_connectivity"})
    ds["node_lon"] = xr.DataArray(lon, dims=["n_node"])
    ds["node_lat"] = xr.DataArray(lat, dims=["n_node"])
    for i, name in enumerate(["node_x", "node_y", "node_z"]):
        ds[name] = xr.DataArray(xyz[i].copy(), dims=["n_node"])
    ds["face_node_connectivity"] = xr.DataArray(np.array(mesh["faces"], dtype=np.int64), dims=["n_face", "n_max_face_nodes"],
                                                attrs={"cf_role": "face_node_connectivity", "start_index": 0, "_FillValue": FILL})
    return ux.Grid.from_dataset(ds)


_BIGGER = {}


def _bigger_grid():
    if "g" not in _BIGGER:
        g = grid_of(mg.uv_sphere(8, 6))
        _materialise(g, "all")
        g.edge_lon, g.edge_lat
        _BIGGER["g"] = g
    return _BIGGER["g"]


def _encode(grid, fmt, api):
    if api == "to_xarray":
        return grid.to_xarray(fmt)
    return grid.encode_as(_ENCODE_AS[fmt])


def _faces_clause(g2, exp_faces, ordered):
    """None if g2 has exactly the expected faces, else dict(kind, observed, expected)"""
    fnc = np.asarray(_ux("Grid.face_node_connectivity", lambda: g2.face_node_connectivity.values))
    lon = np.asarray(_ux("Grid.node_lon", lambda: g2.node_lon.values), float)
    lat = np.asarray(_ux("Grid.node_lat", lambda: g2.node_lat.values), float)
    if fnc.ndim != 2:
        return {"kind": "n_face", "observed": f"table shape {fnc.shape}", "expected": f"{len(exp_faces)} rows"}
    got, bad = _decoded_faces(fnc, lon, lat)
    return bad if bad is not None else _compare_faces(got, exp_faces, ordered=ordered)


def _refs_clause(enc):
    topo = [v for v in enc.variables if enc[v].attrs.get("cf_role") == "mesh_topology"]
    if len(topo) != 1:
        return {"observed": f"{len(topo)} mesh_topology variables", "expected": "exactly one"}
    at = enc[topo[0]].attrs
    missing = []
    for k, v in at.items():
        if k.endswith("_coordinates") or k.endswith("_connectivity"):
            for name in str(v).split():
                if name not in enc.variables:
                    missing.append(f"{k} -> {name}")
        elif k.endswith("_dimension") and k != "topology_dimension":
            if str(v) not in enc.dims:
                missing.append(f"{k} -> {v}")
    if missing:
        return {"observed": f"named but absent: {missing}", "expected": "every referenced name exists in the dataset"}
    return None


_ATTR_MEMO = {}


def _attr_writable(v):
    """can a NetCDF attribute hold this value?  Decided by the real writer on a one-variable dataset (memoised per type)"""
    if isinstance(v, (str, int, float, np.integer, np.floating)) and not isinstance(v, bool):
        return True
    k = (type(v).__name__, str(getattr(v, "dtype", "")))
    if k not in _ATTR_MEMO:
        import xarray as xr
        tmpdir = tempfile.mkdtemp(prefix="c07a_")
        path = os.path.join(tmpdir, "a.nc")
        try:
            xr.Dataset({"v": ((), 0, {"a": v})}).to_netcdf(path)
            _ATTR_MEMO[k] = True
        except Exception:  # noqa: BLE001 - xarray / netCDF4 refusing the value is the answer
            _ATTR_MEMO[k] = False
        finally:
            if os.path.exists(path):
                os.remove(path)
            os.rmdir(tmpdir)
    return _ATTR_MEMO[k]


def _run(mesh, fmt, d):
    """-> None (scenario not applicable: the derived quantity itself cannot be computed) or dict clause -> None | info"""
    _restore_pristine()
    if d["history"] == "after_bigger":
        big = _bigger_grid()
        for f in dict.fromkeys(["ugrid", fmt]):
            try:
                _encode(big, f, "to_xarray")
            except Exception:  # noqa: BLE001 - the bigger grid is history only; its own round trip is checked when it is the subject
                pass
    grid = _source_grid(mesh, d.get("source", "lonlat"))
    try:
        _materialise(grid, d["pre"])
    except Exception:  # noqa: BLE001 - outside this property (C02/C04/C05/C13 cover the derived quantities themselves)
        return None
    exp_faces = _mesh_faces_xyz(mesh)
    res = {}
    before = copy.deepcopy(_module_dicts())
    try:
        enc = _ux("encode", lambda: _encode(grid, fmt, d["api"]))
    except _UxError as e:
        return {"encode": {"observed": str(e)[:300], "expected": f"a {fmt} dataset", "exc": type(e.exc).__name__}}
    res["encode"] = None
    changed = _diff_state(before)
    res["module_state"] = None if not changed else {"observed": f"changed by the encode call: {changed}",
                                                    "expected": "uxarray.conventions.ugrid module-level dicts untouched"}
    if fmt == "ugrid":
        res["refs"] = _refs_clause(enc)
    # one clause per attribute that no NetCDF file can hold (names every obstacle, to_netcdf below stops at the first)
    for var in list(enc.variables) + [None]:
        for k, v in (enc.attrs if var is None else enc[var].attrs).items():
            if not _attr_writable(v):
                res[f"attr:{var or '<global>'}.{k}"] = {"observed": f"attribute value of type {type(v).__name__}"
                                                        f"{' dtype ' + str(v.dtype) if hasattr(v, 'dtype') else ''}",
                                                        "expected": "attributes a NetCDF file can hold"}
    tmpdir = tempfile.mkdtemp(prefix="c07_")
    path = os.path.join(tmpdir, "enc.nc")
    try:
        # file first: opening the in-memory dataset must not be what makes the file round trip work (or fail)
        try:
            _ux("to_netcdf", lambda: enc.to_netcdf(path))
            res["to_netcdf"] = None
        except _UxError as e:
            res["to_netcdf"] = {"observed": str(e)[:300], "expected": "a NetCDF file", "exc": type(e.exc).__name__}
        try:
            g2 = _ux("reopen", lambda: ux.open_grid(enc))
            res["reopen"] = None
            res["faces"] = _faces_clause(g2, exp_faces, ordered=(fmt != "exodus"))
        except _UxError as e:
            res["reopen" if e.where == "reopen" else "faces"] = {"observed": str(e)[:300], "expected": "a Grid with the encoded faces",
                                                                  "exc": type(e.exc).__name__}
        if res["to_netcdf"] is None:
            try:
                g3 = _ux("reopen_file", lambda: ux.open_grid(path))
                res["reopen_file"] = None
                res["faces_file"] = _faces_clause(g3, exp_faces, ordered=(fmt != "exodus"))
                try:
                    g3._ds.close()
                except Exception:  # noqa: BLE001
                    pass
            except _UxError as e:
                res["reopen_file" if e.where == "reopen_file" else "faces_file"] = {
                    "observed": str(e)[:300], "expected": "a Grid with the encoded faces", "exc": type(e.exc).__name__}
    finally:
        if os.path.exists(path):
            os.remove(path)
        os.rmdir(tmpdir)
    return res


# ------------------------------------------------------------------------------------------------ driver
def _ckey(clause, info):
    if "exc" in info:
        return f"{clause}:{info['exc']}"
    return f"{clause}[{info['kind']}]" if "kind" in info else clause


_MEMO = {}


def _fails(mesh, fmt, d, ckey):
    """_run is deterministic for (mesh, format, scenario) because it starts from the pristine module state"""
    k = (mesh["name"], fmt, tuple(d.items()))
    if k not in _MEMO:
        res = _run(mesh, fmt, d)
        _MEMO[k] = None if res is None else {_ckey(c, v) for c, v in res.items() if v is not None}
    return _MEMO[k] is not None and ckey in _MEMO[k]


def _reduce(mesh, fmt, d, ckey, probes):
    """smallest scenario (axes moved towards the baseline, greedy) on the smallest probe mesh that still violates the clause"""
    d = dict(d)
    tag, m = next(((pn, pm) for pn, pm in probes if _fails(pm, fmt, d, ckey)), (None, mesh))
    for n in AXES:
        for simpler in AXES[n][:AXES[n].index(d[n])]:
            trial = dict(d)
            trial[n] = simpler
            if _fails(m, fmt, trial, ckey):
                d = trial
                break
    if tag is None:
        tag = next((pn for pn, pm in probes if _fails(pm, fmt, d, ckey)), "some meshes")
    else:
        tag = next(pn for pn, pm in probes if _fails(pm, fmt, d, ckey))          # an earlier (simpler) probe may do now
    delta = ",".join(f"{n}={d[n]}" for n in AXES if d[n] != AXES[n][0]) or "nothing materialised, fresh process state"
    return d, delta, tag


def _explained(mesh, d, rec):
    """an already reported reduced scenario is contained in this one and its mesh class covers this mesh"""
    for n in AXES:
        small, big = rec["dmin"][n], d[n]
        if not (small == AXES[n][0] or small == big or (n == "pre" and big == "all")):
            return False
    t = rec["tag"]
    return t.startswith("any mesh") or (t.startswith("mixed") and _is_mixed(mesh)) or (t.startswith("closed") and mesh["closed"])


_CLAUSES = {
    "encode": "encoding a grid to a supported output format yields a dataset",
    "module_state": "encoding does not alter state shared with later encodings (uxarray.conventions.ugrid module-level dicts)",
    "refs": "every variable, coordinate and dimension named by the topology metadata exists in the encoded dataset",
    "reopen": "the encoded dataset can be opened",
    "faces": "opening the encoded dataset yields the same faces (positions, cyclic order; order for UGRID/SCRIP, multiset for Exodus)",
    "to_netcdf": "the encoded dataset can be written to NetCDF",
    "attr": "the encoded dataset can be written to NetCDF (this attribute cannot be stored in a NetCDF file)",
    "reopen_file": "the written NetCDF file can be opened",
    "faces_file": "opening the written NetCDF file yields the same faces",
}


def roundtrip(tier, seed):
    rng = random.Random(seed * 15485863 + 11)
    meshes = mg.catalogue(tier, seed)
    small = {m["name"]: m for m in mg.small_meshes()}
    probes = [("any mesh (uniform 2-quad patch suffices)", small["quads2x1@-20,-10"]),
              ("mixed-size meshes (mixed_quad_tri_isolated suffices)", small["mixed_quad_tri_isolated"]),
              ("closed meshes (cube suffices)", mg.cube())]
    # a partial mesh whose node arrays start with nodes no face uses: the smallest index in the face table is 2, not 0
    base_m = small["mixed_quad_tri_isolated"]
    orphan = mg.mk("leading_unused_nodes", [-40.0, -30.0] + list(base_m["lon"]), [50.0, 50.0] + list(base_m["lat"]),
                   [[v + 2 for v in row if v != mg.FILL] for row in base_m["faces"]])
    # tall, narrow patches: more distinct latitudes than longitudes among the corners (also one across the antimeridian)
    tall = [mg.quad_patch(2, 5, lon0=-20.0, lat0=-30.0, name="tall_quads2x5"), mg.quad_patch(1, 4, lon0=175.0, lat0=-20.0, name="tall_quads1x4_antimeridian")]
    meshes = meshes + [orphan] + tall
    names = list(AXES)
    combos = [dict(zip(names, v)) for v in itertools.product(*AXES.values())]
    base = {n: AXES[n][0] for n in names}
    singles = [c for c in combos if sum(c[n] != base[n] for n in names) <= 1]
    per_mesh = 2 if tier == "quick" else 12
    full_for = {"quads2x1@-20,-10", "mixed_quad_tri_isolated", "cube"} if tier == "quick" else ({m["name"] for m in meshes[:22]} | {"leading_unused_nodes", "tall_quads2x5"})
    _MEMO.clear()
    failures, samples = [], []
    cases, skipped = 0, 0
    distinct = set()
    seen, reduced = {}, {}
    for mesh in meshes:
        if mesh["name"] in full_for:
            todo = singles + rng.sample([c for c in combos if c not in singles], 4 if tier == "quick" else len(combos) - len(singles))
        else:
            todo = [base] + rng.sample(combos[1:], per_mesh)
        for d in todo:
            for fmt in FORMATS:
                res = _run(mesh, fmt, d)
                if res is None:
                    skipped += 1
                    continue
                cases += len(res)
                distinct.add((mesh["name"], fmt, tuple(d.items())))
                if len(samples) < 3 and len(distinct) % 61 == 1:
                    samples.append({"mesh": mesh["name"], "format": fmt, **d})
                for clause, info in res.items():
                    if info is None:
                        continue
                    ck = _ckey(clause, info)
                    raw = (fmt, ck, tuple(d.items()), _is_mixed(mesh))
                    if raw in seen:
                        continue
                    seen[raw] = True
                    if any(_explained(mesh, d, r) for r in reduced.get((fmt, ck), [])):
                        continue
                    dmin, delta, tag = _reduce(mesh, fmt, d, ck, probes)
                    key = f"{fmt}:{ck}:{delta}:{tag}"
                    reduced.setdefault((fmt, ck), []).append({"dmin": dmin, "tag": tag})
                    if any(f["key"] == key for f in failures):
                        continue
                    rmesh = next((pm for pn, pm in probes if pn == tag), mesh)
                    rres = _run(rmesh, fmt, dmin) or {}
                    rinfo = next((v for c, v in rres.items() if v is not None and _ckey(c, v) == ck), info)
                    failures.append({"key": key, "what": f"{fmt} round trip, clause {ck}: violated with [{delta}] on {tag}",
                                     "violated": _CLAUSES[clause.split(":")[0]], "inputs": {"mesh": rmesh["name"], "format": fmt, **dmin},
                                     "observed": rinfo.get("observed"), "expected": rinfo.get("expected")})
    _restore_pristine()
    failures.sort(key=lambda f: f["key"])
    bound = (f"{len(meshes)} catalogue meshes (small, renumbered, closed, seeded random; up to {max(m['n_face'] for m in meshes)} faces, "
             f"3..8-gons) x formats {FORMATS} x scenarios over pre={AXES['pre']}, history={AXES['history']}, api={AXES['api']}: "
             f"all single-axis scenarios + a seeded sample on {len(full_for)} meshes, baseline + {per_mesh} sampled scenarios on the others; "
             f"{skipped} scenarios skipped because the derived quantity itself could not be computed; NUMBA JIT {_JIT}")
    return result(cases, len(distinct), failures, bound, samples)
