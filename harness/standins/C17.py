"""C17 bounded stand-in: topological aggregations reduce over exactly each element's nodes.

Oracle (independent of uxarray.core.aggregation): for every face f with corners c(f) (leading non-FILL entries of the face-node
table of the mesh) and every leading index, np.<reduction>(data[..., c(f)], axis=-1), computed face by face (no partitioning,
no padded gather).  For destination='edge' the two nodes of edge e are the row e of the grid's edge_node_connectivity (that row
is what "edge e" denotes; that the rows are exactly the face boundary segments is C02 and is re-checked here as a precondition).
Values are compared numerically (the property does not fix the result dtype): rtol=atol=1e-9 (1e-5 for float32), NaN == NaN.
Node dimension is the last dimension (the property speaks of leading indices).
"""
import random
import warnings

import numpy as np

from . import meshgen as mg
from .common import FILL, grid_of, result

import uxarray as ux

REDUCTIONS = {"mean": np.mean, "min": np.min, "max": np.max, "median": np.median, "std": np.std, "var": np.var,
              "sum": np.sum, "prod": np.prod, "all": np.all, "any": np.any}

LEAD = {1: (), 2: (3,), 3: (2, 3)}
LEAD_DIMS = {1: [], 2: ["time"], 3: ["time", "lev"]}


class _Rec:
    def __init__(self):
        self.failures = []
        self.cases = 0
        self.keys = set()

    def check(self, ok, clause, scenario, what, inputs, observed=None, expected=None):
        self.cases += 1
        if ok:
            return True
        key = f"{clause}:{scenario}"
        if key not in self.keys:
            self.keys.add(key)
            self.failures.append({"key": key, "what": what, "violated": clause, "inputs": inputs,
                                  "observed": observed, "expected": expected})
        return False


def _corners(faces):
    out = []
    for row in faces:
        c = []
        for x in row:
            if int(x) == FILL:
                break
            c.append(int(x))
        out.append(c)
    return out


def make_data(rng, kind, shape):
    """node data of the given kind; small magnitudes so that int sums/products are exact in every dtype"""
    n = int(np.prod(shape)) if shape else 1
    if kind == "float64":
        a = np.array([rng.uniform(-5.0, 5.0) for _ in range(n)], dtype=np.float64)
    elif kind == "float32":
        a = np.array([rng.uniform(-5.0, 5.0) for _ in range(n)], dtype=np.float32)
    elif kind == "float64_offset":
        # a field whose magnitude is large compared with its variation across an element (pressure in Pa, seconds since an epoch)
        a = np.array([1.0e6 + rng.uniform(-1.0, 1.0) for _ in range(n)], dtype=np.float64)
    elif kind == "float64_nan":
        a = np.array([rng.uniform(-5.0, 5.0) for _ in range(n)], dtype=np.float64)
        for _ in range(max(1, n // 9)):
            a[rng.randrange(n)] = np.nan
    elif kind == "int64":
        a = np.array([rng.randint(-3, 3) for _ in range(n)], dtype=np.int64)
    elif kind == "int32":
        a = np.array([rng.randint(-3, 3) for _ in range(n)], dtype=np.int32)
    elif kind == "int64_big":
        # integers that are not representable in float64 (above 2**53): only order statistics are meaningful/exact
        a = np.array([2 ** 53 + 1 + 2 * rng.randint(0, 1000) for _ in range(n)], dtype=np.int64)
    elif kind == "bool":
        a = np.array([rng.random() < 0.6 for _ in range(n)], dtype=bool)
    else:
        raise ValueError(kind)
    return a.reshape(shape)


def _equal(got, exp, kind):
    got = np.asarray(got)
    exp = np.asarray(exp)
    if got.shape != exp.shape:
        return False
    if kind == "int64_big":
        # exact integer comparison (python ints); a float result is compared by exact value
        return all(int(g) == int(e) for g, e in zip(got.ravel().tolist(), exp.ravel().tolist()))
    tol = 1e-5 if kind == "float32" else (1e-6 if kind == "float64_offset" else 1e-9)
    return bool(np.allclose(got.astype(np.float64), exp.astype(np.float64), rtol=tol, atol=tol, equal_nan=True))


def _first_diff(got, exp, kind):
    got = np.asarray(got)
    exp = np.asarray(exp)
    if got.shape != exp.shape:
        return {"shape_got": list(got.shape), "shape_expected": list(exp.shape)}
    for idx in np.ndindex(exp.shape):
        if not _equal(got[idx], exp[idx], kind):
            return {"index": list(idx), "got": repr(got[idx]), "expected": repr(exp[idx])}
    return None


def _size_class(corners):
    return "mixed_face_sizes" if len({len(c) for c in corners}) > 1 else "uniform_face_sizes"


def check_mesh(rec, rng, mesh, kinds, ranks, reds, counts):
    corners = _corners(mesh["faces"])
    g = grid_of(mesh)
    n_node, n_face = mesh["n_node"], mesh["n_face"]
    enc = np.asarray(g.edge_node_connectivity.values)
    edge_nodes = [(int(a), int(b)) for a, b in enc]
    # precondition for the edge destination (C02): rows are exactly the boundary segments, once each, no padding
    eset = mg.edge_set(mesh["faces"])
    edges_ok = (len(edge_nodes) == len(eset) and {tuple(sorted(p)) for p in edge_nodes} == eset and g.n_edge == len(eset))
    cls = _size_class(corners)
    for kind in kinds:
        for rank in ranks:
            shape = LEAD[rank] + (n_node,)
            data = make_data(rng, kind, shape)
            dims = LEAD_DIMS[rank] + ["n_node"]
            uxda = ux.UxDataArray(data.copy(), dims=dims, uxgrid=g, name="v")
            inp = {"mesh": mesh["name"], "face_node_connectivity": mesh["faces"].tolist() if mesh["faces"].size <= 60 else "see mesh",
                   "data_kind": kind, "dims": dims, "data": data.tolist() if data.size <= 40 else "seeded"}
            for red in reds:
                if kind == "int64_big" and red not in ("min", "max"):
                    continue
                if kind == "float64_offset" and red in ("prod", "all", "any"):
                    continue
                fn = REDUCTIONS[red]
                for dest in ("face", "edge"):
                    if dest == "edge" and not edges_ok:
                        continue
                    elems = corners if dest == "face" else edge_nodes
                    with warnings.catch_warnings():
                        warnings.simplefilter("ignore")
                        exp = np.stack([np.asarray(fn(data[..., list(c)], axis=-1)) for c in elems], axis=-1)
                    sc = f"{dest}:{red}:{kind}:{cls}"
                    if kind == "int64_big":
                        sc = f"{dest}:int64_above_2**53"       # one finding: the value is stored in a float64 array
                    counts.add((mesh["name"], kind, rank))
                    try:
                        with warnings.catch_warnings():
                            warnings.simplefilter("ignore")
                            out = getattr(uxda, "topological_" + red)(destination=dest)
                    except Exception as e:
                        rec.check(False, f"topological_{red} raises {type(e).__name__}", f"{dest}:{kind}:rank{rank}",
                                  f"{type(e).__name__}: {e}"[:200], inp)
                        continue
                    got = np.asarray(out.values)
                    ok = _equal(got, exp, kind)
                    rec.check(ok, "result == numpy reduction over exactly the element's nodes", sc,
                              f"topological_{red}(destination='{dest}') differs from np.{red} over the element's nodes", inp,
                              None if ok else _first_diff(got, exp, kind), "np.%s(data[..., nodes_of_element], axis=-1)" % red)
                    exp_dims = tuple(LEAD_DIMS[rank]) + ("n_" + dest,)
                    rec.check(tuple(out.dims) == exp_dims and got.shape == exp.shape, "result dims == leading dims + destination dim",
                              f"{dest}:rank{rank}", "dims/shape of the result", inp, [list(out.dims), list(got.shape)],
                              [list(exp_dims), list(exp.shape)])
                    rec.check(isinstance(out, ux.UxDataArray) and out.uxgrid is g, "result is a UxDataArray on the same grid", dest,
                              "result.uxgrid is not the source grid", inp, type(out).__name__)
            # the source must not have been changed
            rec.check(np.array_equal(np.asarray(uxda.values), data, equal_nan=(data.dtype.kind == "f")),
                      "source data unchanged", kind, "aggregation modified its input", inp)


def check_subset_history(rec, rng, mesh):
    """aggregate on a grid, then take a subset of it (or of the variable) and aggregate on the subset: every face / edge of the
    SUBSET is reduced over exactly its own nodes (nothing computed for the source grid is reused)"""
    nf, nn = mesh["n_face"], mesh["n_node"]
    if nf < 3:
        return
    g = grid_of(mesh)
    data = make_data(rng, "float64", (2, nn))
    uxda = ux.UxDataArray(data.copy(), dims=["time", "n_node"], uxgrid=g, name="v")
    with warnings.catch_warnings():
        warnings.simplefilter("ignore")
        try:
            uxda.topological_mean(destination="face")
            uxda.topological_max(destination="edge")
        except Exception:  # noqa: BLE001   (the main pass reports this)
            return
    keep = sorted(rng.sample(range(nf), max(1, nf // 2)))
    rng.shuffle(keep)
    for route in ("UxDataArray.isel(n_face)", "Grid.isel(n_face)"):
        inp = {"mesh": mesh["name"], "history": ["topological_mean('face') and topological_max('edge') on the full grid", route, "aggregation on the subset"],
               "faces_kept": keep[:12]}
        try:
            if route.startswith("UxDataArray"):
                sub = uxda.isel(n_face=keep)
                sg, sdata = sub.uxgrid, np.asarray(sub.values)
                sda = sub
            else:
                sg = g.isel(n_face=keep)
                sdata = data[..., np.asarray(sg._ds["subgrid_node_indices"].values)]
                sda = ux.UxDataArray(sdata.copy(), dims=["time", "n_node"], uxgrid=sg, name="v")
            sfaces = np.asarray(sg.face_node_connectivity.values)
            senc = [(int(a), int(b)) for a, b in np.asarray(sg.edge_node_connectivity.values)]
        except Exception as e:  # noqa: BLE001
            continue           # subsetting itself is C09's business
        if sdata.shape[-1] != sg.n_node:
            continue
        for red, dest, elems in (("mean", "face", _corners(sfaces)), ("sum", "face", _corners(sfaces)), ("min", "edge", senc)):
            fn = REDUCTIONS[red]
            exp = np.stack([np.asarray(fn(sdata[..., list(c)], axis=-1)) for c in elems], axis=-1)
            try:
                with warnings.catch_warnings():
                    warnings.simplefilter("ignore")
                    out = getattr(sda, "topological_" + red)(destination=dest)
            except Exception as e:  # noqa: BLE001
                rec.check(False, f"topological_{red} raises {type(e).__name__}", f"{dest}:subset_after_aggregation_on_source",
                          f"{type(e).__name__}: {e}"[:200], inp)
                continue
            got = np.asarray(out.values)
            ok = got.shape == exp.shape and _equal(got, exp, "float64")
            rec.check(ok, "result == numpy reduction over exactly the element's nodes", f"{dest}:{red}:subset_after_aggregation_on_source",
                      f"topological_{red}(destination='{dest}') on a subset taken after aggregating on the source grid differs from np.{red} "
                      f"over the subset's own element nodes", inp, None if ok else (list(got.shape) if got.shape != exp.shape else _first_diff(got, exp, "float64")),
                      "np.%s(data[..., nodes_of_element], axis=-1)" % red)


def check_unsupported(rec, mesh):
    g = grid_of(mesh)
    n_face, n_node, n_edge = g.n_face, g.n_node, g.n_edge
    inp = {"mesh": mesh["name"]}
    face_da = ux.UxDataArray(np.arange(n_face, dtype=float), dims=["n_face"], uxgrid=g, name="v")
    edge_da = ux.UxDataArray(np.arange(n_edge, dtype=float), dims=["n_edge"], uxgrid=g, name="v")
    node_da = ux.UxDataArray(np.arange(n_node, dtype=float), dims=["n_node"], uxgrid=g, name="v")
    combos = [("face_source", face_da, d) for d in ("node", "edge", "face")]
    combos += [("edge_source", edge_da, d) for d in ("node", "face", "edge")]
    combos += [("node_source", node_da, d) for d in ("node", "nodes", None)]
    for red in REDUCTIONS:
        for tag, da_, dest in combos:
            raised = False
            val = None
            try:
                val = getattr(da_, "topological_" + red)(destination=dest)
            except Exception:
                raised = True
            rec.check(raised, "unsupported source/destination raises", f"{tag}->{dest}:{red}",
                      "returned a value instead of raising", inp, None if raised else repr(np.asarray(val.values))[:120])


def aggregations(tier, seed):
    rng = random.Random(seed * 1000003 + 41)
    rec = _Rec()
    counts = set()
    cat = mg.catalogue(tier, seed)
    reds = list(REDUCTIONS)
    kinds_all = ["float64", "int64", "bool", "float32", "int32", "float64_nan", "int64_big", "float64_offset"]
    for i, m in enumerate(cat):
        if tier == "thorough":
            ranks = [1, 2, 3]
            kinds = kinds_all
        else:
            ranks = [1 + (i % 3)]
            kinds = ["float64", "int64", "bool"] + [kinds_all[3 + (i % 5)]]
        check_mesh(rec, rng, m, kinds, ranks, reds, counts)
    # every rank / kind at least once in quick on the mixed hand-made meshes
    if tier != "thorough":
        for m in [x for x in cat if x["name"] in ("mixed_quad_tri_isolated", "tri_pent_quad", "hex_quad_tri", "oct_hept")]:
            check_mesh(rec, rng, m, kinds_all, [1, 2, 3], reds, counts)
    for m in cat[:8] if tier == "quick" else cat[:30]:
        check_unsupported(rec, m)
    # a face with more than 255 corner nodes (coastline / shapefile polygon) next to ordinary faces
    nbig = 300
    ang = np.linspace(0.0, 2 * np.pi, nbig, endpoint=False)
    blon = list(20.0 + 8.0 * np.cos(ang)) + [40.0, 50.0, 45.0, 60.0, 70.0, 70.0, 60.0]
    blat = list(10.0 + 8.0 * np.sin(ang)) + [0.0, 0.0, 8.0, 0.0, 0.0, 10.0, 10.0]
    big = mg.mk("polygon_with_300_corners", blon, blat, [[nbig, nbig + 1, nbig + 2], list(range(nbig)), [nbig + 3, nbig + 4, nbig + 5, nbig + 6]])
    check_mesh(rec, rng, big, ["float64", "int64"], [1, 2], ["mean", "sum", "max", "std"], counts)
    hist = [x for x in cat if len(set(mg.npf(x["faces"]).tolist())) > 1][: (6 if tier == "quick" else 40)] + cat[:3]
    for m in hist:
        check_subset_history(rec, rng, m)
        counts.add((m["name"], "subset_history", 2))
    mixed = sum(1 for m in cat if len(set(mg.npf(m["faces"]).tolist())) > 1)
    bound = (f"{len(cat)} catalogue meshes ({mixed} with mixed face sizes, renumbered variants included; tier {tier}); node data float64/float32/"
             f"int64/int32/bool (+ float64 with NaN, int64 above 2**53 for min/max only), rank 1..3 with node dimension last; all ten "
             f"reductions x destinations face and edge compared face-by-face / edge-by-edge with numpy; dims, same-grid, unsupported "
             f"combinations (face/edge source, destination node/None/unknown) must raise; subsets (Grid.isel / UxDataArray.isel by face) taken AFTER aggregating on the source grid, aggregated again")
    samples = [{"mesh": m["name"], "n_face": m["n_face"], "n_node": m["n_node"]} for m in cat[6:9]]
    return result(rec.cases, len(counts), rec.failures, bound, samples)
