"""C18 bounded stand-in: Grid.get_dual() / UxDataArray.get_dual() against an independent dual construction.

Oracle: incidence lists node -> faces straight from the mesh's face table, face centres = normalised mean of the corner
unit vectors, counter-clockwise = increasing polar angle in the tangent plane at the primal node seen from outside the
sphere (right-handed frame e1, e2 = p x e1), meshgen.dual_of for the expected face sets / cyclic order on closed meshes.
Runs with the numba JIT ON; the compiled construct_faces is additionally compared with its pure-Python body (py_func)
on the same inputs (JIT on and off agree).
"""
import os

os.environ["NUMBA_DISABLE_JIT"] = "0"

import math
import random

import numpy as np

from . import meshgen as mg
from .common import FILL, grid_of, result, ux


# ------------------------------------------------------------------------------------------------ oracle helpers
def _P(mesh):
    x, y, z = mg.xyz_of(mesh["lon"], mesh["lat"])
    return np.stack([x, y, z], axis=1)


def _centres(mesh, P):
    out = []
    for f in range(mesh["n_face"]):
        c = P[mg.face_corners(mesh, f)].mean(axis=0)
        out.append(c / np.linalg.norm(c))
    return np.array(out)


def _incidence(mesh):
    inc = {n: [] for n in range(mesh["n_node"])}
    for f in range(mesh["n_face"]):
        for v in mg.face_corners(mesh, f):
            inc[v].append(f)
    return inc


def _is_ring(mesh, n, fs):
    """the faces around node n form ONE closed cycle: every face has exactly two edges at n, each shared with exactly one other
    face of the list"""
    edge_faces = {}
    for f in fs:
        es = [e for e in mg.edge_pairs_of_face(mesh["faces"][f]) if n in e]
        if len(es) != 2:
            return False
        for e in es:
            edge_faces.setdefault(e, []).append(f)
    if any(len(v) != 2 for v in edge_faces.values()):
        return False
    # connected cycle
    nxt = {f: set() for f in fs}
    for e, (a, b) in edge_faces.items():
        nxt[a].add(b)
        nxt[b].add(a)
    if len(fs) >= 3 and any(len(v) != 2 for v in nxt.values()):
        return False
    seen, cur, prev = {fs[0]}, fs[0], None
    while True:
        cand = [x for x in nxt[cur] if x != prev]
        if not cand:
            break
        prev, cur = cur, cand[0]
        if cur in seen:
            break
        seen.add(cur)
    return len(seen) == len(fs)


def _angles(p, pts):
    e1 = np.cross(p, [0.0, 0.0, 1.0] if abs(p[2]) < 0.9 else [1.0, 0.0, 0.0])
    e1 /= np.linalg.norm(e1)
    e2 = np.cross(p, e1)
    return [math.atan2((q - p) @ e2, (q - p) @ e1) for q in pts]


def _gc(a, b):
    return math.atan2(np.linalg.norm(np.cross(a, b)), float(a @ b))


def _to_pole(mesh, node, name):
    """rigid rotation that puts `node` exactly on the north pole (and therefore others near / on special meridians)"""
    P = _P(mesh)
    p = P[node]
    axis = np.cross(p, [0.0, 0.0, 1.0])
    if np.linalg.norm(axis) < 1e-12:
        return None
    ang = math.degrees(math.atan2(np.linalg.norm(axis), p[2]))
    m = mg.rotate_mesh(mesh, axis, ang, name)
    lat = np.array(m["lat"], float)
    lon = np.array(m["lon"], float)
    lat[node] = 90.0
    lon[node] = 0.0
    m["lat"], m["lon"] = lat, lon
    return m


def _meshes(tier, seed):
    rng = random.Random(seed * 104729 + 3)
    closed = mg.closed_meshes(thorough=(tier == "thorough"))
    out = list(closed)
    out.append(mg.mk("tetrahedron", *mg.lonlat_of(*np.array([(1, 1, 1), (1, -1, -1), (-1, 1, -1), (-1, -1, 1)], float).T),
                     [[0, 1, 2], [0, 3, 1], [0, 2, 3], [1, 3, 2]], closed=True))
    out[-1] = mg._ccw(out[-1])
    for m in closed[:5] if tier == "quick" else closed:
        out.append(mg.renumber(m, rng))
    for m in (closed[0], closed[2], closed[4]) if tier == "quick" else closed:
        r = _to_pole(m, rng.randrange(m["n_node"]), m["name"] + "_node_on_pole")
        if r is not None:
            out.append(r)
    # a node exactly on the antimeridian: rotate about z so that node 0 gets lon 180
    for m in (closed[2], closed[5]) if tier == "quick" else closed:
        k = rng.randrange(m["n_node"])
        r = mg.rotate_mesh(m, (0, 0, 1), 180.0 - float(m["lon"][k]), m["name"] + "_node_on_antimeridian")
        lon = np.array(r["lon"], float)
        lon[k] = 180.0
        r["lon"] = lon
        out.append(r)
    partial = mg.small_meshes() + mg.random_meshes(seed * 17 + 1, 14 if tier == "quick" else 150)
    partial += [mg.renumber(m, rng) for m in mg.small_meshes()[2:8]]
    return out + partial


# ------------------------------------------------------------------------------------------------ the checks
def _check_grid_dual(m, fails, tag):
    """returns (number of clause evaluations, dual grid or None)"""
    kind = "closed" if m["closed"] else "partial"
    n_case = 0
    P = _P(m)
    ctr = _centres(m, P)
    inc = _incidence(m)
    expected_nodes = [n for n in range(m["n_node"]) if len(inc[n]) >= 3]
    if not expected_nodes:
        return 0, None
    desc = {"mesh": m["name"], "call": tag}

    def fail(clause, what, observed=None, expected=None, extra=None):
        d = dict(desc)
        if extra:
            d.update(extra)
        fails.append({"key": f"{clause}:{tag}:{kind}", "what": what, "violated": clause, "inputs": d, "observed": observed,
                      "expected": expected})

    try:
        g = grid_of(m)
        if tag == "Grid.get_dual":
            d = g.get_dual()
        else:
            data = np.arange(m["n_face"], dtype=float)
            d = ux.UxDataArray(data, dims=["n_face"], uxgrid=g, name="v").get_dual().uxgrid
    except Exception as e:  # noqa: BLE001
        fail(f"exception_{type(e).__name__}", f"{tag} raised {type(e).__name__}: {e}"[:300], "exception", "a dual grid")
        return 1, None
    conn = np.asarray(d.face_node_connectivity.values)
    # ---- one dual face per node with >= 3 incident faces, one dual node per primal face
    n_case += 2
    if d.n_face != len(expected_nodes) or conn.shape[0] != len(expected_nodes):
        fail("dual_face_count", "number of dual faces differs from the number of primal nodes with >= 3 incident faces",
             int(d.n_face), len(expected_nodes))
        return n_case, d
    if d.n_node != m["n_face"]:
        fail("dual_node_count", "number of dual nodes differs from the number of primal faces", int(d.n_node), m["n_face"])
        return n_case, d
    # ---- dual node i at primal face centre i
    n_case += 1
    dx, dy, dz = mg.xyz_of(np.asarray(d.node_lon.values, float), np.asarray(d.node_lat.values, float))
    D = np.stack([dx, dy, dz], axis=1)
    dist = [_gc(D[i], ctr[i]) for i in range(m["n_face"])]
    if max(dist) > 1e-9:
        i = int(np.argmax(dist))
        fail("dual_node_at_face_centre", "dual node i is not at the centre (normalised corner mean) of primal face i",
             {"face": i, "great_circle_offset_rad": float(dist[i])}, "offset <= 1e-9")
    # ---- rows
    for k, n in enumerate(expected_nodes):
        row = [int(v) for v in conn[k]]
        real = [v for v in row if v != FILL]
        n_case += 1
        first_fill = row.index(FILL) if FILL in row else len(row)
        if any(v != FILL for v in row[first_fill:]):
            fail("padding_only_at_end", "a dual face row has a fill value before a real corner", row,
                 sorted(inc[n]), {"primal_node": n})
            continue
        n_case += 1
        if sorted(real) != sorted(inc[n]):
            fail("corners_are_faces_meeting_at_node", "corners of the dual face are not exactly the primal faces meeting at the node",
                 row, sorted(inc[n]), {"primal_node": n})
            continue
        if not _is_ring(m, n, inc[n]):
            continue
        # ---- consecutive corners share a primal edge
        n_case += 1
        L = len(real)
        ok = True
        for j in range(L):
            a, b = real[j], real[(j + 1) % L]
            ea = set(mg.edge_pairs_of_face(m["faces"][a]))
            eb = set(mg.edge_pairs_of_face(m["faces"][b]))
            if not (ea & eb):
                ok = False
        if not ok:
            fail("consecutive_corners_share_primal_edge", "two consecutive corners of a dual face are primal faces without a "
                 "common edge", row, "ring order", {"primal_node": n})
            continue
        # ---- counter-clockwise seen from outside
        n_case += 1
        ang = _angles(P[n], [ctr[f] for f in real])
        inc_sum = sum((ang[(j + 1) % L] - ang[j]) % (2 * math.pi) for j in range(L))
        nrm = sum((np.cross(ctr[real[j]], ctr[real[(j + 1) % L]]) for j in range(L)), np.zeros(3))
        if abs(inc_sum - 2 * math.pi) > 1e-6 or nrm @ P[n] <= 0:
            fail("counter_clockwise", "dual face corners are not ordered counter-clockwise (seen from outside the sphere)", row,
                 "one positive turn around the primal node", {"primal_node": n})
    return n_case, d


def _check_against_dual_of(m, d, fails):
    """closed meshes: the cyclic corner sequence equals meshgen.dual_of's (independent construction)"""
    o = mg.dual_of(m)
    conn = np.asarray(d.face_node_connectivity.values)
    if conn.shape[0] != o["n_face"]:
        return 0
    n = 0
    for k in range(o["n_face"]):
        row = [int(v) for v in conn[k] if v != FILL]
        exp = mg.face_corners(o, k)
        n += 1
        if sorted(row) != sorted(exp):
            continue        # reported by the set clause already
        j = exp.index(row[0])
        if row != exp[j:] + exp[:j]:
            fails.append({"key": "cyclic_order_equals_independent_dual:Grid.get_dual:closed",
                          "what": "cyclic corner order of a dual face differs from the independently constructed dual",
                          "violated": "ordered counter-clockwise", "inputs": {"mesh": m["name"], "primal_node": k},
                          "observed": row, "expected": exp[j:] + exp[:j]})
    return n


def _check_data(m, fails, rng):
    """closed grids: face-centred <-> node-centred, values unchanged and unpermuted, dims swapped, grid = the dual"""
    n_case = 0
    g = grid_of(m)
    nt = 3
    specs = [("face_centred_1d", ["n_face"], (m["n_face"],), "n_node"),
             ("face_centred_leading_dim", ["time", "n_face"], (nt, m["n_face"]), "n_node"),
             ("node_centred_1d", ["n_node"], (m["n_node"],), "n_face"),
             ("node_centred_leading_dims", ["time", "lev", "n_node"], (nt, 2, m["n_node"]), "n_face")]
    for tag, dims, shape, new_dim in specs:
        vals = np.array([rng.uniform(-5, 5) for _ in range(int(np.prod(shape)))]).reshape(shape)
        desc = {"mesh": m["name"], "dims": dims}
        n_case += 1
        try:
            r = ux.UxDataArray(vals.copy(), dims=dims, uxgrid=g, name="v").get_dual()
        except Exception as e:  # noqa: BLE001
            fails.append({"key": f"exception_{type(e).__name__}:UxDataArray.get_dual:{tag}", "what": f"raised {type(e).__name__}: {e}"[:300],
                          "violated": "data are carried to the dual", "inputs": desc, "observed": "exception", "expected": "a data array"})
            continue
        exp_dims = tuple(new_dim if x in ("n_face", "n_node") else x for x in dims)
        if tuple(r.dims) != exp_dims:
            fails.append({"key": f"data_dims_swapped:UxDataArray.get_dual:{tag}", "what": "dims of the dual data array are wrong",
                          "violated": "face-centred data become node-centred and vice versa", "inputs": desc,
                          "observed": list(r.dims), "expected": list(exp_dims)})
            continue
        n_case += 1
        got = np.asarray(r.values)
        if got.shape != vals.shape or not np.array_equal(got, vals):
            fails.append({"key": f"data_values_unchanged_unpermuted:UxDataArray.get_dual:{tag}",
                          "what": "values differ from / are a permutation of the primal values", "violated": "values unchanged and unpermuted",
                          "inputs": desc, "observed": got.ravel()[:6].tolist(), "expected": vals.ravel()[:6].tolist()})
        n_case += 1
        dg = r.uxgrid
        if dg.n_node != m["n_face"] or dg.n_face != m["n_node"]:
            fails.append({"key": f"data_attached_to_dual_grid:UxDataArray.get_dual:{tag}", "what": "the result's grid is not the dual "
                          "(element counts)", "violated": "attached to the dual", "inputs": desc,
                          "observed": [int(dg.n_node), int(dg.n_face)], "expected": [m["n_face"], m["n_node"]]})
    return n_case


def _check_jit_vs_python(m, fails):
    """construct_faces compiled vs its pure-Python body on the same arguments"""
    import uxarray.grid.dual as dual_mod
    cf = dual_mod.construct_faces
    if not hasattr(cf, "py_func"):
        return 0
    g = grid_of(m)
    nfc = np.asarray(g.node_face_connectivity.values)
    n_edges = np.sum(nfc != FILL, axis=1)
    if not np.any(n_edges >= 3):
        return 0
    args = (g.n_node, n_edges, g.face_x.values, g.face_y.values, g.face_z.values, nfc, g.node_x.values, g.node_y.values,
            g.node_z.values)
    a = np.asarray(cf(*args))
    saved = dual_mod._order_nodes
    try:
        if hasattr(saved, "py_func"):
            dual_mod._order_nodes = saved.py_func
        b = np.asarray(cf.py_func(*args))
    finally:
        dual_mod._order_nodes = saved
    if a.shape != b.shape or not np.array_equal(a, b):
        fails.append({"key": "jit_and_python_agree:construct_faces:" + ("closed" if m["closed"] else "partial"),
                      "what": "compiled and pure-Python construct_faces give different dual connectivity",
                      "violated": "JIT on and off", "inputs": {"mesh": m["name"]}, "observed": a.tolist()[:4], "expected": b.tolist()[:4]})
    return 1


def dual(tier, seed):
    rng = random.Random(seed * 2654435761 % (2 ** 31) + 11)
    fails, cases, keys, samples = [], 0, set(), []
    meshes = _meshes(tier, seed)
    n_closed = n_partial = 0
    for m in meshes:
        c, d = _check_grid_dual(m, fails, "Grid.get_dual")
        if c == 0:
            continue
        cases += c
        keys.add(m["name"])
        if m["closed"]:
            n_closed += 1
            if d is not None:
                cases += _check_against_dual_of(m, d, fails)
            c2, _ = _check_grid_dual(m, fails, "UxDataArray.get_dual.uxgrid")
            cases += c2
            cases += _check_data(m, fails, rng)
        else:
            n_partial += 1
        if m["n_node"] <= 40:
            cases += _check_jit_vs_python(m, fails)
        if len(samples) < 3:
            samples.append({"mesh": m["name"], "n_node": m["n_node"], "n_face": m["n_face"]})
    bound = (f"{n_closed} closed meshes (platonic, uv spheres with pole nodes, cubed sphere, hex/pent duals; renumbered; rotated so that "
             f"a node sits exactly on a pole / the antimeridian; valence 3..8) and {n_partial} partial meshes with at least one "
             f"node of >= 3 faces (small catalogue + seeded random patches); every node of every mesh; data with 0..2 leading dims; "
             f"JIT on, plus compiled-vs-py_func comparison of construct_faces")
    return result(cases, len(keys), fails, bound, samples)
