"""C18 bounded stand-in: Grid.get_dual() / UxDataArray.get_dual() against an independent dual construction.

Oracle: incidence lists node -> faces straight from the mesh's face table, face centres = normalised mean of the corner
unit vectors, counter-clockwise = increasing polar angle in the tangent plane at the primal node seen from outside the
sphere (right-handed frame e1, e2 = p x e1), meshgen.dual_of for the expected face sets / cyclic order on closed meshes.
Runs with the numba JIT ON; the compiled construct_faces is additionally compared with its pure-Python body (py_func)
on the same inputs (JIT on and off agree).
"""
import os

os.environ["NUMBA_DISABLE_JIT"] = "0"

import math
import random

import numpy as np

from . import meshgen as mg
from .common import FILL, grid_of, result, ux


# ------------------------------------------------------------------------------------------------ oracle helpers
def _P(mesh):
    x, y, z = mg.xyz_of(mesh["lon"], mesh["lat"])
    return np.stack([x, y, z], axis=1)


def _centres(mesh, P):
    out = []
    for f in range(mesh["n_face"]):
        c = P[mg.face_corners(mesh, f)].mean(axis=0)
        out.append(c / np.linalg.norm(c))
    return np.array(out)


def _incidence(mesh):
    inc = {n: [] for n in range(mesh["n_node"])}
    for f in range(mesh["n_face"]):
        for v in mg.face_corners(mesh, f):
            inc[v].append(f)
    return inc


def _is_ring(mesh, n, fs):
    """the faces around node n form ONE closed cycle: every face has exactly two edges at n, each shared with exactly one other
    face of the list"""
    edge_faces = {}
    for f in fs:
        es = [e for e in mg.edge_pairs_of_face(mesh["faces"][f]) if n in e]
        if len(es) != 2:
            return False
        for e in es:
            edge_faces.setdefault(e, []).append(f)
    if any(len(v) != 2 for v in edge_faces.values()):
        return False
    # connected cycle
    nxt = {f: set() for f in fs}
    for e, (a, b) in edge_faces.items():
        nxt[a].add(b)
        nxt[b].add(a)
    if len(fs) >= 3 and any(len(v) != 2 for v in nxt.values()):
        return False
    seen, cur, prev = {fs[0]}, fs[0], None
    while True:
        cand = [x for x in nxt[cur] if x != prev]
        if not cand:
            break
        prev, cur = cur, cand[0]
        if cur in seen:
            break
        seen.add(cur)
    return len(seen) == len(fs)


def _angles(p, pts):
    e1 = np.cross(p, [0.0, 0.0, 1.0] if abs(p[2]) < 0.9 else [1.0, 0.0, 0.0])
    e1 /= np.linalg.norm(e1)
    e2 = np.cross(p, e1)
    return [math.atan2((q - p) @ e2, (q - p) @ e1) for q in pts]


def _gc(a, b):
    return math.atan2(np.linalg.norm(np.cross(a, b)), float(a @ b))


def _to_pole(mesh, node, name):
    """rigid rotation that puts `node` exactly on the north pole (and therefore others near / on special meridians)"""
    P = _P(mesh)
    p = P[node]
    axis = np.cross(p, [0.0, 0.0, 1.0])
    if np.linalg.norm(axis) < 1e-12:
        return None
    ang = math.degrees(math.atan2(np.linalg.norm(axis), p[2]))
    m = mg.rotate_mesh(mesh, axis, ang, name)
    lat = np.array(m["lat"], float)
    lon = np.array(m["lon"], float)
    lat[node] = 90.0
    lon[node] = 0.0
    m["lat"], m["lon"] = lat, lon
    return m


def _triangulated(m, name):
    """every quad (a, b, c, d) split into (a, b, c), (a, c, d)"""
    fl = []
    for f in range(m["n_face"]):
        c = mg.face_corners(m, f)
        fl += [c] if len(c) == 3 else [[c[0], c[j], c[j + 1]] for j in range(1, len(c) - 1)]
    return mg.mk(name, m["lon"], m["lat"], fl, closed=m["closed"])


def _meshes(tier, seed):
    rng = random.Random(seed * 104729 + 3)
    closed = mg.closed_meshes(thorough=(tier == "thorough"))
    out = list(closed)
    out.append(mg.mk("tetrahedron", *mg.lonlat_of(*np.array([(1, 1, 1), (1, -1, -1), (-1, 1, -1), (-1, -1, 1)], float).T),
                     [[0, 1, 2], [0, 3, 1], [0, 2, 3], [1, 3, 2]], closed=True))
    out[-1] = mg._ccw(out[-1])
    if tier == "thorough":
        # very coarse triangulations (3 / 4 nodes round the sphere): face centres up to ~85 degrees of arc from a corner
        out += [_triangulated(mg.uv_sphere(3, 5), "uv_sphere3x5_triangulated"),
                _triangulated(mg.uv_sphere(4, 5), "uv_sphere4x5_triangulated")]
    for m in closed[:5] if tier == "quick" else closed:
        out.append(mg.renumber(m, rng))
    for m in (closed[0], closed[2], closed[4]) if tier == "quick" else closed:
        r = _to_pole(m, rng.randrange(m["n_node"]), m["name"] + "_node_on_pole")
        if r is not None:
            out.append(r)
    # a node exactly on the antimeridian: rotate about z so that node 0 gets lon 180
    for m in (closed[2], closed[5]) if tier == "quick" else closed:
        k = rng.randrange(m["n_node"])
        r = mg.rotate_mesh(m, (0, 0, 1), 180.0 - float(m["lon"][k]), m["name"] + "_node_on_antimeridian")
        lon = np.array(r["lon"], float)
        lon[k] = 180.0
        r["lon"] = lon
        out.append(r)
    partial = mg.small_meshes() + mg.random_meshes(seed * 17 + 1, 14 if tier == "quick" else 150)
    partial += [mg.renumber(m, rng) for m in mg.small_meshes()[2:8]]
    # a node that belongs to no face (accepted by the constructors; surrounded by fewer than three faces: no dual face)
    extra = []
    for m, at in ((closed[0], 3), (closed[1], 0), (mg.small_meshes()[2], 4)):
        lon, lat = list(np.array(m["lon"], float)), list(np.array(m["lat"], float))
        lon.insert(at, 33.0)
        lat.insert(at, 11.0)
        faces = [[(v + 1 if v >= at else v) for v in row if v != mg.FILL] for row in m["faces"]]
        extra.append(mg.mk(m["name"] + "_with_unused_node", lon, lat, faces, closed=False))
    return out + partial + extra


# ------------------------------------------------------------------------------------------------ locally refined meshes
# A locally refined region: a node ringed by very small faces (face centres ~1e-3 degrees ~ 2e-5 rad from the node) inside an
# otherwise coarse mesh.  Two independent constructions:
#   _refine_at      corner truncation of an existing coarse mesh at one node: every edge at the node gets a new node at angular
#                   distance r from it, every incident face loses its corner to a tiny triangle (node, new, new)
#   _graded_cap     a fan of m tiny triangles round an apex, then rings whose radius grows geometrically up to a coarse mesh
#                   (bands of quads, triangles, or alternating -> ring-node valence 4, 6, 5), closed by an antipodal fan or left open
_FINE_R_DEG = (1e-3, 5e-4, 2e-3, 2.5e-4)
_TARGETS = ((40.0, 35.0), (180.0, 23.0), (0.0, 0.0), (-117.0, -48.0), (75.0, -66.0), (-180.0, 51.0), (12.0, 71.0))


def _tangent_frame(lon_deg, lat_deg):
    lo, la = math.radians(lon_deg), math.radians(lat_deg)
    up = np.array([math.cos(la) * math.cos(lo), math.cos(la) * math.sin(lo), math.sin(la)])
    east = np.array([-math.sin(lo), math.cos(lo), 0.0])
    return up, east, np.cross(up, east)


def _fine_nodes(m, P=None, ctr=None, within_deg=5e-3):
    """nodes ringed (>= 3 faces) by very small faces only: every incident face centre within `within_deg` of the node"""
    P = _P(m) if P is None else P
    ctr = _centres(m, P) if ctr is None else ctr
    inc = _incidence(m)
    lim = math.radians(within_deg)
    return [n for n in range(m["n_node"]) if len(inc[n]) >= 3 and max(_gc(P[n], ctr[f]) for f in inc[n]) < lim]


def _mark(m):
    m["refined"] = True
    return m


def _renumber_refined(m, rng):
    return _mark(mg.renumber(m, rng))


def _move_node_to(m, node, lon_deg, lat_deg):
    """rigid rotation that carries `node` to (lon, lat); the node's own coordinates are then set to exactly that position"""
    p = _P(m)[node]
    q = _tangent_frame(lon_deg, lat_deg)[0]
    axis = np.cross(p, q)
    s = np.linalg.norm(axis)
    r = dict(m)
    if s > 1e-9:
        r = mg.rotate_mesh(m, axis, math.degrees(math.atan2(s, float(p @ q))), m["name"])
    lon = np.array(r["lon"], float)
    lat = np.array(r["lat"], float)
    lon[node], lat[node] = lon_deg, lat_deg
    r["lon"], r["lat"] = lon, lat
    return r


def _refine_at(mesh, v, r_deg, name):
    """truncate every face corner at node v (must be ringed by its faces): new nodes at distance r on the edges at v, tiny triangles
    (new_prev, v, new_next) in place of the corners.  Orientation (counter-clockwise) and conformity are kept."""
    P = _P(mesh)
    p = P[v]
    inc = _incidence(mesh)[v]
    r = math.radians(r_deg)
    lon = [float(x) for x in mesh["lon"]]
    lat = [float(x) for x in mesh["lat"]]
    new_id = {}

    def w(u):
        if u not in new_id:
            t = P[u] - (P[u] @ p) * p
            t /= np.linalg.norm(t)
            q = math.cos(r) * p + math.sin(r) * t
            lo, la = mg.lonlat_of(np.array(q[0]), np.array(q[1]), np.array(q[2]))
            new_id[u] = len(lon)
            lon.append(float(lo))
            lat.append(float(la))
        return new_id[u]
    fl = [mg.face_corners(mesh, f) for f in range(mesh["n_face"])]
    tiny = []
    for f in inc:
        c = fl[f]
        j = c.index(v)
        a, b = c[j - 1], c[(j + 1) % len(c)]
        wa, wb = w(a), w(b)
        fl[f] = c[:j] + [wa, wb] + c[j + 1:]
        tiny.append([wa, v, wb])
    return _mark(mg.mk(name, lon, lat, fl + tiny, closed=mesh["closed"]))


def _graded_cap(m, r_deg, growth, style, closed, centre, name, phase=0.37):
    """apex (node 0) + rings of m nodes at colatitudes r, r*growth, ... (< 15 degrees), then coarse rings; faces counter-clockwise"""
    up, east, north = _tangent_frame(*centre)
    cols = []
    c = r_deg
    while c < 15.0:
        cols.append(c)
        c *= growth
    cols += [40.0, 75.0, 110.0, 145.0] if closed else [32.0]
    az = [2.0 * math.pi * (i + phase) / m for i in range(m)]
    pts = [up]
    for c in cols:
        cr = math.radians(c)
        for a in az:
            pts.append(math.cos(cr) * up + math.sin(cr) * (math.cos(a) * east + math.sin(a) * north))
    if closed:
        pts.append(-up)
    pts = np.array(pts)
    lon, lat = mg.lonlat_of(pts[:, 0], pts[:, 1], pts[:, 2])
    ring = lambda j, i: 1 + j * m + (i % m)  # noqa: E731
    faces = [[0, ring(0, i), ring(0, i + 1)] for i in range(m)]
    for j in range(len(cols) - 1):
        tri = style == "tri" or (style == "mixed" and j % 2 == 0)
        for i in range(m):
            a, b, c2, d = ring(j, i), ring(j + 1, i), ring(j + 1, i + 1), ring(j, i + 1)
            faces += [[a, b, c2], [a, c2, d]] if tri else [[a, b, c2, d]]
    if closed:
        last = len(pts) - 1
        faces += [[last, ring(len(cols) - 1, i + 1), ring(len(cols) - 1, i)] for i in range(m)]
    return _mark(mg.mk(name, lon, lat, faces, closed=closed))


def _refinable_nodes(m):
    """nodes ringed by 3..8 faces, none of which already has 8 corners (truncation adds one corner), every face corner at the node
    properly convex (interior angle 20..160 degrees: the cut-off triangle is then a proper counter-clockwise triangle)"""
    inc = _incidence(m)
    P = _P(m)
    out = []
    for n in range(m["n_node"]):
        if not (3 <= len(inc[n]) <= 8 and _is_ring(m, n, inc[n])):
            continue
        ok = True
        for f in inc[n]:
            c = mg.face_corners(m, f)
            j = c.index(n)
            u1 = P[n] - P[c[j - 1]]
            u2 = P[c[(j + 1) % len(c)]] - P[n]
            turn = float(P[n] @ np.cross(u1 / np.linalg.norm(u1), u2 / np.linalg.norm(u2)))
            ok = ok and len(c) <= 7 and turn > math.sin(math.radians(20.0))
        if ok:
            out.append(n)
    return out


def _refined_meshes(tier, seed):
    rng = random.Random(seed * 7368787 + 29)
    quick = tier == "quick"
    out = []
    k = 0

    def target():
        nonlocal k
        k += 1
        return _TARGETS[k % len(_TARGETS)] if k % 3 else (rng.uniform(-180.0, 180.0), rng.uniform(-70.0, 70.0))
    # ---- corner truncation of coarse closed meshes (valence 3: cube / dodecahedron, 4: octahedron, 5: icosahedron, 6: uv-sphere fan)
    closed = mg.closed_meshes(thorough=not quick)
    for i, base in enumerate(closed):
        nodes = _refinable_nodes(base)
        if base["name"].startswith("uv_sphere"):
            nodes = [n for n in (0,) if n in nodes]         # the fan apex (valence nlon); moved away from the pole below
        picks = [nodes[rng.randrange(len(nodes))]] if quick else rng.sample(nodes, min(3, len(nodes)))
        for v in picks:
            r_deg = _FINE_R_DEG[(i + v) % (2 if quick else len(_FINE_R_DEG))]
            m = _refine_at(_move_node_to(base, v, *target()), v, r_deg, f"{base['name']}_refined_at_node_r{r_deg:g}deg")
            out.append(m)
            if not quick or i % 2 == 0:
                out.append(_renumber_refined(m, rng))
    # a refined REGION: two adjacent nodes of one coarse mesh
    for base in (closed[2],) if quick else (closed[0], closed[2], closed[4]):
        v = rng.randrange(base["n_node"])
        c = mg.face_corners(base, _incidence(base)[v][0])
        nb = c[(c.index(v) + 1) % len(c)]
        m = _refine_at(_refine_at(_move_node_to(base, v, *target()), v, 1e-3, ""), nb, 1e-3,
                       f"{base['name']}_refined_at_two_adjacent_nodes")
        out.append(_renumber_refined(m, rng))
    # ---- graded caps
    combos = [(3, "quad", True), (4, "tri", False), (5, "mixed", True), (6, "quad", False)] if quick else \
        [(m, s, c) for m in (3, 4, 5, 6) for s in ("quad", "tri", "mixed") for c in (True, False)]
    for i, (m, style, cl) in enumerate(combos):
        for r_deg in _FINE_R_DEG[:1] if quick else _FINE_R_DEG[:3]:
            g = _graded_cap(m, r_deg, rng.choice([2.0, 3.0, 4.0]), style, cl, target(),
                            f"graded_cap_valence{m}_{style}_{'closed' if cl else 'open'}_r{r_deg:g}deg", phase=rng.uniform(0.05, 0.95))
            out.append(g)
            out.append(_renumber_refined(g, rng))
    # ---- corner truncation at an interior node of coarse partial meshes
    partial = [m for m in mg.small_meshes() + mg.random_meshes(seed * 13 + 7, 20 if quick else 120) if _refinable_nodes(m)]
    for i, base in enumerate(partial[:4] if quick else partial[:40]):
        nodes = [n for n in _refinable_nodes(base) if abs(float(base["lat"][n])) <= 80.0]   # away from the geographic poles
        if not nodes:
            continue
        m = _refine_at(base, nodes[rng.randrange(len(nodes))], _FINE_R_DEG[i % 3],
                       base["name"] + f"_refined_at_node_r{_FINE_R_DEG[i % 3]:g}deg")
        out.append(m if i % 2 else _renumber_refined(m, rng))
    return out


# ------------------------------------------------------------------------------------------------ the checks
def _kind(m):
    return ("closed" if m["closed"] else "partial") + ("_locally_refined" if m.get("refined") else "")


def _node_kind(m, n, P, ctr, inc):
    """scenario of ONE primal node (for the failure key of the row clauses): 'face_centre_beyond_60deg' = a very coarse
    neighbourhood (some incident face centre more than 60 degrees of arc away), 'locally_refined' = the node touches the refined
    region of a locally refined mesh (nearest incident face centre within 1 degree); plain otherwise (also the coarse nodes of a
    locally refined mesh)"""
    dist = [_gc(P[n], ctr[f]) for f in inc[n]]
    base = "closed" if m["closed"] else "partial"
    if max(dist) > math.radians(60.0):
        return base + "_face_centre_beyond_60deg"
    if m.get("refined") and min(dist) < math.radians(1.0):
        return base + "_locally_refined"
    return base


def _check_grid_dual(m, fails, tag):
    """returns (number of clause evaluations, dual grid or None)"""
    kind = _kind(m)
    n_case = 0
    P = _P(m)
    ctr = _centres(m, P)
    inc = _incidence(m)
    expected_nodes = [n for n in range(m["n_node"]) if len(inc[n]) >= 3]
    if not expected_nodes:
        return 0, None
    desc = {"mesh": m["name"], "call": tag}
    fine = set(_fine_nodes(m, P, ctr)) if m.get("refined") else set()

    def fail(clause, what, observed=None, expected=None, extra=None):
        d = dict(desc)
        if extra:
            d.update(extra)
            if m.get("refined") and "primal_node" in extra:
                d["node_ringed_by_tiny_faces"] = extra["primal_node"] in fine
                d["lonlat_deg"] = [float(m["lon"][extra["primal_node"]]), float(m["lat"][extra["primal_node"]])]
        k = _node_kind(m, extra["primal_node"], P, ctr, inc) if extra and "primal_node" in extra else kind
        fails.append({"key": f"{clause}:{tag}:{k}", "what": what, "violated": clause, "inputs": d, "observed": observed,
                      "expected": expected})

    try:
        g = grid_of(m)
        if tag == "Grid.get_dual":
            d = g.get_dual()
        else:
            data = np.arange(m["n_face"], dtype=float)
            d = ux.UxDataArray(data, dims=["n_face"], uxgrid=g, name="v").get_dual().uxgrid
    except Exception as e:  # noqa: BLE001
        fail(f"exception_{type(e).__name__}", f"{tag} raised {type(e).__name__}: {e}"[:300], "exception", "a dual grid")
        return 1, None
    conn = np.asarray(d.face_node_connectivity.values)
    # ---- one dual face per node with >= 3 incident faces, one dual node per primal face
    n_case += 2
    if d.n_face != len(expected_nodes) or conn.shape[0] != len(expected_nodes):
        fail("dual_face_count", "number of dual faces differs from the number of primal nodes with >= 3 incident faces",
             int(d.n_face), len(expected_nodes))
        return n_case, d
    if d.n_node != m["n_face"]:
        fail("dual_node_count", "number of dual nodes differs from the number of primal faces", int(d.n_node), m["n_face"])
        return n_case, d
    # ---- the dual is a grid in its own right: its node -> face table lists, for every dual node, exactly the dual faces having it as
    #      a corner (in the dual's OWN face numbering)
    n_case += 1
    try:
        dnf = np.asarray(d.node_face_connectivity.values)
        bad = None
        for v in range(int(d.n_node)):
            want = sorted(int(f) for f in range(conn.shape[0]) if v in [int(x) for x in conn[f] if x != FILL])
            got = sorted(int(x) for x in (dnf[v] if v < dnf.shape[0] else []) if x != FILL)
            if got != want:
                bad = (v, got, want)
                break
        if dnf.shape[0] != int(d.n_node):
            bad = ("rows", int(dnf.shape[0]), int(d.n_node))
        if bad is not None:
            fail("dual_grid_incidence", "node_face_connectivity of the dual grid does not list, for a dual node, the dual faces that have it "
                 "as a corner", {"dual_node": bad[0], "listed": bad[1]}, bad[2])
    except Exception as e:  # noqa: BLE001
        fail(f"exception_{type(e).__name__}:dual_grid_incidence", f"node_face_connectivity of the dual grid raised {type(e).__name__}: {e}"[:300],
             "exception", "a table")
    # ---- dual node i at primal face centre i
    n_case += 1
    dx, dy, dz = mg.xyz_of(np.asarray(d.node_lon.values, float), np.asarray(d.node_lat.values, float))
    D = np.stack([dx, dy, dz], axis=1)
    dist = [_gc(D[i], ctr[i]) for i in range(m["n_face"])]
    if max(dist) > 1e-9:
        i = int(np.argmax(dist))
        fail("dual_node_at_face_centre", "dual node i is not at the centre (normalised corner mean) of primal face i",
             {"face": i, "great_circle_offset_rad": float(dist[i])}, "offset <= 1e-9")
    # ---- rows
    for k, n in enumerate(expected_nodes):
        row = [int(v) for v in conn[k]]
        real = [v for v in row if v != FILL]
        n_case += 1
        first_fill = row.index(FILL) if FILL in row else len(row)
        if any(v != FILL for v in row[first_fill:]):
            fail("padding_only_at_end", "a dual face row has a fill value before a real corner", row,
                 sorted(inc[n]), {"primal_node": n})
            continue
        n_case += 1
        if sorted(real) != sorted(inc[n]):
            fail("corners_are_faces_meeting_at_node", "corners of the dual face are not exactly the primal faces meeting at the node",
                 row, sorted(inc[n]), {"primal_node": n})
            continue
        if not _is_ring(m, n, inc[n]):
            continue
        # ---- consecutive corners share a primal edge
        n_case += 1
        L = len(real)
        ok = True
        for j in range(L):
            a, b = real[j], real[(j + 1) % L]
            ea = set(mg.edge_pairs_of_face(m["faces"][a]))
            eb = set(mg.edge_pairs_of_face(m["faces"][b]))
            if not (ea & eb):
                ok = False
        if not ok:
            fail("consecutive_corners_share_primal_edge", "two consecutive corners of a dual face are primal faces without a "
                 "common edge", row, "ring order", {"primal_node": n})
            continue
        # ---- counter-clockwise seen from outside
        n_case += 1
        ang = _angles(P[n], [ctr[f] for f in real])
        inc_sum = sum((ang[(j + 1) % L] - ang[j]) % (2 * math.pi) for j in range(L))
        nrm = sum((np.cross(ctr[real[j]], ctr[real[(j + 1) % L]]) for j in range(L)), np.zeros(3))
        if abs(inc_sum - 2 * math.pi) > 1e-6 or nrm @ P[n] <= 0:
            fail("counter_clockwise", "dual face corners are not ordered counter-clockwise (seen from outside the sphere)", row,
                 "one positive turn around the primal node", {"primal_node": n})
    return n_case, d


def _check_against_dual_of(m, d, fails):
    """closed meshes: the cyclic corner sequence equals meshgen.dual_of's (independent construction)"""
    o = mg.dual_of(m)
    P = _P(m)
    ctr, inc = _centres(m, P), _incidence(m)
    conn = np.asarray(d.face_node_connectivity.values)
    if conn.shape[0] != o["n_face"]:
        return 0
    n = 0
    for k in range(o["n_face"]):
        row = [int(v) for v in conn[k] if v != FILL]
        exp = mg.face_corners(o, k)
        n += 1
        if sorted(row) != sorted(exp):
            continue        # reported by the set clause already
        j = exp.index(row[0])
        if row != exp[j:] + exp[:j]:
            fails.append({"key": "cyclic_order_equals_independent_dual:Grid.get_dual:" + _node_kind(m, k, P, ctr, inc),
                          "what": "cyclic corner order of a dual face differs from the independently constructed dual",
                          "violated": "ordered counter-clockwise", "inputs": {"mesh": m["name"], "primal_node": k},
                          "observed": row, "expected": exp[j:] + exp[:j]})
    return n


def _check_data(m, fails, rng):
    """closed grids: face-centred <-> node-centred, values unchanged and unpermuted, dims swapped, grid = the dual"""
    n_case = 0
    g = grid_of(m)
    nt = 3
    specs = [("face_centred_1d", ["n_face"], (m["n_face"],), "n_node"),
             ("face_centred_leading_dim", ["time", "n_face"], (nt, m["n_face"]), "n_node"),
             ("node_centred_1d", ["n_node"], (m["n_node"],), "n_face"),
             ("node_centred_leading_dims", ["time", "lev", "n_node"], (nt, 2, m["n_node"]), "n_face")]
    for tag, dims, shape, new_dim in specs:
        vals = np.array([rng.uniform(-5, 5) for _ in range(int(np.prod(shape)))]).reshape(shape)
        desc = {"mesh": m["name"], "dims": dims}
        n_case += 1
        try:
            r = ux.UxDataArray(vals.copy(), dims=dims, uxgrid=g, name="v").get_dual()
        except Exception as e:  # noqa: BLE001
            fails.append({"key": f"exception_{type(e).__name__}:UxDataArray.get_dual:{tag}", "what": f"raised {type(e).__name__}: {e}"[:300],
                          "violated": "data are carried to the dual", "inputs": desc, "observed": "exception", "expected": "a data array"})
            continue
        exp_dims = tuple(new_dim if x in ("n_face", "n_node") else x for x in dims)
        if tuple(r.dims) != exp_dims:
            fails.append({"key": f"data_dims_swapped:UxDataArray.get_dual:{tag}", "what": "dims of the dual data array are wrong",
                          "violated": "face-centred data become node-centred and vice versa", "inputs": desc,
                          "observed": list(r.dims), "expected": list(exp_dims)})
            continue
        n_case += 1
        got = np.asarray(r.values)
        if got.shape != vals.shape or not np.array_equal(got, vals):
            fails.append({"key": f"data_values_unchanged_unpermuted:UxDataArray.get_dual:{tag}",
                          "what": "values differ from / are a permutation of the primal values", "violated": "values unchanged and unpermuted",
                          "inputs": desc, "observed": got.ravel()[:6].tolist(), "expected": vals.ravel()[:6].tolist()})
        n_case += 1
        dg = r.uxgrid
        if dg.n_node != m["n_face"] or dg.n_face != m["n_node"]:
            fails.append({"key": f"data_attached_to_dual_grid:UxDataArray.get_dual:{tag}", "what": "the result's grid is not the dual "
                          "(element counts)", "violated": "attached to the dual", "inputs": desc,
                          "observed": [int(dg.n_node), int(dg.n_face)], "expected": [m["n_face"], m["n_node"]]})
    return n_case


def _check_jit_vs_python(m, fails):
    """construct_faces compiled vs its pure-Python body on the same arguments"""
    import uxarray.grid.dual as dual_mod
    cf = dual_mod.construct_faces
    if not hasattr(cf, "py_func"):
        return 0
    g = grid_of(m)
    nfc = np.asarray(g.node_face_connectivity.values)
    n_edges = np.sum(nfc != FILL, axis=1)
    if not np.any(n_edges >= 3):
        return 0
    args = (g.n_node, n_edges, g.face_x.values, g.face_y.values, g.face_z.values, nfc, g.node_x.values, g.node_y.values,
            g.node_z.values)
    saved = dual_mod._order_nodes
    try:
        a = np.asarray(cf(*args))
        if hasattr(saved, "py_func"):
            dual_mod._order_nodes = saved.py_func
        b = np.asarray(cf.py_func(*args))
    except Exception as e:  # noqa: BLE001   (raised by the library on arguments Grid.get_dual itself would pass)
        fails.append({"key": f"exception_{type(e).__name__}:construct_faces:compiled_or_python_body",
                      "what": f"construct_faces raised {type(e).__name__}: {e}"[:300] + " on the arguments construct_dual passes for this mesh",
                      "violated": "one dual face per node with >= 3 incident faces", "inputs": {"mesh": m["name"]},
                      "observed": "exception", "expected": "the dual face table"})
        return 1
    finally:
        dual_mod._order_nodes = saved
    if a.shape != b.shape or not np.array_equal(a, b):
        fails.append({"key": "jit_and_python_agree:construct_faces:" + _kind(m),
                      "what": "compiled and pure-Python construct_faces give different dual connectivity",
                      "violated": "JIT on and off", "inputs": {"mesh": m["name"]}, "observed": a.tolist()[:4], "expected": b.tolist()[:4]})
    return 1


def dual(tier, seed):
    rng = random.Random(seed * 2654435761 % (2 ** 31) + 11)
    fails, cases, keys, samples = [], 0, set(), []
    meshes = _meshes(tier, seed)
    refined = _refined_meshes(tier, seed)
    n_closed = n_partial = n_ref_closed = n_ref_partial = n_fine = 0
    for m in refined:
        fine = _fine_nodes(m)
        assert fine, "stand-in bug: a 'locally refined' mesh without a node ringed by tiny faces: " + m["name"]
        n_fine += len(fine)
        n_ref_closed += bool(m["closed"])
        n_ref_partial += not m["closed"]
    for m in meshes + refined:
        c, d = _check_grid_dual(m, fails, "Grid.get_dual")
        if c == 0:
            continue
        cases += c
        keys.add(m["name"])
        if m["closed"]:
            n_closed += not m.get("refined")
            if d is not None:
                cases += _check_against_dual_of(m, d, fails)
            c2, _ = _check_grid_dual(m, fails, "UxDataArray.get_dual.uxgrid")
            cases += c2
            cases += _check_data(m, fails, rng)
        else:
            n_partial += not m.get("refined")
        if m["n_node"] <= 40:
            cases += _check_jit_vs_python(m, fails)
        if len(samples) < 3:
            samples.append({"mesh": m["name"], "n_node": m["n_node"], "n_face": m["n_face"]})
    bound = (f"{n_closed} closed meshes (platonic, uv spheres with pole nodes, cubed sphere, hex/pent duals; renumbered; rotated so that "
             f"a node sits exactly on a pole / the antimeridian; thorough tier: very coarse triangulated uv spheres; valence 3..8) and {n_partial} partial meshes with at least one "
             f"node of >= 3 faces (small catalogue + seeded random patches); every node of every mesh; data with 0..2 leading dims; "
             f"JIT on, plus compiled-vs-py_func comparison of construct_faces; locally refined meshes (keys *_locally_refined): "
             f"{n_ref_closed} closed + {n_ref_partial} partial coarse meshes with a refined region away from the geographic poles "
             f"(corner truncation of platonic / uv / cubed-sphere / random-patch meshes at one or two adjacent nodes, graded caps of "
             f"quad / triangle / alternating bands with growth 2..4; ring radius 2.5e-4..2e-3 degrees; refined node valence 3..6 (3..8 in the thorough tier); "
             f"{n_fine} nodes ringed only by faces whose centres are within 5e-3 degrees), same clauses on every node")
    return result(cases, len(keys), fails, bound, samples)
