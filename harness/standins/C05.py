"""C05 bounded stand-in: face areas are the spherical-polygon areas, invariantly.

areas(tier, seed): generated convex faces (3..8 corners, edges < 90 deg, 2..65 deg across) placed anywhere on the sphere
(random, pole inside, pole as a corner, across the antimeridian, corner on +-180, prime meridian) and the closed meshes of
meshgen.  Oracle: exact spherical excess (fan of triangles with the Van Oosterom-Strackee / l'Huilier-equivalent formula,
cross-checked against Girard's interior-angle sum), computed from the very lon/lat handed to uxarray.
Scenario equator_mirror_faces (_check_equator_mirror): faces with >= 4 corners symmetric about the equator (regular lon/lat cells,
mirror-symmetric polygons), listed from every start corner, through the Cartesian-corner paths.
"""
import math
import random

import numpy as np
import xarray as xr

from .common import FILL, grid_of, result, ux
from . import meshgen as mg

TRI_ORDERS = [1, 4, 8, 10, 12]
GAUSS_ORDERS = list(range(1, 11))
BANDS = [(10.0, 1e-6), (30.0, 1e-4), (65.0, 1e-2)]     # (degrees across, relative accuracy of the default rule)
REL = 1e-9


# ------------------------------------------------------------------------------------------------ oracle
def _vec(lon, lat):
    lo, la = np.deg2rad(np.asarray(lon, float)), np.deg2rad(np.asarray(lat, float))
    return np.stack([np.cos(lo) * np.cos(la), np.sin(lo) * np.cos(la), np.sin(la)], axis=-1)


def _lonlat(P):
    return np.rad2deg(np.arctan2(P[:, 1], P[:, 0])), np.rad2deg(np.arcsin(np.clip(P[:, 2], -1.0, 1.0)))


def _tri_excess(a, b, c):
    """signed spherical excess of the triangle a, b, c (unit vectors)"""
    return 2.0 * math.atan2(float(a @ np.cross(b, c)), 1.0 + float(a @ b) + float(b @ c) + float(c @ a))


def exact_area(P):
    return abs(sum(_tri_excess(P[0], P[t], P[t + 1]) for t in range(1, len(P) - 1)))


def girard_area(P):
    n = len(P)
    s = 0.0
    for i in range(n):
        v, p, q = P[i], P[i - 1], P[(i + 1) % n]
        tp, tq = p - (p @ v) * v, q - (q @ v) * v
        s += math.atan2(np.linalg.norm(np.cross(tp, tq)), tp @ tq)
    return s - (n - 2) * math.pi


def _diam_deg(P):
    return float(np.rad2deg(np.max(np.arccos(np.clip(P @ P.T, -1.0, 1.0)))))


def _max_edge_deg(P):
    return float(np.rad2deg(np.max(np.arccos(np.clip(np.sum(P * np.roll(P, -1, axis=0), axis=1), -1.0, 1.0)))))


def _convex_ccw(P, eps=1e-9):
    n = len(P)
    if n == 3:
        return np.linalg.det(P) > eps
    return all(np.linalg.det(np.stack([P[i], P[(i + 1) % n], P[(i + 2) % n]])) > eps for i in range(n)) and \
        all(np.linalg.det(np.stack([P[i], P[(i + 1) % n], P[j]])) > -1e-12 for i in range(n) for j in range(n))


def _band(diam):
    for d, tol in BANDS:
        if diam <= d:
            return d, tol
    return None, None


# ------------------------------------------------------------------------------------------------ generators
def _rand_rot(rng):
    q = rng.normal(size=4)
    q /= np.linalg.norm(q)
    a, b, c, d = q
    return np.array([[a * a + b * b - c * c - d * d, 2 * (b * c - a * d), 2 * (b * d + a * c)],
                     [2 * (b * c + a * d), a * a - b * b + c * c - d * d, 2 * (c * d - a * b)],
                     [2 * (b * d - a * c), 2 * (c * d + a * b), a * a - b * b - c * c + d * d]])


def _rot_to(src, dst):
    """rotation matrix taking unit vector src to unit vector dst"""
    v = np.cross(src, dst)
    c = float(src @ dst)
    if np.linalg.norm(v) < 1e-14:
        return np.eye(3) if c > 0 else np.diag([1.0, -1.0, -1.0])
    K = np.array([[0, -v[2], v[1]], [v[2], 0, -v[0]], [-v[1], v[0], 0]])
    return np.eye(3) + K + K @ K / (1.0 + c)


def _gen_polygon(rng, n, diam_deg):
    """convex CCW polygon around the north pole with the given diameter (largest corner-corner angle)"""
    while True:
        ang = np.sort(rng.uniform(0, 2 * np.pi, n))
        gaps = np.diff(np.append(ang, ang[0] + 2 * np.pi))
        if gaps.min() < 0.12 or gaps.max() > 2.9:
            continue
        rad = rng.uniform(0.45, 1.0, n)

        def build(s):
            r = np.deg2rad(diam_deg / 2) * rad * s
            return np.stack([np.sin(r) * np.cos(ang), np.sin(r) * np.sin(ang), np.cos(r)], axis=1)
        s = 1.0
        for _ in range(40):
            P = build(s)
            s *= diam_deg / _diam_deg(P)
        P = build(s)
        if _convex_ccw(P) and _max_edge_deg(P) < 89.0:
            return P


PLACES = ["random", "random", "random", "north_inside", "south_inside", "pole_corner", "antimeridian", "corner_on_180", "prime"]


def _place(rng, P, place):
    """rigid motion of P (rows unit vectors) to the named place; returns lon, lat (deg) as they will be given to uxarray"""
    if place == "random":
        Q = P @ _rand_rot(rng).T
    elif place in ("north_inside", "south_inside"):
        ctr = P.mean(axis=0)
        ctr /= np.linalg.norm(ctr)
        w = rng.uniform(0.0, 0.5, len(P))
        tgt = (w[:, None] * P).sum(axis=0) + ctr      # a point inside the polygon
        tgt /= np.linalg.norm(tgt)
        Q = P @ _rot_to(tgt, np.array([0.0, 0.0, 1.0])).T
        if place == "south_inside":
            Q = Q @ np.diag([1.0, -1.0, -1.0]).T
    elif place == "pole_corner":
        sgn = rng.choice([1.0, -1.0])
        Q = P @ _rot_to(P[0], np.array([0.0, 0.0, sgn])).T
    else:
        ctr = P.mean(axis=0)
        ctr /= np.linalg.norm(ctr)
        lat0 = np.deg2rad(rng.uniform(-55, 55) if place != "prime" else rng.uniform(-5, 5))
        lon0 = math.pi if place in ("antimeridian", "corner_on_180") else 0.0
        spin = rng.uniform(0, 2 * np.pi)
        Rz = np.array([[math.cos(spin), -math.sin(spin), 0], [math.sin(spin), math.cos(spin), 0], [0, 0, 1]])
        tgt = np.array([math.cos(lat0) * math.cos(lon0), math.cos(lat0) * math.sin(lon0), math.sin(lat0)])
        Q = P @ Rz.T @ _rot_to(ctr, tgt).T
        if place == "corner_on_180":
            lo = math.atan2(Q[0, 1], Q[0, 0])
            a = math.pi - lo
            R = np.array([[math.cos(a), -math.sin(a), 0], [math.sin(a), math.cos(a), 0], [0, 0, 1]])
            Q = Q @ R.T
    lon, lat = _lonlat(Q)
    if place == "pole_corner":
        lat[0] = 90.0 if Q[0, 2] > 0 else -90.0
        lon[0] = rng.uniform(-180, 180)
    if place == "corner_on_180":
        lon[0] = 180.0 if rng.random() < 0.5 else -180.0
    return lon, lat


def _batch(rng, n_faces, dlo, dhi):
    """list of faces: dict(lon, lat, n, place); diameters uniformly in (dlo, dhi]"""
    out = []
    for k in range(n_faces):
        n = 3 + k % 6
        place = PLACES[(k // 6) % len(PLACES)]
        diam = float(rng.uniform(dlo, dhi))
        P = _gen_polygon(rng, n, diam)
        lon, lat = _place(rng, P, place)
        out.append({"lon": lon, "lat": lat, "n": n, "place": place})
    return out


def _assemble(faces, n_max=8, shift=None):
    """one grid description with all faces as isolated faces; shift[i] rotates the start corner of face i"""
    lon, lat, rows = [], [], []
    for i, f in enumerate(faces):
        base = len(lon)
        lon += list(f["lon"])
        lat += list(f["lat"])
        ids = list(range(base, base + f["n"]))
        if shift is not None:
            k = shift[i] % f["n"]
            ids = ids[k:] + ids[:k]
        rows.append(ids + [FILL] * (n_max - f["n"]))
    return np.array(lon, float), np.array(lat, float), np.array(rows, dtype=np.int64)


def _grid(lon, lat, rows):
    return ux.Grid.from_topology(node_lon=np.array(lon, float), node_lat=np.array(lat, float),
                                 face_node_connectivity=np.array(rows), fill_value=FILL)


# ------------------------------------------------------------------------------------------------ run
class _Run:
    def __init__(self):
        self.failures = []
        self.cases = 0

    def fail(self, key, what, violated, inputs, observed=None, expected=None):
        self.failures.append({"key": key, "what": what, "violated": violated, "inputs": inputs,
                              "observed": observed, "expected": expected})


def _areas(run, g, site, inputs, *args, **kw):
    """call compute_face_areas; exceptions are failures keyed by type + call site"""
    try:
        a, _ = g.compute_face_areas(*args, **kw)
        return np.array(a, float)
    except Exception as e:  # noqa: BLE001
        run.fail(f"raises:{type(e).__name__}:{site}", f"compute_face_areas{args}{kw} raises {type(e).__name__}: {e}",
                 "the area reported for a face is the area of the spherical polygon", inputs)
        return None


def _face_desc(f):
    return {"lon": [round(float(x), 6) for x in f["lon"]], "lat": [round(float(x), 6) for x in f["lat"]], "place": f.get("place")}


def _rel(a, b):
    return np.abs(np.asarray(a) - np.asarray(b)) / np.maximum(np.abs(np.asarray(b)), 1e-300)


def _check_batch(run, rng, faces, label, tier, distinct):
    P = [_vec(f["lon"], f["lat"]) for f in faces]
    ex = np.array([exact_area(p) for p in P])
    gi = np.array([girard_area(p) for p in P])
    assert np.all(np.abs(ex - gi) <= 1e-10 + 1e-9 * ex), "oracle self-check failed (fan excess vs Girard)"
    diam = np.array([_diam_deg(p) for p in P])
    tol = np.array([_band(d)[1] for d in diam])
    nn = np.array([f["n"] for f in faces])
    for f in faces:
        distinct.add((tuple(np.round(f["lon"], 9)), tuple(np.round(f["lat"], 9))))
    lon, lat, rows = _assemble(faces)
    g = _grid(lon, lat, rows)
    base_in = {"batch": label, "n_faces": len(faces), "construction": "isolated generated convex faces in one grid (from_topology)"}

    # ---- default rule: non-negative, accuracy band
    a0 = _areas(run, g, "default", base_in)
    if a0 is None:
        return
    run.cases += 2 * len(faces)
    if np.any(a0 < 0) or not np.all(np.isfinite(a0)):
        i = int(np.argmin(np.where(np.isfinite(a0), a0, -np.inf)))
        run.fail("negative_or_nan_area:default", "a face area is negative or not finite", "the area is never negative",
                 dict(base_in, face=_face_desc(faces[i])), observed=float(a0[i]))
    bad = _rel(a0, ex) > tol
    if bad.any():
        for d, t in BANDS:
            sel = bad & (tol == t)
            if sel.any():
                i = int(np.argmax(np.where(sel, _rel(a0, ex), 0)))
                run.fail(f"accuracy:default_rule:band<={d:g}deg", f"default-rule area off by relative {float(_rel(a0, ex)[i]):.3g} (> {t:g})",
                         f"with the default rule within a relative {t:g} for convex faces up to {d:g} degrees across",
                         dict(base_in, face=_face_desc(faces[i]), degrees_across=float(diam[i])), observed=float(a0[i]), expected=float(ex[i]))

    # ---- every rule and order: non-negative; convergence (sup over the batch of the relative error)
    for rule, orders in (("triangular", TRI_ORDERS), ("gaussian", GAUSS_ORDERS)):
        errs = []
        for o in orders:
            a = _areas(run, g, f"{rule}:{o}", base_in, rule, o)
            if a is None:
                errs.append(None)
                continue
            run.cases += len(faces)
            if np.any(a < 0) or not np.all(np.isfinite(a)):
                i = int(np.argmin(np.where(np.isfinite(a), a, -np.inf)))
                run.fail(f"negative_or_nan_area:{rule}:{o}", "a face area is negative or not finite", "the area is never negative",
                         dict(base_in, rule=rule, order=o, face=_face_desc(faces[i])), observed=float(a[i]))
            errs.append(float(np.max(_rel(a, ex))))
        run.cases += len(orders)
        for k in range(1, len(orders)):
            if errs[k] is None or errs[k - 1] is None:
                continue
            if errs[k] > 3.0 * errs[k - 1] + 1e-11:
                run.fail(f"convergence:{rule}:error_grows:order{orders[k - 1]}->{orders[k]}",
                         f"largest relative error grows from {errs[k - 1]:.3g} (order {orders[k - 1]}) to {errs[k]:.3g} (order {orders[k]})",
                         "converges to the exact spherical excess as the quadrature order rises", dict(base_in, rule=rule),
                         observed=errs)
        if errs[-1] is not None and float(diam.max()) <= 30.0 and errs[-1] > 1e-6:
            run.fail(f"convergence:{rule}:top_order_error", f"relative error {errs[-1]:.3g} at the highest order {orders[-1]} on faces <= 30 deg across",
                     "converges to the exact spherical excess as the quadrature order rises", dict(base_in, rule=rule), observed=errs)

    # ---- spherical vs Cartesian corner input
    ac = _areas(run, g, "latlon=False", base_in, latlon=False)
    if ac is not None:
        run.cases += len(faces)
        r = _rel(ac, a0)
        if np.any(r > REL):
            i = int(np.argmax(r))
            run.fail("latlon_vs_cartesian:compute_face_areas(latlon=False)",
                     "compute_face_areas(latlon=False) differs from compute_face_areas(latlon=True)",
                     "the value does not depend on whether spherical or Cartesian corner coordinates are used",
                     dict(base_in, face=_face_desc(faces[i])), observed=float(ac[i]), expected=float(a0[i]))
    # ---- grid whose source has Cartesian node coordinates only
    x, y, z = mg.xyz_of(lon, lat)
    ds = xr.Dataset({"node_x": (["n_node"], x), "node_y": (["n_node"], y), "node_z": (["n_node"], z),
                     "face_node_connectivity": (["n_face", "n_max_face_nodes"], rows.copy())})
    try:
        gx = ux.Grid.from_dataset(ds, source_grid_spec="UGRID")
        ax_ = np.array(gx.face_areas.values, float)
        run.cases += len(faces)
        r = _rel(ax_, a0)
        if np.any(r > REL):
            i = int(np.argmax(r))
            run.fail("latlon_vs_cartesian:grid_from_xyz_only_source", "face_areas of a grid built from Cartesian node coordinates differ",
                     "the value does not depend on whether spherical or Cartesian corner coordinates are used",
                     dict(base_in, face=_face_desc(faces[i])), observed=float(ax_[i]), expected=float(a0[i]))
    except Exception as e:  # noqa: BLE001
        run.fail(f"raises:{type(e).__name__}:face_areas:xyz_only_source", f"face_areas on an xyz-only grid raises {type(e).__name__}: {e}",
                 "the area reported for a face", base_in)

    # ---- start corner
    shift = [rng.integers(1, f["n"]) for f in faces]
    lon2, lat2, rows2 = _assemble(faces, shift=shift)
    a2 = _areas(run, _grid(lon2, lat2, rows2), "start_corner", base_in)
    if a2 is not None:
        run.cases += len(faces)
        r = _rel(a2, a0)
        tri = nn == 3
        if np.any(r[tri] > REL):
            i = int(np.flatnonzero(tri)[np.argmax(r[tri])])
            run.fail("start_corner:triangle", "the area of a triangle depends on which corner the node list starts from",
                     "the value does not depend on which corner the face's node list starts from",
                     dict(base_in, face=_face_desc(faces[i]), start_shift=int(shift[i])), observed=float(a2[i]), expected=float(a0[i]))
        over = (~tri) & (np.abs(a2 - a0) > 2 * tol * ex + REL * ex)
        if np.any(over):
            i = int(np.flatnonzero(over)[0])
            run.fail("start_corner:polygon", "the area of a polygon changes beyond the accuracy band when the start corner changes",
                     "the value does not depend on which corner the face's node list starts from (to the band accuracy)",
                     dict(base_in, face=_face_desc(faces[i]), start_shift=int(shift[i])), observed=float(a2[i]), expected=float(a0[i]))

    # ---- node / face renumbering (same start corners): identical computation per face
    mesh = {"name": label, "lon": lon, "lat": lat, "faces": rows, "closed": False, "n_node": len(lon), "n_face": len(faces)}
    prng = random.Random(int(rng.integers(0, 2 ** 31)))
    m2 = mg.renumber(mesh, prng, start=False)
    a3 = _areas(run, _grid(m2["lon"], m2["lat"], m2["faces"]), "renumbered", base_in)
    if a3 is not None:
        run.cases += len(faces)
        r = _rel(a3, a0[np.array(m2["face_order"])])
        if np.any(r > REL):
            i = int(m2["face_order"][int(np.argmax(r))])
            run.fail("renumbering", "the area of a face changes when nodes and faces are renumbered",
                     "the value does not depend on how nodes and faces are numbered", dict(base_in, face=_face_desc(faces[i])),
                     observed=float(a3[int(np.argmax(r))]), expected=float(a0[i]))

    # ---- rigid rotation
    axis = rng.normal(size=3)
    m3 = mg.rotate_mesh(mesh, axis, float(rng.uniform(5, 355)))
    a4 = _areas(run, _grid(m3["lon"], m3["lat"], m3["faces"]), "rotated", base_in)
    if a4 is not None:
        run.cases += len(faces)
        r = _rel(a4, a0)
        if np.any(r > REL):
            i = int(np.argmax(r))
            run.fail("rotation", "the area of a face changes under a rigid rotation of the grid",
                     "the value does not depend on a rigid rotation of the grid", dict(base_in, face=_face_desc(faces[i]), axis=axis.tolist()),
                     observed=float(a4[i]), expected=float(a0[i]))

    # ---- additivity: every n-gon (n >= 4) against its fan pieces from corner 0 (same fan: 1e-9) and from corner 1 (band)
    pieces, owner, kind = [], [], []
    for i, f in enumerate(faces):
        n = f["n"]
        if n < 4:
            continue
        for start, kd in ((0, "fan_from_corner0"), (1, "fan_from_corner1")):
            ids = [(start + j) % n for j in range(n)]
            for t in range(1, n - 1):
                tri_ids = [ids[0], ids[t], ids[t + 1]]
                pieces.append({"lon": f["lon"][tri_ids], "lat": f["lat"][tri_ids], "n": 3})
                owner.append(i)
                kind.append(kd)
    if pieces:
        lonp, latp, rowsp = _assemble(pieces, n_max=3)
        ap = _areas(run, _grid(lonp, latp, rowsp), "pieces", base_in)
        if ap is not None:
            owner, kind = np.array(owner), np.array(kind)
            for kd, lim in (("fan_from_corner0", None), ("fan_from_corner1", "band")):
                sums = np.zeros(len(faces))
                np.add.at(sums, owner[kind == kd], ap[kind == kd])
                sel = nn >= 4
                run.cases += int(sel.sum())
                allowed = REL * ex if lim is None else (2 * tol * ex + REL * ex)
                over = sel & (np.abs(sums - a0) > allowed)
                if np.any(over):
                    i = int(np.flatnonzero(over)[0])
                    run.fail(f"additivity:{kd}", "the area of a face differs from the sum of the areas of its triangular pieces",
                             "areas of a face and of the pieces of any subdivision of it add up", dict(base_in, face=_face_desc(faces[i])),
                             observed=float(sums[i]), expected=float(a0[i]))

    # ---- cached face_areas == fresh default computation, also around calls with other arguments
    run.cases += 4
    try:
        g1 = _grid(lon, lat, rows)
        c1 = np.array(g1.face_areas.values, float)
        g1.compute_face_areas("gaussian", 2)
        c2 = np.array(g1.face_areas.values, float)
        g2 = _grid(lon, lat, rows)
        g2.compute_face_areas("triangular", 1)
        g2.compute_face_areas("gaussian", 3, latlon=False)
        c3 = np.array(g2.face_areas.values, float)
        tot = float(g2.calculate_total_face_area())
        if not np.allclose(c1, a0, rtol=1e-12, atol=0):
            run.fail("cache:face_areas_differs_from_default", "grid.face_areas differs from a fresh default computation",
                     "the cached face_areas equal a fresh default computation", base_in)
        if not np.array_equal(c1, c2):
            run.fail("cache:face_areas_changed_by_compute_face_areas", "grid.face_areas changes after compute_face_areas('gaussian', 2)",
                     "the cached face_areas equal a fresh default computation", base_in)
        if not np.allclose(c3, a0, rtol=1e-12, atol=0):
            i = int(np.argmax(_rel(c3, a0)))
            run.fail("cache:face_areas_after_other_rule", "grid.face_areas read after compute_face_areas with other arguments is not the default-rule result",
                     "the cached face_areas equal a fresh default computation", base_in, observed=float(c3[i]), expected=float(a0[i]))
        if not math.isclose(tot, float(a0.sum()), rel_tol=1e-12):
            run.fail("total:calculate_total_face_area", "calculate_total_face_area() is not the sum of the default-rule face areas",
                     "areas add up", base_in, observed=tot, expected=float(a0.sum()))
    except Exception as e:  # noqa: BLE001
        run.fail(f"raises:{type(e).__name__}:face_areas_cache_sequence", f"face_areas / compute_face_areas sequence raises {type(e).__name__}: {e}",
                 "the cached face_areas equal a fresh default computation", base_in)


# ------------------------------------------------------------------------------------------------ equator-mirrored faces, Cartesian input
def _lonlat_cell(lon0, dlon, L):
    """regular lon/lat cell straddling the equator symmetrically, counter-clockwise from the SW corner"""
    lon1 = ((lon0 + dlon + 180.0) % 360.0) - 180.0
    return {"lon": np.array([lon0, lon1, lon1, lon0], float), "lat": np.array([-L, -L, L, L], float), "n": 4, "place": "lonlat_cell_on_equator"}


def _mirror_polygon(lonc, r_deg, thetas, east_point):
    """convex polygon with corners on the small circle of angular radius r_deg around (lonc, 0), symmetric about the equator:
    northern corners at the azimuths thetas (rad, from east towards north, increasing), their mirror images in the south, optionally the
    corner on the equator in the east.  Listed counter-clockwise from the south-westernmost corner, so that the first and the last listed
    corners are mirror images (same longitude, opposite latitude).  The southern lon/lat are copies of the northern ones (lat negated)."""
    r, lc = math.radians(r_deg), math.radians(lonc)
    c = np.array([math.cos(lc), math.sin(lc), 0.0])
    e = np.array([-math.sin(lc), math.cos(lc), 0.0])
    N = np.array([math.cos(r) * c + math.sin(r) * (math.cos(t) * e + math.sin(t) * np.array([0.0, 0.0, 1.0])) for t in thetas])
    lon_n, lat_n = _lonlat(N)
    lon = list(lon_n[::-1])
    lat = list(-lat_n[::-1])
    if east_point:
        E = math.cos(r) * c + math.sin(r) * e
        lon.append(math.degrees(math.atan2(E[1], E[0])))
        lat.append(0.0)
    lon += list(lon_n)
    lat += list(lat_n)
    return {"lon": np.array(lon, float), "lat": np.array(lat, float), "n": len(lon), "place": "mirror_symmetric_about_equator"}


def _equator_faces(rng, tier):
    faces = []
    # regular lon/lat cells (great-circle sides through the corners), prime meridian, antimeridian, anywhere
    for lon0, dlon, L in ((0.0, 10.0, 10.0), (10.0, 10.0, 10.0), (-5.0, 10.0, 5.0), (175.0, 10.0, 10.0), (-130.0, 2.0, 1.0), (40.0, 5.0, 2.5),
                          (90.0, 20.0, 10.0), (-90.0, 30.0, 15.0), (165.0, 30.0, 5.0), (-60.0, 1.0, 1.0), (120.0, 40.0, 20.0), (-20.0, 40.0, 25.0),
                          (60.0, 4.0, 4.0), (-179.0, 8.0, 3.0)):
        faces.append(_lonlat_cell(lon0, dlon, L))
    n_rand = 36 if tier == "quick" else 360
    for k in range(n_rand):
        if k % 6 == 0:
            faces.append(_lonlat_cell(float(rng.uniform(-180, 180)), float(rng.uniform(1, 40)), float(rng.uniform(0.5, 25))))
            continue
        n = 4 + k % 5                       # 4..8 corners
        kn, east = n // 2, bool(n % 2)
        while True:
            th = np.sort(rng.uniform(0.3 if east else 0.15, math.pi - 0.15, kn))
            if kn == 1 or np.diff(th).min() >= 0.3:
                break
        faces.append(_mirror_polygon(float(rng.uniform(-180, 180)), float(rng.uniform(1.0, 32.0)), th, east))
    return faces


def _check_equator_mirror(run, rng, tier, distinct):
    """Cartesian corner input on faces (>= 4 corners) symmetric about the equator, each listed from EVERY start corner: two listed
    neighbours that are mirror images have identical x and y and differ in z only."""
    scen = "equator_mirror_faces"
    faces = _equator_faces(rng, tier)
    P = [_vec(f["lon"], f["lat"]) for f in faces]
    for p, f in zip(P, faces):
        assert _convex_ccw(p) and _max_edge_deg(p) < 90.0 and _diam_deg(p) <= 65.0, "generated face outside the quantifier"
        assert f["lon"][0] == f["lon"][-1] and f["lat"][0] == -f["lat"][-1] != 0.0, "first/last corners are not mirror images"
        distinct.add((tuple(np.round(f["lon"], 9)), tuple(np.round(f["lat"], 9))))
    ex = np.array([exact_area(p) for p in P])
    gi = np.array([girard_area(p) for p in P])
    assert np.all(np.abs(ex - gi) <= 1e-10 + 1e-9 * ex), "oracle self-check failed (fan excess vs Girard)"
    diam = np.array([_diam_deg(p) for p in P])
    tol = np.array([_band(d)[1] for d in diam])
    small = diam <= 30.0
    base_in = {"batch": scen, "n_faces": len(faces),
               "construction": "isolated convex faces symmetric about the equator (regular lon/lat cells and mirror-symmetric 4..8-gons) in one grid "
                               "(from_topology), all faces listed from the given start corner"}
    from uxarray.grid.area import get_all_face_area_from_coords
    seen = set()

    def fail(key, *a, **kw):
        if key not in seen:
            seen.add(key)
            run.fail(key, *a, **kw)

    ac0 = None
    for s in range(8):
        shift = [s] * len(faces)
        lon, lat, rows = _assemble(faces, shift=shift)
        # is (first, last) of the listed ring a mirror pair ?  (part of the key: the two kinds of start corner)
        mirrored = np.array([lon[r[0]] == lon[r[f["n"] - 1]] and lat[r[0]] == -lat[r[f["n"] - 1]] and lat[r[0]] != 0.0
                             for r, f in zip(rows, faces)])
        kind = np.where(mirrored, "first_last_mirrored", "other_start")
        inp = dict(base_in, start_shift=s)
        g = _grid(lon, lat, rows)
        all_ = _areas(run, g, f"{scen}:latlon=True", inp)
        ac = _areas(run, g, f"{scen}:latlon=False", inp, latlon=False)
        cands = []                      # (name of the Cartesian path, areas)
        if ac is not None:
            cands.append(("compute_face_areas(latlon=False)", ac))
        # grid whose source has Cartesian node coordinates only (x, y of mirrored corners bit-identical)
        x, y, z = mg.xyz_of(lon, lat)
        ds = xr.Dataset({"node_x": (["n_node"], x), "node_y": (["n_node"], y), "node_z": (["n_node"], z),
                         "face_node_connectivity": (["n_face", "n_max_face_nodes"], rows.copy())})
        try:
            gx = ux.Grid.from_dataset(ds, source_grid_spec="UGRID")
            axc, _ = gx.compute_face_areas(latlon=False)
            cands.append(("grid_from_xyz_only_source.compute_face_areas(latlon=False)", np.array(axc, float)))
        except Exception as e:  # noqa: BLE001
            fail(f"raises:{type(e).__name__}:{scen}:xyz_only_source:latlon=False", f"compute_face_areas(latlon=False) on an xyz-only grid raises "
                 f"{type(e).__name__}: {e}", "the area reported for a face", inp)
        # the coordinate-level entry point with coords_type='cartesian'
        try:
            npf = np.array([f["n"] for f in faces], dtype=np.int64)
            ad, _ = get_all_face_area_from_coords(np.array(x, float), np.array(y, float), np.array(z, float), rows, npf, 3,
                                                  "triangular", 4, "cartesian")
            cands.append(("get_all_face_area_from_coords(coords_type='cartesian')", np.array(ad, float)))
        except Exception as e:  # noqa: BLE001
            fail(f"raises:{type(e).__name__}:{scen}:get_all_face_area_from_coords:cartesian", f"get_all_face_area_from_coords(..., 'cartesian') raises "
                 f"{type(e).__name__}: {e}", "the area reported for a face", inp)

        for name, a in cands:
            run.cases += 3 * len(faces)
            # never negative
            if np.any(a < 0) or not np.all(np.isfinite(a)):
                i = int(np.argmin(np.where(np.isfinite(a), a, -np.inf)))
                fail(f"negative_or_nan_area:{scen}:{name}", "a face area from Cartesian corners is negative or not finite",
                     "the area is never negative", dict(inp, face=_face_desc(faces[i])), observed=float(a[i]))
                continue
            # exact spherical excess, default rule, accuracy band
            bad = _rel(a, ex) > tol
            for i in np.flatnonzero(bad):
                d, t = _band(diam[i])
                key = f"accuracy:default_rule:cartesian_input:{scen}:{kind[i]}:{name}:band<={d:g}deg"
                if key in seen:
                    continue
                fail(key, f"default-rule area from Cartesian corners off by relative {float(_rel(a, ex)[i]):.3g} (> {t:g})",
                     f"with the default rule within a relative {t:g} for convex faces up to {d:g} degrees across (Cartesian corner coordinates)",
                     dict(inp, face=_face_desc(faces[i]), corners=int(faces[i]["n"]), degrees_across=float(diam[i])),
                     observed=float(a[i]), expected=float(ex[i]))
            # Cartesian vs lon/lat input: same computation
            if all_ is not None:
                r = _rel(a, all_)
                for kd in ("first_last_mirrored", "other_start"):
                    sel = (kind == kd) & (r > REL)
                    if sel.any():
                        i = int(np.flatnonzero(sel)[np.argmax(r[sel])])
                        fail(f"latlon_vs_cartesian:{scen}:{kd}:{name}", f"{name} differs from compute_face_areas(latlon=True)",
                             "the value does not depend on whether spherical or Cartesian corner coordinates are used",
                             dict(inp, face=_face_desc(faces[i]), corners=int(faces[i]["n"])), observed=float(a[i]), expected=float(all_[i]))
        if ac is None:
            continue
        # start corner, Cartesian path: against the listing from the first start corner (other fan: band accuracy)
        if ac0 is None:
            ac0, shift0 = ac, s
        else:
            nn = np.array([f["n"] for f in faces])
            same = (s % nn) == (shift0 % nn)
            run.cases += len(faces)
            over = np.abs(ac - ac0) > np.where(same, REL * ex, 2 * tol * ex + REL * ex)
            if over.any():
                i = int(np.flatnonzero(over)[0])
                fail(f"start_corner:cartesian_input:{scen}", "the area of a polygon from Cartesian corners changes beyond the accuracy band when the "
                     "start corner changes", "the value does not depend on which corner the face's node list starts from (to the band accuracy)",
                     dict(inp, face=_face_desc(faces[i]), corners=int(faces[i]["n"]), compared_with_start_shift=shift0),
                     observed=float(ac[i]), expected=float(ac0[i]))
        # rigid rotation, Cartesian path (same start corners: the same fan, rotated)
        mesh = {"name": scen, "lon": lon, "lat": lat, "faces": rows, "closed": False, "n_node": len(lon), "n_face": len(faces)}
        axis = rng.normal(size=3)
        m3 = mg.rotate_mesh(mesh, axis, float(rng.uniform(5, 355)))
        ar = _areas(run, _grid(m3["lon"], m3["lat"], m3["faces"]), f"{scen}:rotated:latlon=False", inp, latlon=False)
        if ar is not None:
            run.cases += len(faces)
            r = _rel(ar, ac)
            if np.any(r > REL):
                i = int(np.argmax(r))
                fail(f"rotation:cartesian_input:{scen}:{kind[i]}", "the area of a face from Cartesian corners changes under a rigid rotation of the grid",
                     "the value does not depend on a rigid rotation of the grid", dict(inp, face=_face_desc(faces[i]), axis=axis.tolist()),
                     observed=float(ac[i]), expected=float(ar[i]))
        # convergence on the Cartesian path: highest gaussian order on the faces <= 30 deg across
        if s in (0, 1) and small.any():
            a10 = _areas(run, g, f"{scen}:gaussian:10:latlon=False", inp, "gaussian", 10, latlon=False)
            if a10 is not None:
                run.cases += int(small.sum())
                r = np.where(small, _rel(a10, ex), 0.0)
                if np.any(r > 1e-6):
                    i = int(np.argmax(r))
                    fail(f"convergence:gaussian:top_order_error:cartesian_input:{scen}:{kind[i]}",
                         f"relative error {float(r[i]):.3g} at gaussian order 10 from Cartesian corners on a face <= 30 deg across",
                         "converges to the exact spherical excess as the quadrature order rises", dict(inp, face=_face_desc(faces[i])),
                         observed=float(a10[i]), expected=float(ex[i]))
    return faces


def _check_meshes(run, tier, seed, distinct):
    """catalogue meshes: per-face accuracy for the faces inside the quantifier, 4*pi for closed meshes, cache"""
    for m in mg.catalogue(tier, seed):
        U = _vec(m["lon"], m["lat"])
        polys = [U[mg.face_corners(m, f)] for f in range(m["n_face"])]
        okq = np.array([_convex_ccw(p, 1e-12) and _max_edge_deg(p) < 90.0 for p in polys])
        diam = np.array([_diam_deg(p) for p in polys])
        tol = np.array([(_band(d)[1] or np.nan) for d in diam])
        ex = np.array([exact_area(p) for p in polys])
        inputs = {"mesh": m["name"], "n_face": m["n_face"]}
        distinct.add(("mesh", m["name"]))
        g = grid_of(m)
        a = _areas(run, g, "catalogue_mesh", inputs)
        if a is None:
            continue
        sel = okq & np.isfinite(tol)
        run.cases += int(sel.sum()) + m["n_face"]
        if np.any(a < 0):
            run.fail("negative_or_nan_area:default", "a face area is negative", "the area is never negative", inputs, observed=float(a.min()))
        bad = sel & (_rel(a, ex) > np.where(np.isfinite(tol), tol, 1.0))
        if bad.any():
            i = int(np.flatnonzero(bad)[0])
            d, t = _band(diam[i])
            run.fail(f"accuracy:default_rule:band<={d:g}deg", f"default-rule area of face {i} off by relative {float(_rel(a, ex)[i]):.3g} (> {t:g})",
                     f"with the default rule within a relative {t:g} for convex faces up to {d:g} degrees across",
                     dict(inputs, face=i, degrees_across=float(diam[i])), observed=float(a[i]), expected=float(ex[i]))
        if m["closed"] and okq.all() and np.isfinite(tol).all():
            run.cases += 2
            t = float(tol.max())
            tot = float(a.sum())
            if abs(tot - 4 * math.pi) > t * 4 * math.pi:
                run.fail("closed_mesh_sum_4pi:default_rule", f"faces of a closed mesh sum to {tot!r}, not 4*pi within relative {t:g}",
                         "the faces of a grid tiling the sphere sum to 4*pi to the same accuracy", inputs, observed=tot, expected=4 * math.pi)
            try:
                tt = float(g.calculate_total_face_area("gaussian", 10))
                if abs(tt - 4 * math.pi) > 1e-6 * 4 * math.pi and float(diam.max()) <= 30.0:
                    run.fail("closed_mesh_sum_4pi:gaussian10", f"gaussian order 10 total {tt!r} is not 4*pi within 1e-6 (faces <= 30 deg)",
                             "converges to the exact spherical excess; the faces of a grid tiling the sphere sum to 4*pi", inputs, observed=tt,
                             expected=4 * math.pi)
            except Exception as e:  # noqa: BLE001
                run.fail(f"raises:{type(e).__name__}:calculate_total_face_area", f"calculate_total_face_area raises {e}", "areas add up", inputs)
        # cached
        run.cases += 1
        try:
            c = np.array(g.face_areas.values, float)
            if not np.allclose(c, a, rtol=1e-12, atol=0):
                run.fail("cache:face_areas_differs_from_default", "grid.face_areas differs from a fresh default computation",
                         "the cached face_areas equal a fresh default computation", inputs)
        except Exception as e:  # noqa: BLE001
            run.fail(f"raises:{type(e).__name__}:face_areas", f"face_areas raises {type(e).__name__}: {e}", "cached face_areas", inputs)


def _check_tables(run):
    from uxarray.grid.area import get_gauss_quadratureDG, get_tri_quadratureDG
    for n in GAUSS_ORDERS:
        run.cases += 3
        inputs = {"table": "get_gauss_quadratureDG", "order": n}
        try:
            dG, dW = get_gauss_quadratureDG(n)
        except Exception as e:  # noqa: BLE001
            run.fail(f"raises:{type(e).__name__}:get_gauss_quadratureDG:{n}", f"table raises {e}", "every supported order", inputs)
            continue
        dG, dW = np.asarray(dG, float), np.asarray(dW, float)
        if dG.shape != (1, n) or dW.shape != (n,):
            run.fail(f"table:gaussian:{n}:shape", "unexpected table shape", "quadrature table of n points", inputs, observed=[list(dG.shape), list(dW.shape)])
            continue
        if not np.all(dW > 0):
            run.fail(f"table:gaussian:{n}:weight_not_positive", "a weight is not positive", "weights positive", inputs, observed=dW.tolist())
        if abs(dW.sum() - 1.0) > 1e-12:
            run.fail(f"table:gaussian:{n}:weights_do_not_sum_to_1", f"weights sum to {dW.sum()!r}", "weights sum to 1 after scaling to [0,1]", inputs)
        if not (np.all(dG >= 0) and np.all(dG <= 1)):
            run.fail(f"table:gaussian:{n}:point_outside", "a point lies outside [0,1]", "points inside the reference domain", inputs, observed=dG.tolist())
        # moments of the rule on [0,1]: exact at least to degree n (every n-point interpolatory rule) - sanity of the literals
        for k in range(0, n):
            if abs(float(np.sum(dW * dG[0] ** k)) - 1.0 / (k + 1)) > 1e-12:
                run.fail(f"table:gaussian:{n}:moment", f"the rule does not integrate x^{k} exactly", "converges as the order rises (valid quadrature table)", inputs)
                break
    for o in TRI_ORDERS:
        run.cases += 3
        inputs = {"table": "get_tri_quadratureDG", "order": o}
        try:
            dG, dW = get_tri_quadratureDG(o)
        except Exception as e:  # noqa: BLE001
            run.fail(f"raises:{type(e).__name__}:get_tri_quadratureDG:{o}", f"table raises {e}", "every supported order", inputs)
            continue
        dG, dW = np.asarray(dG, float), np.asarray(dW, float)
        if dG.ndim != 2 or dG.shape[1] != 3 or dW.shape != (dG.shape[0],):
            run.fail(f"table:triangular:{o}:shape", "unexpected table shape", "barycentric quadrature table", inputs, observed=[list(dG.shape), list(dW.shape)])
            continue
        if not np.all(dW > 0):
            run.fail(f"table:triangular:{o}:weight_not_positive", "a weight is not positive", "weights positive", inputs, observed=dW.tolist())
        if abs(dW.sum() - 1.0) > 1e-12:
            run.fail(f"table:triangular:{o}:weights_do_not_sum_to_1", f"weights sum to {dW.sum()!r}", "weights sum to 1", inputs)
        if not (np.all(dG >= 0) and np.all(dG <= 1) and np.allclose(dG.sum(axis=1), 1.0, rtol=0, atol=1e-12)):
            run.fail(f"table:triangular:{o}:point_outside", "a point lies outside the reference triangle (barycentric rows must be in [0,1] and sum to 1)",
                     "points inside the reference domain", inputs)
        # linear moments: centroid of the rule is the centroid of the triangle (orders >= 1)
        if not np.allclose((dW[:, None] * dG).sum(axis=0), 1.0 / 3.0, rtol=0, atol=1e-12):
            run.fail(f"table:triangular:{o}:moment", "the rule does not integrate linear functions exactly", "valid quadrature table", inputs)


def _check_small_faces(run, rng, tier, distinct):
    """faces far below the sizes of the generated batches (0.002 .. 1 degree across), anywhere on the sphere: non-negative, the
    default rule and gaussian order 4 within a relative 1e-5 of the exact excess (looser than the property's 1e-6 because the
    oracle itself loses digits on such faces; a vanishing or wildly wrong area is what this looks for), spherical == Cartesian
    input, and the pieces of a fan subdivision add up"""
    faces, P_all = [], []
    places = [(0.0, 0.0), (37.0, 45.0), (179.9995, -20.0), (-120.0, -60.0), (10.0, 89.9), (200.0, -89.95), (0.0004, 12.0)]
    n_per = 4 if tier == "quick" else 30
    for (clon, clat) in places:
        c = _vec(clon, clat)
        e1 = np.cross([0.0, 0.0, 1.0], c)
        e1 = e1 / np.linalg.norm(e1)
        e2 = np.cross(c, e1)
        for _ in range(n_per):
            n = int(rng.integers(3, 9))
            size = np.deg2rad(10 ** rng.uniform(math.log10(0.002), 0.0)) / 2.0
            ang = (np.arange(n) + rng.uniform(-0.3, 0.3, n)) * (2 * np.pi / n) + rng.uniform(0, 2 * np.pi)
            r = size * rng.uniform(0.8, 1.0, n)
            Q = c[None, :] + (r * np.cos(ang))[:, None] * e1[None, :] + (r * np.sin(ang))[:, None] * e2[None, :]
            Q = Q / np.linalg.norm(Q, axis=1, keepdims=True)
            if not _convex_ccw(Q, eps=0.0):
                continue
            lon, lat = _lonlat(Q)
            faces.append({"lon": lon, "lat": lat, "n": n, "place": f"small@{clon:g},{clat:g}"})
            P_all.append(_vec(lon, lat))
    if not faces:
        return

    def excess(a, b, c):
        # triple product through differences (no cancellation for nearly coincident corners)
        return 2.0 * math.atan2(float(a @ np.cross(b - a, c - a)), 1.0 + float(a @ b) + float(b @ c) + float(c @ a))
    ex = np.array([abs(sum(excess(p[0], p[t], p[t + 1]) for t in range(1, len(p) - 1))) for p in P_all])
    for f in faces:
        distinct.add((tuple(np.round(f["lon"], 12)), tuple(np.round(f["lat"], 12))))
    lon, lat, rows = _assemble(faces)
    base_in = {"batch": "small_faces_0.002-1deg", "n_faces": len(faces), "construction": "isolated small convex faces in one grid (from_topology)"}
    tol = 1e-5
    for site, args in (("default", ()), ("gaussian:4", ("gaussian", 4))):
        a = _areas(run, _grid(lon, lat, rows), site, base_in, *args)
        if a is None:
            continue
        run.cases += len(faces)
        if np.any(a < 0) or not np.all(np.isfinite(a)):
            i = int(np.argmin(np.where(np.isfinite(a), a, -np.inf)))
            run.fail(f"negative_or_nan_area:small_faces:{site}", "a small face's area is negative or not finite", "the area is never negative",
                     dict(base_in, face=_face_desc(faces[i])), observed=float(a[i]))
        rel = _rel(a, ex)
        if np.any(rel > tol):
            i = int(np.argmax(rel))
            run.fail(f"accuracy:small_faces:{site}", f"area of a face {float(_diam_deg(P_all[i])):.4g} degrees across off by relative {float(rel[i]):.3g}",
                     "with the default rule within a relative 1e-6 for convex faces up to 10 degrees across",
                     dict(base_in, face=_face_desc(faces[i])), observed=float(a[i]), expected=float(ex[i]))
    # Cartesian corner coordinates
    try:
        gx = _grid(lon, lat, rows)
        ac = np.asarray(gx.compute_face_areas(latlon=False)[0], float)
        run.cases += len(faces)
        rel = _rel(ac, ex)
        if np.any(rel > tol):
            i = int(np.argmax(rel))
            run.fail("accuracy:small_faces:cartesian_input", f"area from Cartesian corners of a small face off by relative {float(rel[i]):.3g}",
                     "the value does not depend on whether spherical or Cartesian corner coordinates are used",
                     dict(base_in, face=_face_desc(faces[i])), observed=float(ac[i]), expected=float(ex[i]))
    except Exception as e:  # noqa: BLE001
        run.fail(f"raises:{type(e).__name__}:small_faces:cartesian_input", f"compute_face_areas(latlon=False) raises {type(e).__name__}: {e}"[:200],
                 "the value does not depend on whether spherical or Cartesian corner coordinates are used", base_in)
    # fan subdivision of every face into its triangles: the pieces add up
    tri_faces, owner = [], []
    for k, f in enumerate(faces):
        for t in range(1, f["n"] - 1):
            tri_faces.append({"lon": np.array([f["lon"][0], f["lon"][t], f["lon"][t + 1]]), "lat": np.array([f["lat"][0], f["lat"][t], f["lat"][t + 1]]),
                              "n": 3, "place": f["place"]})
            owner.append(k)
    tl, tt, tr = _assemble(tri_faces)
    at = _areas(run, _grid(tl, tt, tr), "default", dict(base_in, construction="fan triangles of the small faces"))
    a0 = _areas(run, _grid(lon, lat, rows), "default", base_in)
    if at is not None and a0 is not None:
        sums = np.zeros(len(faces))
        np.add.at(sums, np.array(owner), at)
        run.cases += len(faces)
        rel = _rel(sums, a0)
        if np.any(rel > 1e-5):
            i = int(np.argmax(rel))
            run.fail("additive:small_faces:fan_subdivision", "the areas of the fan triangles of a small face do not add up to the face's area",
                     "areas of a face and of the pieces of any subdivision of it add up", dict(base_in, face=_face_desc(faces[i])),
                     observed=float(sums[i]), expected=float(a0[i]))


def areas(tier, seed):
    rng = np.random.default_rng(seed * 104729 + 5)
    run = _Run()
    distinct = set()
    n_per = 108 if tier == "quick" else 540
    reps = 1 if tier == "quick" else 6
    samples = []
    for rep in range(reps):
        for dlo, dhi in ((2.0, 10.0), (10.0, 30.0), (30.0, 65.0)):
            faces = _batch(rng, n_per, dlo, dhi)
            _check_batch(run, rng, faces, f"generated_{dlo:g}-{dhi:g}deg", tier, distinct)
            if len(samples) < 3:
                samples.append(_face_desc(faces[0]))
    eq_faces = _check_equator_mirror(run, np.random.default_rng(seed * 7919 + 55), tier, distinct)
    _check_meshes(run, tier, seed, distinct)
    _check_small_faces(run, np.random.default_rng(seed * 31337 + 7), tier, distinct)
    _check_tables(run)
    bound = (f"{len(eq_faces)} convex faces symmetric about the equator (regular lon/lat cells, mirror-symmetric 4..8-gons; 1..65 deg across), each "
             f"listed from every start corner, Cartesian input (compute_face_areas(latlon=False), xyz-only source, get_all_face_area_from_coords "
             f"'cartesian') against the exact excess, lon/lat input, start corner, rotation, gaussian order 10; "f"{3 * reps} batches x {n_per} generated convex faces (3..8 corners, 2..65 deg across, edges < 90 deg; placed at random, around both "
             f"poles, with a pole as a corner, across the antimeridian, with a corner on +-180, on the prime meridian), each with start-corner "
             f"shift, renumbering, rigid rotation, Cartesian input, xyz-only source, fan subdivisions, all 15 rule/order pairs, cache sequences; "
             f"the meshgen catalogue ({tier}) for per-face accuracy and 4*pi of closed meshes; all 15 quadrature tables; small faces (0.002..1 degree across at 7 places incl. both poles and the antimeridian: non-negative, relative 1e-5, Cartesian input, fan additivity); area functions run compiled")
    return result(run.cases, len(distinct), run.failures, bound, samples)



def consumers(tier, seed):
    """the cached face areas a grid reports are unchanged by operations that only read them (shared machinery: standins.C03.consumers - every watched variable is compared with a copy taken before each of 20
    read-only operations: differences, gradients, aggregations, integration, remapping, subsetting, tree queries, plotting
    conversions, exports, area / bounds / dual construction)"""
    from .C03 import consumers as _consumers
    return _consumers(tier, seed, tables=('face_areas',), oracle_after=False)
