"""C08 bounded stand-in: reading from a grid never changes what any grid reports.

Reference semantics (the property statement itself): the value of observation X after a history H of read-only operations on one or
two grids must equal the value of X on a FRESHLY BUILT grid of the same mesh.  References are computed on fresh grids with the
library's module-level constants restored to their import-time snapshot, so they are "fresh process" values.

Comparison: ints / strings exact, floats 1e-12 (abs and rel); trees by their reported attributes and by query results; plotting objects
by their vertex arrays; exceptions by type (X raising on one side only is a difference).

Interpretations (documented, to avoid false alarms):
 * inventory properties (dims, sizes, coordinates, connectivity, descriptors) and to_xarray('ugrid') may GROW by derived variables
   computed so far (statement, 2nd sentence); each extra entry must hold the value a fully derived fresh grid holds.
 * whether a variable is dask-backed after chunk() is not a "value".
 * an observation that is not reproducible on two fresh grids (A-DET) is dropped from the alphabet and named in `bound`.
"""
import copy
import os
import pickle
import random
import subprocess
import sys
import tempfile
import time

import numpy as np
import xarray as xr

from . import meshgen as mg
from .common import grid_of, result

import uxarray as ux
import uxarray.constants as _uxconst
import uxarray.conventions.descriptors as _uxdesc
import uxarray.conventions.ugrid as _uxugrid
import cartopy.crs as ccrs

ATOL = RTOL = 1e-12
ROBINSON = ccrs.Robinson()


# ================================================================================================ module-level constants
def _is_const_name(n):
    return n.isupper() or (n[:1].isupper() and n.replace("_", "").isupper())


def _snap_module(mod):
    out = {}
    for n, v in vars(mod).items():
        if n.startswith("_") or not _is_const_name(n):
            continue
        if isinstance(v, (dict, list, tuple, set, str, int, float, bool, np.generic, type(None))):
            out[n] = copy.deepcopy(v)
    return out


_MODULES = {"uxarray.conventions.ugrid": _uxugrid, "uxarray.conventions.descriptors": _uxdesc, "uxarray.constants": _uxconst}
_SNAP = {mn: _snap_module(m) for mn, m in _MODULES.items()}          # taken at import of this stand-in, before any grid exists


def _deep_same(a, b):
    if type(a) is not type(b) and not (isinstance(a, (int, float, np.generic)) and isinstance(b, (int, float, np.generic))):
        return False
    if isinstance(a, dict):
        return list(a.keys()) == list(b.keys()) and all(_deep_same(a[k], b[k]) for k in a)
    if isinstance(a, (list, tuple)):
        return len(a) == len(b) and all(_deep_same(x, y) for x, y in zip(a, b))
    if isinstance(a, np.ndarray):
        return isinstance(b, np.ndarray) and a.shape == b.shape and bool(np.array_equal(a, b))
    try:
        return bool(a == b)
    except Exception:
        return False


def constants_changed():
    """names 'module.NAME' whose current value differs from the import-time snapshot"""
    out = []
    for mn, mod in _MODULES.items():
        for n, v0 in _SNAP[mn].items():
            if not hasattr(mod, n) or not _deep_same(getattr(mod, n), v0):
                out.append(f"{mn}.{n}")
    return out


def _restore_into(cur, snap):
    if isinstance(cur, dict) and isinstance(snap, dict):
        for k in [k for k in cur if k not in snap]:
            del cur[k]
        for k, v in snap.items():
            if k in cur and isinstance(cur[k], (dict, list)) and type(cur[k]) is type(v):
                _restore_into(cur[k], v)
            elif k not in cur or not _deep_same(cur[k], v):
                cur[k] = copy.deepcopy(v)
        # key order
        if list(cur.keys()) != list(snap.keys()):
            items = [(k, cur[k]) for k in snap]
            cur.clear()
            cur.update(items)
    elif isinstance(cur, list) and isinstance(snap, list):
        if not _deep_same(cur, snap):
            cur[:] = copy.deepcopy(snap)


def restore_constants():
    """in-memory repair of the module constants (object identities of the dictionaries are kept); /repo is not touched"""
    for mn, mod in _MODULES.items():
        for n, v0 in _SNAP[mn].items():
            cur = getattr(mod, n, None)
            if isinstance(cur, (dict, list)) and type(cur) is type(v0):
                _restore_into(cur, v0)
            elif not _deep_same(cur, v0):
                setattr(mod, n, copy.deepcopy(v0))


# ================================================================================================ normalisation / comparison
class Exc:
    def __init__(self, e):
        self.t = type(e).__name__
        self.msg = str(e)[:100]

    def __repr__(self):
        return f"raises {self.t}"


def norm(v):
    if isinstance(v, Exc):
        return ("EXC", v.t)
    if isinstance(v, xr.DataArray):
        return ("da", tuple(str(d) for d in v.dims), norm(np.asarray(v.values)), norm(dict(v.attrs)))
    if isinstance(v, xr.Dataset):
        return ("ds", {str(k): norm(v[k]) for k in v.variables}, norm(dict(v.attrs)))
    if isinstance(v, ux.Grid):
        return ("grid", norm(np.asarray(v.node_lon.values)), norm(np.asarray(v.node_lat.values)),
                norm(np.asarray(v.face_node_connectivity.values)))
    if isinstance(v, np.ndarray):
        if v.dtype.kind == "O":
            return ("list", [norm(x) for x in v.tolist()])
        return ("nd", v.dtype.kind, v.shape, np.array(v, copy=True))
    if isinstance(v, np.generic):
        return norm(v.item())
    if isinstance(v, dict):
        return ("dict", {str(k): norm(x) for k, x in v.items()})
    if isinstance(v, (set, frozenset)):
        return ("set", sorted(str(x) for x in v))
    if isinstance(v, (list, tuple)):
        return ("list", [norm(x) for x in v])
    if isinstance(v, (bool, int, str, type(None))):
        return ("v", v)
    if isinstance(v, float):
        return ("f", v)
    return ("v", repr(type(v)))


def same(a, b, attrs=True):
    """'' if equal, else a short path to the first difference ('attrs' in the path marks attribute-only differences)"""
    if a[0] != b[0]:
        return "kind"
    k = a[0]
    if k == "EXC":
        return "" if a[1] == b[1] else "exception_type"
    if k == "nd":
        if a[1] != b[1]:
            return "dtype"
        if a[2] != b[2]:
            return "shape"
        if a[1] in "fc":
            return "" if np.allclose(a[3], b[3], rtol=RTOL, atol=ATOL, equal_nan=True) else "values"
        return "" if np.array_equal(a[3], b[3]) else "values"
    if k == "f":
        x, y = a[1], b[1]
        return "" if (x == y or (x != x and y != y) or abs(x - y) <= ATOL + RTOL * abs(y)) else "values"
    if k == "v":
        return "" if a[1] == b[1] else "values"
    if k == "set":
        return "" if a[1] == b[1] else "values"
    if k == "da":
        if a[1] != b[1]:
            return "dims"
        d = same(a[2], b[2])
        if d:
            return d
        if attrs:
            d = same(a[3], b[3])
            if d:
                return "attrs/" + d
        return ""
    if k == "ds":
        if sorted(a[1]) != sorted(b[1]):
            return "variables"
        for n in a[1]:
            d = same(a[1][n], b[1][n], attrs)
            if d:
                return f"{n}/{d}"
        if attrs:
            d = same(a[2], b[2])
            if d:
                return "attrs/" + d
        return ""
    if k == "dict":
        if sorted(a[1]) != sorted(b[1]):
            return "keys"
        for n in a[1]:
            d = same(a[1][n], b[1][n], attrs)
            if d:
                return f"{n}/{d}"
        return ""
    if k in ("list", "grid"):
        xa, xb = (a[1], b[1]) if k == "list" else (list(a[1:]), list(b[1:]))
        if len(xa) != len(xb):
            return "length"
        for i, (x, y) in enumerate(zip(xa, xb)):
            d = same(x, y, attrs)
            if d:
                return f"[{i}]/{d}"
        return ""
    return "" if a == b else "values"


# ================================================================================================ grid sources
def sources(tier, seed):
    ms = {m["name"]: m for m in mg.small_meshes()}
    out = []

    def topo(m):
        return {"name": m["name"], "mesh": m, "make": (lambda m=m: grid_of(m)), "lon": np.asarray(m["lon"]), "lat": np.asarray(m["lat"])}

    out.append(topo(ms["quads3x2@165,-15"]))            # crosses the antimeridian
    out.append(topo(ms["mixed_quad_tri_isolated"]))     # padding, isolated face
    # Cartesian-only grid (no node_lon / node_lat stored): from_face_vertices(latlon=False)
    m = ms["quads2x2@-10,-10"]
    x, y, z = mg.xyz_of(m["lon"], m["lat"])
    fv = np.array([[[x[v], y[v], z[v]] for v in mg.face_corners(m, f)] for f in range(m["n_face"])], float)
    out.append({"name": "cartesian_only:" + m["name"], "mesh": m, "make": (lambda fv=fv: ux.Grid.from_face_vertices(fv.copy(), latlon=False)),
                "lon": np.asarray(m["lon"]), "lat": np.asarray(m["lat"])})
    if tier == "thorough":
        out.append(topo(ms["tri_pent_quad"]))
        out.append(topo(mg.cube()))
        out.append(topo(ms["ring_with_hole"]))
        for rm in mg.random_meshes(seed * 31 + 5, 3):
            if rm["n_face"] <= 12:
                out.append(topo(rm))
    return out


def cart_sources(tier, seed):
    """sources that carry ONLY Cartesian coordinates NOT of unit length, numpy-backed (nothing spherical is stored for the element
    kind concerned): every spherical quantity is lazily derived from the stored x/y/z, which must keep reporting what they hold."""
    ms = {m["name"]: m for m in mg.small_meshes()}
    out = []

    def fv_of(m, r):
        x, y, z = mg.xyz_of(m["lon"], m["lat"])
        return r * np.array([[[x[v], y[v], z[v]] for v in mg.face_corners(m, f)] for f in range(m["n_face"])], float)

    def base(m, tag, scen, make):
        return {"name": f"{tag}:{m['name']}", "mesh": m, "make": make, "lon": np.asarray(m["lon"]), "lat": np.asarray(m["lat"]),
                "scenario": scen}

    def face_vertices(m, r):
        fv = fv_of(m, r)
        return base(m, f"cartesian_only_radius_{r:g}", "nonunit_cartesian_only_source(from_face_vertices)",
                    (lambda fv=fv: ux.Grid.from_face_vertices(fv.copy(), latlon=False)))

    def ugrid_like(m, r):
        x, y, z = (r * np.asarray(c, float) for c in mg.xyz_of(m["lon"], m["lat"]))
        faces = np.array(m["faces"])

        def make():
            ds = xr.Dataset({"node_x": (("n_node",), x.copy()), "node_y": (("n_node",), y.copy()), "node_z": (("n_node",), z.copy()),
                             "face_node_connectivity": (("n_face", "n_max_face_nodes"), faces.copy())})
            return ux.Grid.from_dataset(ds, source_grid_spec="UGRID")
        return base(m, f"ugrid_like_node_xyz_only_radius_{r:g}", "nonunit_cartesian_only_source(dataset_node_xyz_only)", make)

    def stored_centres(m, r):
        # node_lon/node_lat given; face and edge centres stored as x/y/z of length ~r only (no face_lon / edge_lon)
        x, y, z = (np.asarray(c, float) for c in mg.xyz_of(m["lon"], m["lat"]))
        en = np.array(grid_of(m).edge_node_connectivity.values, copy=True)      # input construction only: the edge numbering
        fc = [mg.face_corners(m, f) for f in range(m["n_face"])]
        fxyz = [r * np.array([c[list(vs)].mean() for vs in fc]) for c in (x, y, z)]
        exyz = [r * 0.5 * (c[en[:, 0]] + c[en[:, 1]]) for c in (x, y, z)]

        def make():
            return ux.Grid.from_topology(node_lon=np.array(m["lon"], float), node_lat=np.array(m["lat"], float),
                                         face_node_connectivity=np.array(m["faces"]), fill_value=mg.FILL,
                                         edge_node_connectivity=en.copy(),
                                         face_x=fxyz[0].copy(), face_y=fxyz[1].copy(), face_z=fxyz[2].copy(),
                                         edge_x=exyz[0].copy(), edge_y=exyz[1].copy(), edge_z=exyz[2].copy())
        return base(m, f"stored_face_edge_xyz_only_radius_{r:g}", "nonunit_cartesian_only_source(stored_face_edge_xyz)", make)

    out.append(face_vertices(ms["quads2x2@-10,-10"], 2.0))
    out.append(face_vertices(ms["quads2x1@30,70"], 6371.22))
    out.append(ugrid_like(ms["mixed_quad_tri_isolated"], 6371.22))
    out.append(stored_centres(ms["quads2x2@-20,-10"], 2.0))
    if tier == "thorough":
        out.append(face_vertices(ms["quads3x2@165,-15"], 0.5))
        out.append(ugrid_like(ms["tri_pent_quad"], 2.0))
        out.append(stored_centres(ms["hex_quad_tri"], 6371.22))
        for rm in mg.random_meshes(seed * 17 + 3, 2):
            if rm["n_face"] <= 12:
                out.append(ugrid_like(rm, 3.0))
    return out


# ================================================================================================ operations
PROPS = ["dims", "sizes", "coordinates", "connectivity", "descriptors", "parsed_attrs", "attrs", "n_node", "n_edge", "n_face",
         "n_max_face_nodes", "n_max_face_edges", "n_max_face_faces", "n_max_edge_edges", "n_max_node_faces", "n_max_node_edges",
         "n_nodes_per_face", "node_lon", "node_lat", "node_x", "node_y", "node_z", "edge_lon", "edge_lat", "edge_x", "edge_y", "edge_z",
         "face_lon", "face_lat", "face_x", "face_y", "face_z", "face_node_connectivity", "edge_node_connectivity", "edge_node_z",
         "node_node_connectivity", "face_edge_connectivity", "edge_edge_connectivity", "node_edge_connectivity",
         "face_face_connectivity", "edge_face_connectivity", "node_face_connectivity", "edge_node_distances", "edge_face_distances",
         "antimeridian_face_indices", "face_areas", "bounds", "face_jacobian", "hole_edge_indices"]
INVENTORY = ("dims", "sizes", "coordinates", "connectivity", "descriptors")
_FAMILY = {"node_lon": "node_lon/lat", "node_lat": "node_lon/lat", "node_x": "node_xyz", "node_y": "node_xyz", "node_z": "node_xyz",
           "edge_lon": "edge_lon/lat", "edge_lat": "edge_lon/lat", "edge_x": "edge_xyz", "edge_y": "edge_xyz", "edge_z": "edge_xyz",
           "face_lon": "face_lon/lat", "face_lat": "face_lon/lat", "face_x": "face_xyz", "face_y": "face_xyz", "face_z": "face_xyz",
           "parsed_attrs": "attrs"}


def _rings_pc(pc):
    out = []
    for p in pc.get_paths():
        v = np.asarray(p.vertices, float)
        out.append(v)
    return out


def _gdf_norm(gdf):
    rows = []
    for geom in list(gdf["geometry"]):
        s = geom.to_shapely() if hasattr(geom, "to_shapely") else geom
        if s.geom_type == "MultiPolygon":
            rows.append([np.asarray(p.exterior.coords, float) for p in s.geoms])
        else:
            rows.append([np.asarray(s.exterior.coords, float)])
    return {"type": type(gdf).__module__.split(".")[0], "columns": [str(c) for c in gdf.columns], "rows": rows}


class Op:
    def __init__(self, family, args, fn, post=None, kind="value"):
        self.family, self.args, self.fn, self.post, self.kind = family, dict(args), fn, post, kind
        a = ",".join(f"{k}={v}" for k, v in self.args.items())
        self.label = f"{family}({a})" if a else family
        self.prop = None
        self.group = family

    def set_group(self):
        if self.family in ("compute_face_areas", "calculate_total_face_area", "face_areas") or self.label == "to_xarray(grid_format=scrip)":
            self.group = "face_areas(any)"
        elif self.family.startswith("subset."):
            self.group = "subset"
        elif self.family == "to_xarray":
            self.group = self.label
        return self

    def run(self, g, src):
        """execute on grid g; returns the normalised observation"""
        try:
            v = self.fn(g, src)
            if self.post is not None:
                v = self.post(v, g, src)
        except Exception as e:       # an exception of the library is an observation, too
            v = Exc(e)
        return norm(v)


def _tree_post(args):
    def post(tree, g, src):
        lon, lat = src["lon"], src["lat"]
        pts = [(float(lon[0]) + 0.3, float(lat[0]) + 0.2), (float(lon.mean()), float(lat.mean())), (float(lon[-1]) - 0.4, float(lat[-1]) - 0.1)]
        if args["coordinate_system"] == "cartesian":
            q = [tuple(float(c) for c in mg.xyz_of(a, b)) for a, b in pts]
        else:
            q = pts
        res = []
        for p in q:
            try:
                d, ind = tree.query(p, k=1)
                res.append([np.asarray(d, float), np.asarray(ind)])
            except Exception as e:
                res.append(Exc(e))
        return {"type": type(tree).__name__, "coordinates": tree._coordinates, "coordinate_system": tree.coordinate_system,
                "distance_metric": tree.distance_metric, "queries": res}
    return post


def alphabet():
    ops = []
    for p in PROPS:
        ops.append(Op(_FAMILY.get(p, p), {} if _FAMILY.get(p, p) == p else {"which": p}, (lambda g, s, p=p: getattr(g, p)),
                      kind="inventory" if p in INVENTORY else "value"))
        ops[-1].label = p
        ops[-1].prop = p
    for a in ({}, {"quadrature_rule": "gaussian", "order": 3}, {"quadrature_rule": "triangular", "order": 2}, {"latlon": False}):
        ops.append(Op("compute_face_areas", a, (lambda g, s, a=a: g.compute_face_areas(**a))))
    ops.append(Op("calculate_total_face_area", {}, lambda g, s: g.calculate_total_face_area()))
    def _exo_post(ds, g, s):
        ds = ds.drop_vars([n for n in ("qa_records",) if n in ds])        # holds the wall-clock time
        ds.attrs = {k: v for k, v in ds.attrs.items() if k != "title"}    # ditto
        return ds
    for fmt in ("ugrid", "exodus", "scrip"):
        ops.append(Op("to_xarray", {"grid_format": fmt}, (lambda g, s, f=fmt: g.to_xarray(f)), post=_exo_post if fmt == "exodus" else None,
                      kind="export" if fmt == "ugrid" else "value"))
    P = {"None": None, "Robinson": ROBINSON}
    for a in ({"periodic_elements": "exclude", "projection": "None", "engine": "spatialpandas"},
              {"periodic_elements": "ignore", "projection": "None", "engine": "spatialpandas"},
              {"periodic_elements": "split", "projection": "None", "engine": "spatialpandas"},
              {"periodic_elements": "exclude", "projection": "Robinson", "engine": "spatialpandas"},
              {"periodic_elements": "exclude", "projection": "None", "engine": "geopandas"},
              {"periodic_elements": "exclude", "projection": "None", "engine": "spatialpandas", "cache": False},
              {"periodic_elements": "ignore", "projection": "None", "engine": "spatialpandas", "override": True},
              {"periodic_elements": "exclude", "projection": "Robinson", "engine": "spatialpandas", "exclude_nan_polygons": False}):
        kw = dict(a, projection=P[a["projection"]])
        ops.append(Op("to_geodataframe", a, (lambda g, s, kw=kw: g.to_geodataframe(**kw)), post=lambda v, g, s: _gdf_norm(v)))
    for a in ({"periodic_elements": "exclude", "projection": "None"}, {"periodic_elements": "ignore", "projection": "None"},
              {"periodic_elements": "split", "projection": "None"}, {"periodic_elements": "exclude", "projection": "Robinson"},
              {"periodic_elements": "exclude", "projection": "None", "cache": False}):
        kw = dict(a, projection=P[a["projection"]])
        ops.append(Op("to_polycollection", a, (lambda g, s, kw=kw: g.to_polycollection(return_indices=True, **kw)),
                      post=lambda v, g, s: {"rings": _rings_pc(v[0]), "indices": [int(i) for i in list(v[1])]}))
    for a in ({"periodic_elements": "exclude", "projection": "None"}, {"periodic_elements": "ignore", "projection": "None"},
              {"periodic_elements": "split", "projection": "None"}, {"periodic_elements": "exclude", "projection": "Robinson"},
              {"periodic_elements": "exclude", "projection": "None", "cache": False},
              {"periodic_elements": "ignore", "projection": "None", "override": True}):
        kw = dict(a, projection=P[a["projection"]])
        ops.append(Op("to_linecollection", a, (lambda g, s, kw=kw: g.to_linecollection(**kw)),
                      post=lambda v, g, s: {"segments": [np.asarray(x, float) for x in v.get_segments()]}))
    for a in ({"coordinates": "nodes", "coordinate_system": "spherical", "distance_metric": "haversine"},
              {"coordinates": "face centers", "coordinate_system": "spherical", "distance_metric": "haversine"},
              {"coordinates": "nodes", "coordinate_system": "cartesian", "distance_metric": "euclidean"},
              {"coordinates": "edge centers", "coordinate_system": "cartesian", "distance_metric": "minkowski"},
              {"coordinates": "nodes", "coordinate_system": "spherical", "distance_metric": "haversine", "reconstruct": True}):
        ops.append(Op("get_ball_tree", a, (lambda g, s, a=a: g.get_ball_tree(**a)), post=_tree_post(a)))
    for a in ({"coordinates": "nodes", "coordinate_system": "cartesian", "distance_metric": "minkowski"},
              {"coordinates": "face centers", "coordinate_system": "cartesian", "distance_metric": "minkowski"},
              {"coordinates": "nodes", "coordinate_system": "spherical", "distance_metric": "minkowski"},
              {"coordinates": "nodes", "coordinate_system": "cartesian", "distance_metric": "chebyshev"}):
        ops.append(Op("get_kd_tree", a, (lambda g, s, a=a: g.get_kd_tree(**a)), post=_tree_post(a)))
    ops.append(Op("isel", {"n_face": "[0]"}, lambda g, s: g.isel(n_face=[0])))
    ops.append(Op("isel", {"n_node": "[0,1]"}, lambda g, s: g.isel(n_node=[0, 1])))
    ops.append(Op("isel", {"n_edge": "[0]"}, lambda g, s: g.isel(n_edge=[0])))
    ops.append(Op("subset.nearest_neighbor", {"k": 2, "element": "nodes"},
                  lambda g, s: g.subset.nearest_neighbor((float(s["lon"][0]) + 0.3, float(s["lat"][0]) + 0.2), k=2, element="nodes")))
    ops.append(Op("subset.bounding_circle", {"r": 9, "element": "face centers"},
                  lambda g, s: g.subset.bounding_circle((float(s["lon"][0]) + 0.3, float(s["lat"][0]) + 0.2), 9.0, element="face centers")))
    ops.append(Op("get_dual", {}, lambda g, s: g.get_dual()))
    ops.append(Op("chunk", {}, lambda g, s: g.chunk()))
    ops.append(Op("chunk", {"n_node": 2, "n_edge": 2, "n_face": 1}, lambda g, s: g.chunk(n_node=2, n_edge=2, n_face=1)))
    return [o.set_group() for o in ops]


# ================================================================================================ references
class _LazyVals(dict):
    """fresh-grid reference values, computed on first use (twice: an observation that is not reproducible is dropped).
    Runner.prepare() makes sure that this never happens in the middle of a history."""

    def __init__(self, refs):
        super().__init__()
        self.refs = refs

    def _ensure(self, key):
        if not dict.__contains__(self, key):
            si, label = key
            op = self.refs.by_label.get(label)
            if op is None:
                dict.__setitem__(self, key, None)
                return
            s = self.refs.srcs[si]
            restore_constants()
            v1 = op.run(s["make"](), s)
            restore_constants()
            v2 = op.run(s["make"](), s)
            restore_constants()
            if same(v1, v2):
                self.refs.dropped.append(f"{label}@{s['name']}")
                dict.__setitem__(self, key, None)
            else:
                dict.__setitem__(self, key, v1)

    def get(self, key, default=None):
        self._ensure(key)
        v = dict.__getitem__(self, key)
        return default if v is None else v

    def __getitem__(self, key):
        self._ensure(key)
        return dict.__getitem__(self, key)

    def __contains__(self, key):
        self._ensure(key)
        return dict.__getitem__(self, key) is not None


class Refs:
    def __init__(self, srcs, ops):
        self.srcs, self.by_label = srcs, {o.label: o for o in ops}
        self.full_sizes, self.full_vars, self.dropped = {}, {}, []
        self.val = _LazyVals(self)
        for si, s in enumerate(srcs):
            # a fully derived fresh grid: legal content of growing inventories / exports
            restore_constants()
            g = s["make"]()
            for p in PROPS:
                if p not in INVENTORY:
                    try:
                        getattr(g, p)
                    except Exception:
                        pass
            self.full_sizes[si] = dict(g._ds.sizes)
            self.full_vars[si] = {str(k): norm(g._ds[k]) for k in g._ds.variables}
        restore_constants()


def compare(refs, si, op, got):
    """'' if the observation agrees with the fresh reference (under the documented interpretation), else what differs"""
    ref = refs.val.get((si, op.label))
    if ref is None:
        return ""
    if op.kind == "value":
        return same(got, ref)
    if got[0] != ref[0]:
        return "kind"
    if got[0] == "EXC":
        return same(got, ref)
    if op.kind == "inventory":
        if ref[0] == "set":
            if not set(ref[1]) <= set(got[1]):
                return "entry_lost"
            extra = set(got[1]) - set(ref[1])
            legal = set(refs.full_vars[si]) | set(refs.full_sizes[si])
            return "" if extra <= legal else "unknown_entry"
        if ref[0] == "dict":      # sizes
            for k, v in ref[1].items():
                if k not in got[1] or same(got[1][k], v):
                    return "entry_changed"
            for k, v in got[1].items():
                if k not in ref[1] and (k not in refs.full_sizes[si] or v[1] != refs.full_sizes[si][k]):
                    return "unknown_entry"
            return ""
        return same(got, ref)
    if op.kind == "export":       # to_xarray('ugrid')
        gv, rv = got[1], ref[1]
        for n, v in rv.items():
            if n == "grid_topology":
                continue
            if n not in gv:
                return f"{n}/dropped"
            d = same(gv[n], v)
            if d:
                return f"{n}/{d}"
        for n, v in gv.items():
            if n in rv or n == "grid_topology":
                continue
            if n not in refs.full_vars[si]:
                return f"{n}/unknown_variable"
            want = refs.val.get((si, n))
            if want is None or want[0] != "da":
                want = refs.full_vars[si][n]
            d = same(v, want, attrs=False)      # the encoding may leave out internal helper attributes: values and dims count
            if d:
                return f"{n}/derived_variable_differs/{d}"
        d = same(got[2], ref[2])
        if d:
            return "attrs/" + d
        if "grid_topology" in rv:
            if "grid_topology" not in gv:
                return "grid_topology/dropped"
            ga, ra = gv["grid_topology"][3][1], rv["grid_topology"][3][1]
            for k, v in ra.items():
                if k not in ga or same(ga[k], v):
                    return f"grid_topology/attrs/{k}"
            have = set(gv) | {d for x in gv.values() if x[0] == "da" for d in x[1]}
            for k, v in ga.items():
                if k in ra:
                    continue
                names = str(v[1]).split() if v[0] == "v" else []
                if not names or not all(nm in have for nm in names):
                    return f"grid_topology/attrs/{k}:refers_to_absent_variable"
        return ""
    return same(got, ref)


# ================================================================================================ histories
class Runner:
    def __init__(self, srcs, ops, refs):
        self.srcs, self.ops, self.refs = srcs, ops, refs
        self.cases = 0
        self.nhist = 0
        self.distinct = set()
        self.found = {}            # key -> failure dict
        self.const_found = {}      # constant name -> {"ops": set()}
        self.memo = {}             # X.group -> list of culprit patterns already established
        self.const_memo = {}
        self.seen = set()
        self.canon = {}
        self.alias = {}
        self.export_op = [o for o in ops if o.label == "to_xarray(grid_format=ugrid)"][0]

    # ---- references are computed outside of histories
    def prepare(self, pair, observations):
        for gi, X in observations:
            self.refs.val._ensure((pair[gi], X.label))
            if X.kind == "export":
                for p in PROPS:
                    self.refs.val._ensure((pair[gi], p))

    # ---- execute a history on fresh grids; returns the grids (built on demand)
    def play(self, pair, hist, need=()):
        restore_constants()
        gs = {}
        for gi, op in hist:
            if gi not in gs:
                gs[gi] = self.srcs[pair[gi]]["make"]()
            op.run(gs[gi], self.srcs[pair[gi]])
        for gi in need:
            if gi not in gs:
                gs[gi] = self.srcs[pair[gi]]["make"]()
        return gs

    def observe_fails(self, pair, hist, gi, X):
        gs = self.play(pair, hist, need=(gi,))
        got = X.run(gs[gi], self.srcs[pair[gi]])
        return compare(self.refs, pair[gi], X, got), got

    def minimise(self, pair, hist, gi, X):
        """smallest sub-history (tried: known patterns, nothing, singles, then ddmin) after which X on grid gi still differs"""
        labels = [(g == gi, o.label) for g, o in hist]
        for pat in self.memo.get(X.group, []):
            idx, pos = [], 0
            for want in pat:
                while pos < len(labels) and labels[pos] != want:
                    pos += 1
                if pos >= len(labels):
                    idx = None
                    break
                idx.append(pos)
                pos += 1
            if idx:
                sub = [hist[i] for i in idx]
                if self.observe_fails(pair, sub, gi, X)[0]:
                    return sub
        if self.observe_fails(pair, [], gi, X)[0]:
            return []
        for i in range(len(hist) - 1, -1, -1):
            if self.observe_fails(pair, [hist[i]], gi, X)[0]:
                return [hist[i]]
        cur = list(hist)
        n = 2
        while len(cur) >= 2:              # ddmin-like
            chunk = max(1, len(cur) // n)
            reduced = False
            for st in range(0, len(cur), chunk):
                cand = cur[:st] + cur[st + chunk:]
                if cand and self.observe_fails(pair, cand, gi, X)[0]:
                    cur, n, reduced = cand, max(n - 1, 2), True
                    break
            if not reduced:
                if chunk == 1:
                    break
                n = min(len(cur), n * 2)
        return cur

    def make_key(self, pair, gi, X, sub, d2, got2):
        is_prop = X.prop is not None and X.kind == "value"
        ref = self.refs.val[(pair[gi], X.label)]
        if got2[0] == "EXC" or ref[0] == "EXC":
            clause = "exception_depends_on_history"
        elif "attrs" in d2 and X.kind == "value" and not same(got2, ref, attrs=False):
            clause = "attrs_depend_on_history"
        else:
            clause = "value_depends_on_history"
        scen = self.srcs[pair[gi]].get("scenario")       # targeted sources name their scenario in the key
        if is_prop and clause != "exception_depends_on_history":
            key = f"{clause}:{X.group}" + (f":{scen}" if scen else "")
        else:
            cul = []
            for g, o in sub[-1:]:           # the operation that flips the behaviour; earlier ones (set-up) are in `what`
                desc = o.group
                if o.family == X.family:
                    diff = sorted(k for k in set(o.args) | set(X.args) if o.args.get(k) != X.args.get(k))
                    soft = [k for k in diff if k in ("cache", "override", "reconstruct", "coordinates")]
                    hard = [k for k in diff if k not in soft]
                    if X.family in ("get_ball_tree", "get_kd_tree") and hard:
                        hard = ["coordinate_system|distance_metric"]
                    diff = hard or soft
                    desc += "[differs:" + "+".join(diff) + "]" if diff else "[same_call]"
                if g != gi:
                    desc = "other_grid." + desc
                if desc not in cul:
                    cul.append(desc)
            key = f"{clause}:{X.group}:" + (f"{scen}:" if scen else "") + "after:" + (">".join(cul) if cul else "nothing(fresh_grid_differs)")
        return key

    def record(self, pair, hist, gi, X, d, got):
        sub = self.minimise(pair, hist, gi, X)
        d2, got2 = self.observe_fails(pair, sub, gi, X)
        if not d2:
            return          # not reproducible on replay: not reported (would be a flaky alarm)
        pat = tuple((g == gi, o.label) for g, o in sub)
        if pat not in self.memo.setdefault(X.group, []):
            self.memo[X.group].append(pat)
        sk = (pair[gi], X.label, pat)
        if sk in self.seen:
            return
        self.seen.add(sk)
        # a consequence of mutated module constants?  (those are reported on their own: fold all histories into one key)
        if sub and constants_after(self, pair, sub):
            gs = self.play(pair, sub, need=(gi,))
            restore_constants()
            if not compare(self.refs, pair[gi], X, X.run(gs[gi], self.srcs[pair[gi]])):
                key = f"value_depends_on_history:{X.group}:via_mutated_module_constants"
                if key not in self.found:
                    hist_txt = ", ".join(("other grid: " if g != gi else "") + o.label for g, o in sub)
                    self.found[key] = {
                        "key": key,
                        "what": f"{X.label} on grid {self.srcs[pair[gi]]['name']} after [{hist_txt}] differs from the same call on a freshly "
                                f"built grid (difference at: {d2}); the difference disappears when the module-level constants "
                                f"{constants_after(self, pair, sub)} are put back to their import-time values before the call",
                        "violated": "lazily derived state never leaks between grids; no call alters the library's module-level constants",
                        "inputs": {"grid": self.srcs[pair[gi]]["name"], "other_grid": self.srcs[pair[1 - gi]]["name"],
                                   "history": [("other_grid." if g != gi else "") + o.label for g, o in sub], "observation": X.label},
                        "observed": _brief(got2), "expected": _brief(self.refs.val[(pair[gi], X.label)])}
                return
        k0 = self.make_key(pair, gi, X, sub, d2, got2)
        if k0 in self.found or self.alias.get(k0) in self.found:
            return
        seen_via = None
        # root cause: does a stored variable (a plain property, earlier in the list) already differ after this history?
        basic = [P for P in self.ops if P.prop is not None and P.kind == "value"]
        self.prepare(pair, [(gi, P) for P in basic])
        gs = self.play(pair, sub, need=(gi,))
        for P in basic:
            if P is X:
                break
            gotP = P.run(gs[gi], self.srcs[pair[gi]])
            refP = self.refs.val.get((pair[gi], P.label))
            if refP is None or gotP[0] == "EXC" or refP[0] == "EXC":
                continue            # only a stored variable holding another VALUE counts as the root cause
            if compare(self.refs, pair[gi], P, gotP):
                sub_p = self.minimise(pair, sub, gi, P)
                dp, gotp = self.observe_fails(pair, sub_p, gi, P)
                if dp:
                    seen_via, X, sub, d2, got2 = X, P, sub_p, dp, gotp
                    break
        is_prop = X.prop is not None and X.kind == "value"
        # canonical culprit: if a single plain property read triggers the same difference, name that one
        if not is_prop and len(sub) == 1 and sub[0][1].family != X.family:
            ck = (pair[gi], X.label, sub[0][0] == gi, sub[0][1].label)
            if ck not in self.canon:
                self.canon[ck] = None
                gsc = self.play(pair, sub)
                present = set(str(v) for v in gsc[sub[0][0]]._ds.variables)
                for P in basic:
                    if P.prop not in present:
                        continue            # only variables the culprit has derived can stand in for it
                    if P is sub[0][1]:
                        break
                    if self.observe_fails(pair, [(sub[0][0], P)], gi, X)[0]:
                        self.canon[ck] = P
                        break
            if self.canon[ck] is not None:
                sub = [(sub[0][0], self.canon[ck])]
                d2, got2 = self.observe_fails(pair, sub, gi, X)
        key = self.make_key(pair, gi, X, sub, d2, got2)
        self.alias[k0] = key
        if key in self.found:
            return
        hist_txt = ", ".join(("other grid: " if g != gi else "") + o.label for g, o in sub)
        ref = self.refs.val[(pair[gi], X.label)]
        self.found[key] = {
            "key": key,
            "what": f"{X.label} on grid {self.srcs[pair[gi]]['name']} after [{hist_txt}] differs from the same call on a freshly built grid "
                    f"(difference at: {d2})" + (f"; first seen through {seen_via.label}" if seen_via is not None else ""),
            "violated": "the value returned by any Grid property, query or computation equals the value a freshly built grid returns, "
                        "whatever was read before on this or other grids",
            "inputs": {"grid": self.srcs[pair[gi]]["name"], "other_grid": self.srcs[pair[1 - gi]]["name"],
                       "history": [("other_grid." if g != gi else "") + o.label for g, o in sub], "observation": X.label},
            "observed": _brief(got2), "expected": _brief(ref)}

    def check_constants(self, pair, hist):
        ch = constants_changed()
        if not ch:
            return
        # a container constant that only changed through a nested dictionary which is itself a named constant is not listed twice
        def nested_ids(o, acc):
            if isinstance(o, dict):
                for v in o.values():
                    acc.add(id(v))
                    nested_ids(v, acc)
            elif isinstance(o, (list, tuple)):
                for v in o:
                    acc.add(id(v))
                    nested_ids(v, acc)
            return acc
        objs = {n: getattr(_MODULES[n.rsplit(".", 1)[0]], n.rsplit(".", 1)[1], None) for n in ch}
        ch = [n for n in ch if not any(m != n and id(objs[m]) in nested_ids(objs[n], set()) for m in ch)]
        for name in ch:
            ent = self.const_found.setdefault(name, {"examples": [], "grid": self.srcs[pair[0]]["name"]})
            if len(ent["examples"]) >= 3:
                continue

            def mutates(sub, name=name):
                self.play(pair, sub)
                return name in constants_changed()
            cur = None
            for i in range(len(hist)):
                if mutates([hist[i]]):
                    cur = [hist[i]]
                    break
            if cur is None:
                cur = list(hist)
                i = len(cur) - 1
                while i >= 0 and len(cur) > 1:
                    cand = cur[:i] + cur[i + 1:]
                    if mutates(cand):
                        cur = cand
                    i -= 1
                if not mutates(cur):
                    continue
            ex = [("other_grid." if g != 0 else "") + o.label for g, o in cur]
            if ex not in ent["examples"]:
                ent["examples"].append(ex)
                ent["grid"] = self.srcs[pair[cur[-1][0]]]["name"]
        restore_constants()

    def run_history(self, pair, hist, observations):
        """hist: [(grid index, op)], observations: [(grid index, op)] evaluated in order on the same grids"""
        self.cases += len(observations)
        hk = (pair, tuple((g, o.label) for g, o in hist))
        for g, o in observations:
            self.distinct.add(hash((hk, g, o.label)))
        self.nhist += 1
        # the ugrid export shows every stored variable at once: always look at it last, on every grid touched
        for g in sorted({g for g, _ in hist} | {g for g, _ in observations}):
            if not any(gg == g and o is self.export_op for gg, o in observations):
                observations = observations + [(g, self.export_op)]
        self.prepare(pair, observations)
        gs = self.play(pair, hist, need=tuple({g for g, _ in observations}))
        done = list(hist)
        for gi, X in observations:
            got = X.run(gs[gi], self.srcs[pair[gi]])
            d = compare(self.refs, pair[gi], X, got)
            if d:
                saved = constants_changed()
                self.record(pair, done, gi, X, d, got)
                if saved:                      # the replays repaired the constants: bring our history's state back
                    self.play(pair, done)
            done.append((gi, X))
        self.check_constants(pair, done)


def constants_after(runner, pair, sub):
    runner.play(pair, sub)
    return constants_changed()


def _brief(n, depth=0):
    k = n[0]
    if k == "EXC":
        return f"raises {n[1]}"
    if k == "nd":
        return np.round(n[3].astype(float), 6).ravel()[:8].tolist() if n[3].dtype.kind in "fiub" else str(n[3].ravel()[:4])
    if k in ("v", "f"):
        return n[1]
    if k == "set":
        return n[1]
    if k == "da":
        return {"dims": list(n[1]), "values": _brief(n[2]), "attrs": sorted(n[3][1])}
    if k == "dict":
        return {kk: (_brief(v, depth + 1) if depth < 1 else "...") for kk, v in list(n[1].items())[:8]}
    if k == "ds":
        return {"variables": sorted(n[1])}
    if k == "list":
        return [_brief(v, depth + 1) if depth < 2 else "..." for v in n[1][:3]]
    if k == "grid":
        return {"node_lon": _brief(n[1]), "face_node_connectivity": _brief(n[3])}
    return str(k)


# ================================================================================================ JIT on / off
_JIT_OPS = [p for p in PROPS if p not in ("bounds",)] + ["compute_face_areas", "compute_face_areas(quadrature_rule=gaussian,order=3)",
                                                          "compute_face_areas(latlon=False)", "get_dual", "isel(n_face=[0])"]


def _jit_worker(path, tier, seed):
    """runs in a subprocess with the opposite NUMBA_DISABLE_JIT setting: fresh-grid values of a subset of the alphabet"""
    srcs = sources("quick", seed)
    ops = [o for o in alphabet() if o.label in _JIT_OPS]
    out = {}
    for si, s in enumerate(srcs):
        for op in ops:
            restore_constants()
            out[(s["name"], op.label)] = op.run(s["make"](), s)
    with open(path, "wb") as f:
        pickle.dump(out, f)


def _start_jit_subprocess(tier, seed):
    cur = os.environ.get("NUMBA_DISABLE_JIT", "0")
    other = "0" if cur not in ("0", "") else "1"
    fd, path = tempfile.mkstemp(suffix=".pkl", prefix="c08jit_")
    os.close(fd)
    env = dict(os.environ, NUMBA_DISABLE_JIT=other)
    here = os.path.dirname(os.path.dirname(os.path.abspath(__file__)))
    code = (f"import sys, warnings; warnings.filterwarnings('ignore'); sys.path.insert(0, {here!r}); "
            f"from standins import C08; C08._jit_worker({path!r}, {tier!r}, {seed!r})")
    try:
        p = subprocess.Popen([sys.executable, "-c", code], env=env, stdout=subprocess.DEVNULL, stderr=subprocess.DEVNULL)
    except Exception:
        os.unlink(path)
        return None
    return {"proc": p, "path": path, "other": other, "cur": cur}


def _finish_jit(job, srcs, ops, refs, timeout, failures):
    """returns (n compared, note)"""
    if job is None:
        return 0, "JIT comparison not started"
    try:
        job["proc"].wait(timeout=timeout)
        with open(job["path"], "rb") as f:
            other = pickle.load(f)
    except Exception as e:
        try:
            job["proc"].kill()
        except Exception:
            pass
        other = None
        note = f"JIT comparison skipped ({type(e).__name__})"
    finally:
        try:
            os.unlink(job["path"])
        except Exception:
            pass
    if other is None:
        return 0, note
    n = 0
    by = {o.label: o for o in ops}
    for si, s in enumerate(srcs):
        for lab in _JIT_OPS:
            a = refs.val.get((si, lab))
            b = other.get((s["name"], lab))
            if a is None or b is None:
                continue
            if (a[0] == "EXC" and a[1] in ("TypingError", "NumbaError", "LoweringError", "UnsupportedError")) or \
                    (b[0] == "EXC" and b[1] in ("TypingError", "NumbaError", "LoweringError", "UnsupportedError")):
                continue          # works only compiled / only interpreted: environment, not judged
            n += 1
            d = same(a, b)
            if d:
                op = by[lab]
                key = f"jit_on_off_differ:{op.family if op.family not in ('compute_face_areas',) else lab}"
                failures.append({"key": key, "what": f"{lab} on a fresh grid ({s['name']}) differs between NUMBA_DISABLE_JIT={job['cur']} and "
                                 f"={job['other']} (at {d})", "violated": "the value does not depend on whether JIT compilation is enabled",
                                 "inputs": {"grid": s["name"], "observation": lab}, "observed": _brief(b), "expected": _brief(a)})
    return n, f"JIT on/off: {n} fresh-grid values compared between NUMBA_DISABLE_JIT={job['cur']} and {job['other']} (subprocess)"


# ================================================================================================ entry point
def histories(tier, seed):
    t0 = time.time()
    thorough = tier == "thorough"
    rng = random.Random(seed * 7919 + 1)
    jit_job = _start_jit_subprocess(tier, seed)
    srcs = sources(tier, seed)
    nsrc = len(srcs)                       # the general sources; the targeted Cartesian-only sources follow them in the list
    csrcs = cart_sources(tier, seed)
    srcs = srcs + csrcs
    ops = alphabet()
    refs = Refs(srcs, ops)
    ops_obs = list(ops)
    R = Runner(srcs, ops, refs)
    # ---- 0. sources carrying ONLY Cartesian coordinates that are not of unit length: 'read a lazily derived spherical quantity'
    #         (or anything that triggers one), then 'read the stored x/y/z, the derived lon/lat and the export'
    by_label = {o.label: o for o in ops}
    cart_obs = [by_label[l] for l in ("node_x", "node_y", "node_z", "face_x", "face_y", "face_z", "edge_x", "edge_y", "edge_z",
                                      "node_lon", "node_lat", "face_lon", "face_lat", "edge_lon", "edge_lat")]
    quick_triggers = ["node_lon", "node_lat", "face_lon", "face_lat", "edge_lon", "edge_lat", "compute_face_areas", "face_areas", "bounds",
                      "to_xarray(grid_format=scrip)", "to_xarray(grid_format=ugrid)", "to_xarray(grid_format=exodus)",
                      "get_ball_tree(coordinates=nodes,coordinate_system=spherical,distance_metric=haversine)",
                      "get_ball_tree(coordinates=face centers,coordinate_system=spherical,distance_metric=haversine)",
                      "get_ball_tree(coordinates=edge centers,coordinate_system=cartesian,distance_metric=minkowski)",
                      "get_kd_tree(coordinates=nodes,coordinate_system=spherical,distance_metric=minkowski)",
                      "to_geodataframe(periodic_elements=exclude,projection=None,engine=spatialpandas)",
                      "to_polycollection(periodic_elements=exclude,projection=None)",
                      "to_linecollection(periodic_elements=exclude,projection=None)",
                      "subset.nearest_neighbor(k=2,element=nodes)", "subset.bounding_circle(r=9,element=face centers)", "get_dual",
                      "isel(n_face=[0])", "antimeridian_face_indices", "edge_node_distances", "edge_face_distances", "face_jacobian"]
    cart_triggers = list(ops) if thorough else [by_label[l] for l in quick_triggers]
    t_cart = time.time()
    n_cart = 0
    for ci in range(nsrc, len(srcs)):
        for a in cart_triggers:
            if time.time() - t_cart > (120 if thorough else 9):
                break
            obs = [x for x in cart_obs if x is not a]
            R.run_history((ci, ci), [(0, a)], [(0, x) for x in obs])
            n_cart += 1
    srcs_general = srcs[:nsrc]
    t_cart = time.time() - t_cart          # (quick: ~3 s) not taken out of the budget of the sampled sections below
    budget = (500 if thorough else 26) - (time.time() - t0) + (0 if thorough else min(t_cart, 4.0))
    t1 = time.time()

    def left():
        return budget - (time.time() - t1)

    pairs = [(0, 1), (2, 0), (1, 2)] + ([(i, (i + 1) % nsrc) for i in range(3, nsrc)] if thorough else [])
    samples = []
    # ---- 1. every operation a, followed by observations on the same grid: all other argument sets of the same method (cache
    #         leaks) + a seeded sample of the whole alphabet (thorough: the whole alphabet)
    n_obs = len(ops_obs) if thorough else 8
    first = [o for o in ops if o.prop is None] + [o for o in ops if o.prop is not None]     # methods (caches) before plain properties
    for pi, pair in enumerate(pairs):
        for a in first:
            if left() < (budget * 0.3 if not thorough else budget * 0.55):
                break
            obs = list(ops_obs)
            random.Random(seed * 131 + ops.index(a) * 7 + pi).shuffle(obs)
            rel = [x for x in obs if x.family == a.family and x is not a]
            rest = [x for x in obs if x not in rel]
            R.run_history(pair, [(0, a)], [(0, x) for x in rel + rest[:n_obs]])
            if len(samples) < 1:
                samples.append({"grids": [srcs[pair[0]]["name"], srcs[pair[1]]["name"]], "history": [a.label],
                                "observations": [x.label for x in (rel + rest)[:5]] + ["..."]})
    # ---- 2. operation on the OTHER grid, observations on this grid (module-level leaks)
    for pi, pair in enumerate(pairs):
        cand = list(ops)
        rng.shuffle(cand)
        for a in cand[: (len(cand) if thorough else 10)]:
            if left() < (budget * 0.25 if not thorough else budget * 0.4):
                break
            obs = list(ops_obs)
            rng.shuffle(obs)
            R.run_history(pair, [(1, a)], [(0, x) for x in obs[: (n_obs if thorough else 10)]])
    # ---- 2b. the SAME call on another grid first (state shared between Grid objects: class-level containers, module caches)
    for pi, pair in enumerate(pairs[: (len(pairs) if thorough else 2)]):
        for a in [o for o in ops if o.prop is None]:
            R.run_history(pair, [(1, a)], [(0, a)])
    # ---- 3. exact (a, X) singles and (a, b, X): fresh grids for every observation
    if thorough:
        for a in ops:
            if left() < budget * 0.25:
                break
            for X in ops_obs:
                R.run_history(pairs[0], [(0, a)], [(0, X)])
    # ---- 4. pairs (and sampled triples) interleaved over two grids
    allpairs = [(a, b) for a in ops for b in ops]
    rng.shuffle(allpairs)
    k = 0
    while left() > (8 if thorough else 2.5) and k < len(allpairs):
        a, b = allpairs[k]
        k += 1
        pair = pairs[k % len(pairs)]
        ga, gb = rng.choice([(0, 0), (0, 0), (1, 0), (0, 1)])
        hist = [(ga, a), (gb, b)]
        if k % 3 == 0:
            hist.append((rng.choice([0, 1]), rng.choice(ops)))
        obs = list(ops_obs)
        rng.shuffle(obs)
        R.run_history(pair, hist, [(0, x) for x in obs[:10]] + [(1, x) for x in obs[10:13]])
        if len(samples) < 3 and k in (1, 2):
            samples.append({"grids": [srcs[pair[0]]["name"], srcs[pair[1]]["name"]], "history": [f"g{g}.{o.label}" for g, o in hist],
                            "observations": [x.label for x in obs[:4]] + ["..."]})
    failures = list(R.found.values())
    # ---- module constants
    for name, ent in sorted(R.const_found.items()):
        failures.append({"key": f"module_constant_mutated:{name}",
                         "what": f"{name} no longer equals its import-time value after read-only grid operations, e.g. after the "
                                 f"histories {ent['examples'][:3]} on fresh grids ({ent['grid']})",
                         "violated": "no call alters the library's module-level constants",
                         "inputs": {"grid": ent["grid"], "histories": ent["examples"][:3]}, "observed": "changed", "expected": "import-time literal"})
    # ---- JIT on / off
    njit, note = _finish_jit(jit_job, srcs_general, ops, refs, max(5.0, (560 if thorough else 37) - (time.time() - t0)), failures)
    failures.sort(key=lambda f: f["key"])
    bound = (f"{len(ops)} operations ({len(PROPS)} Grid properties + method calls with several argument sets) on {len(srcs)} grids "
             f"({', '.join(s['name'] for s in srcs[:3])}{', ...' if len(srcs) > 3 else ''}; of these {len(csrcs)} carry only Cartesian "
             f"coordinates of length 0.5 / 2 / 3 / 6371.22: {n_cart} two-step histories 'read a derived spherical quantity or anything "
             f"triggering one, then read stored x/y/z, derived lon/lat, the ugrid export'); {R.nhist} histories of 1-3 operations over two "
             f"interleaved grids, each followed by {'all' if thorough else 'related + 8..13 sampled'} observations compared with fresh-grid references"
             + ("; all (a, X) singles on fresh grids" if thorough else "; seeded samples") + f"; module constants deep-compared after every "
             f"history; {note}; main run NUMBA_DISABLE_JIT={os.environ.get('NUMBA_DISABLE_JIT', '0')}"
             + (f"; not reproducible on fresh grids, dropped: {sorted(set(x.split('@')[0] for x in refs.dropped))[:6]}" if refs.dropped else ""))
    return result(R.cases + njit, len(R.distinct), failures, bound, samples)
