"""C09: subsets and cross-sections are faithful, fully functional restrictions (bounded stand-in).

`subsets(tier, seed)` runs Grid.isel / Grid.subset.* / Grid.cross_section.constant_latitude (and the UxDataArray
counterparts) on the meshgen catalogue and checks every clause of the property against an oracle computed from the mesh
geometry alone:

  * which faces: n_face -> the given ones; n_node / n_edge -> every face touching a selected node / edge; box / circle /
    k-nearest -> elements whose reference point (node, normalised Cartesian mean of the edge ends / of the face corners)
    is inside; constant latitude -> faces having an edge whose end nodes lie strictly on opposite sides
  * result faces are identified GEOMETRICALLY (sequence of corner positions), not through the recorded indices; the
    recorded indices are then checked against that identification
  * data = element id (+1000 per leading index): after slicing, the value sitting on a face / node / edge of the result
    grid must be the id of the source element at the same position
  * every derived quantity of the result must be computable (if it is computable on a fresh source) and agree with an
    oracle built from the result's own face table / with the fresh source's values restricted to the selection
  * the outcome must not depend on what was materialised on the source before slicing

quick tier runs with NUMBA_DISABLE_JIT=1 (fast start; Grid.bounds cannot be computed at all without the JIT, also on the
source, and is therefore skipped there); the thorough tier runs with the JIT enabled, includes bounds and compares the
parallel latitude scan for several numba thread counts.
"""
import math
import os
import random

_READY = {}


def _setup(tier):
    """lazy import: the JIT switch has to be set before uxarray / numba are imported"""
    if _READY:
        return
    os.environ["NUMBA_DISABLE_JIT"] = "0"   # always the library default (JIT on): the half-compiled state under NUMBA_DISABLE_JIT=1 depends on numba disk caches
    import warnings
    warnings.filterwarnings("ignore")
    import numpy
    import xarray
    from . import common, meshgen
    import uxarray
    g = globals()
    g.update(np=numpy, xr=xarray, ux=uxarray, mg=meshgen, common=common, FILL=common.FILL, grid_of=common.grid_of,
             result=common.result)
    _READY["jit"] = os.environ["NUMBA_DISABLE_JIT"] == "0"


MARGIN = 1e-6          # degrees: reference points closer than this to a region boundary make the selection skip
TOL = 1e-10

CONN = ["edge_node_connectivity", "face_edge_connectivity", "node_face_connectivity", "edge_face_connectivity",
        "face_face_connectivity", "n_nodes_per_face", "hole_edge_indices"]
BY_NODE = ["node_x", "node_y", "node_z"]
BY_EDGE = ["edge_lon", "edge_lat", "edge_x", "edge_y", "edge_z", "edge_node_distances", "edge_node_z"]
BY_FACE = ["face_lon", "face_lat", "face_x", "face_y", "face_z", "face_areas", "bounds"]
ONLY_COMPUTABLE = ["edge_face_distances", "n_max_face_edges", "n_max_face_faces", "n_max_node_faces",
                   "antimeridian_face_indices"]
DERIVED = CONN + BY_NODE + BY_EDGE + BY_FACE + ONLY_COMPUTABLE

HISTORIES = {
    "none": [],
    "edges": ["edge_node_connectivity"],
    "face_edges": ["face_edge_connectivity"],
    "incidence": ["node_face_connectivity", "edge_face_connectivity", "face_face_connectivity"],
    "centres": ["face_lon", "face_lat", "edge_lon", "edge_lat", "node_x", "face_x", "edge_x"],
    "areas": ["face_areas", "n_nodes_per_face"],
    "holes": ["hole_edge_indices"],
    "distances": ["edge_node_distances", "edge_face_distances", "edge_node_z"],
    "antimeridian": ["antimeridian_face_indices"],
    "bounds": ["bounds"],
    "all": DERIVED,
}


# ------------------------------------------------------------------------------------------------- oracle
def _unit(lon, lat):
    x, y, z = mg.xyz_of(np.asarray(lon, float), np.asarray(lat, float))
    return np.stack([x, y, z], axis=-1)


def _centre(P):
    c = P.mean(axis=0)
    c = c / np.linalg.norm(c)
    lon, lat = mg.lonlat_of(c[0], c[1], c[2])
    return float(lon), float(lat)


def _angle_deg(p, q):
    """great-circle angle between unit vectors (robust near 0 and pi)"""
    return math.degrees(math.atan2(np.linalg.norm(np.cross(p, q)), float(np.dot(p, q))))


class Source:
    """oracle tables of a mesh + the values a FRESH source grid reports (never sliced, so free of history)"""

    def __init__(self, m, edge_node_connectivity=None):
        """edge_node_connectivity: the edge table the source SHIPS (its numbering is then the source's edge numbering)"""
        self.m = m
        self.lon, self.lat, self.faces = m["lon"], m["lat"], m["faces"]
        self.nf, self.nn = m["n_face"], m["n_node"]
        self.pos = [(float(a), float(b)) for a, b in zip(self.lon, self.lat)]
        self.P = _unit(self.lon, self.lat)
        self.corners = [mg.face_corners(m, f) for f in range(self.nf)]
        self.face_key = {tuple(self.pos[v] for v in c): f for f, c in enumerate(self.corners)}
        self.face_set_key = {}
        for f, c in enumerate(self.corners):
            self.face_set_key.setdefault(frozenset(self.pos[v] for v in c), f)
        self.node_at = {p: i for i, p in enumerate(self.pos)}
        self.pairs = [mg.edge_pairs_of_face(self.faces[f]) for f in range(self.nf)]
        if edge_node_connectivity is None:
            self.ref = grid_of(m)
            en = self.ref.edge_node_connectivity.values
        else:
            self.ref = grid_of(m, edge_node_connectivity=np.array(edge_node_connectivity))
            en = np.asarray(edge_node_connectivity)
        self.edges = [tuple(sorted((int(a), int(b)))) for a, b in en]          # the source's own edge numbering
        self.ne = len(self.edges)
        if set(self.edges) != mg.edge_set(self.faces) or len(set(self.edges)) != self.ne:
            self.edges_ok = False      # the source's edge table is itself wrong: C02's business, skip edge selections
        else:
            self.edges_ok = True
        self.edge_at = {frozenset((self.pos[a], self.pos[b])): e for e, (a, b) in enumerate(self.edges)}
        self.faces_of_node = {n: set() for n in range(self.nn)}
        for f, c in enumerate(self.corners):
            for v in c:
                self.faces_of_node[v].add(f)
        self.faces_of_pair = {}
        for f, pr in enumerate(self.pairs):
            for p in pr:
                self.faces_of_pair.setdefault(p, set()).add(f)
        # reference points
        self.ref_pts = {
            "nodes": self.P,
            "face centers": np.array([_unit(*_centre(self.P[c])) for c in self.corners]),
            "edge centers": np.array([_unit(*_centre(self.P[list(e)])) for e in self.edges]),
        }
        self.ref_ll = {k: [tuple(map(float, mg.lonlat_of(p[0], p[1], p[2]))) for p in v] for k, v in self.ref_pts.items()}
        self.ref_ll["nodes"] = self.pos
        self.ref_vals = {}

    def ref_value(self, attr):
        """value of a derived attribute on the fresh, never sliced source grid ('raises', type) if it cannot be computed"""
        if attr not in self.ref_vals:
            try:
                v = getattr(self.ref, attr)
                self.ref_vals[attr] = ("ok", np.array(getattr(v, "values", v)))
            except Exception as e:       # noqa: the source cannot do it either -> nothing to ask of the subset
                self.ref_vals[attr] = ("raises", type(e).__name__)
        return self.ref_vals[attr]

    def faces_touching(self, element, ids):
        out = set()
        for i in ids:
            if element == "nodes":
                out |= self.faces_of_node[int(i)]
            elif element == "edge centers":
                out |= self.faces_of_pair[self.edges[int(i)]]
            else:
                out.add(int(i))
        return out


def _lon_in(lon, lo, hi):
    """(inside, distance to the nearest bound) of lon for the box [lo, hi]; lo > hi means across the antimeridian"""
    d = min(abs(lon - lo), abs(lon - hi), abs(lon - lo + 360), abs(lon - lo - 360), abs(lon - hi + 360), abs(lon - hi - 360))
    inside = (lo < lon < hi) if lo <= hi else (lon > lo or lon < hi)
    return inside, d


# ------------------------------------------------------------------------------------------------- selections
def _selections(src, rng, tier):
    """yield dicts: kind (stable label), args (JSON-able), element, expected (set of source faces), order (list or None),
    grid(g) -> subgrid, data(uxda) -> sliced array"""
    nf, nn, ne = src.nf, src.nn, src.ne
    out = []

    def add(kind, args, expected, gridf, dataf, order=None):
        out.append({"kind": kind, "args": args, "expected": set(expected), "order": order, "grid": gridf, "data": dataf})

    def isel_variants(dim, n, element):
        allv = list(range(n))
        uns = allv[:]
        rng.shuffle(uns)
        uns = uns[:max(1, min(n, rng.randint(2, 5)))]
        if len(uns) > 1 and uns == sorted(uns):
            uns.reverse()
        one = rng.randrange(n)
        variants = [("unsorted_list", uns), ("ndarray", np.array(sorted(uns), dtype=np.int64)), ("scalar", one),
                    ("numpy_scalar", np.int64(rng.randrange(n))), ("single_element", [rng.randrange(n)]),
                    ("all", allv), ("all_reversed", allv[::-1])]
        if tier == "thorough":
            variants.append(("int32_array", np.array(uns, dtype=np.int32)))
            variants.append(("dataarray", "xr"))
        for name, idx in variants:
            if isinstance(idx, str):
                idx = xr.DataArray(np.array(uns, dtype=np.int64), dims=["k"])
                ids = list(uns)
            else:
                ids = [int(idx)] if np.ndim(idx) == 0 else [int(i) for i in idx]
            exp = src.faces_touching(element, ids)
            add(f"isel_{dim}:{name}", {dim: ids}, exp, (lambda g, d=dim, i=idx: g.isel(**{d: i})),
                (lambda a, d=dim, i=idx: a.isel(**{d: i})), order=ids if dim == "n_face" else None)

    isel_variants("n_face", nf, "face centers")
    isel_variants("n_node", nn, "nodes")
    if src.edges_ok:
        isel_variants("n_edge", ne, "edge centers")

    elements = ["nodes", "face centers"] + (["edge centers"] if src.edges_ok else [])
    lon_all = np.array([p[0] for p in src.pos])
    lat_all = np.array([p[1] for p in src.pos])
    for element in elements:
        ll = src.ref_ll[element]
        pts = src.ref_pts[element]
        tag = element.replace(" ", "_")
        # ---- bounding boxes: around a random reference point, random half widths; regular and antimeridian-spanning
        boxes = []
        for _ in range(3 if tier == "quick" else 6):
            c = ll[rng.randrange(len(ll))]
            wl, wr = rng.uniform(0.5, 14.0), rng.uniform(0.5, 14.0)
            hb, ht = rng.uniform(0.5, 14.0), rng.uniform(0.5, 14.0)
            lo, hi = c[0] - wl, c[0] + wr
            la0, la1 = max(-90.0, c[1] - hb), min(90.0, c[1] + ht)
            if lo < -180.0:
                lo += 360.0
            if hi > 180.0:
                hi -= 360.0
            boxes.append(((round(lo, 3), round(hi, 3)), (round(la0, 3), round(la1, 3))))
        # a box spanning the antimeridian the long way round (covers everything but a sliver) and the whole globe
        boxes.append(((10.0, 9.0), (-90.0, 90.0)))
        boxes.append(((-180.0, 180.0), (-90.0, 90.0)))
        for (lo, hi), (la0, la1) in boxes:
            if lo == hi or la0 >= la1:
                continue
            ids, ok = [], True
            for i, (lon, lat) in enumerate(ll):
                inl, dl = _lon_in(lon, lo, hi)
                if dl < MARGIN or abs(lat - la0) < MARGIN or abs(lat - la1) < MARGIN:
                    ok = False
                    break
                # a reference point sitting exactly on the +-180 seam is on the boundary of the documented lon range
                if inl and la0 < lat < la1:
                    ids.append(i)
            if not ok or not ids:
                continue
            span = "antimeridian" if lo > hi else "regular"
            add(f"bounding_box:{tag}:{span}", {"lon_bounds": [lo, hi], "lat_bounds": [la0, la1], "element": element},
                src.faces_touching(element, ids),
                (lambda g, a=(lo, hi), b=(la0, la1), e=element: g.subset.bounding_box(a, b, element=e)),
                (lambda x, a=(lo, hi), b=(la0, la1), e=element: x.subset.bounding_box(a, b, element=e)))
        # ---- bounding circles and k nearest: centre near a random reference point
        for _ in range(2 if tier == "quick" else 5):
            c = ll[rng.randrange(len(ll))]
            centre = (round(max(-179.9, min(179.9, c[0] + rng.uniform(-3, 3))), 3), round(max(-89.5, min(89.5, c[1] + rng.uniform(-3, 3))), 3))
            cu = _unit(*centre)
            dist = np.array([_angle_deg(cu, p) for p in pts])
            srt = np.sort(dist)
            r = round(float(rng.choice([srt[0] + 0.01, srt[min(len(srt) - 1, 2)] + 0.013, rng.uniform(1.0, 25.0)])), 4)
            if np.min(np.abs(dist - r)) > MARGIN and (dist < r).any():
                ids = [int(i) for i in np.nonzero(dist < r)[0]]
                add(f"bounding_circle:{tag}", {"center_coord": list(centre), "r": r, "element": element},
                    src.faces_touching(element, ids),
                    (lambda g, c_=centre, r_=r, e=element: g.subset.bounding_circle(c_, r_, element=e)),
                    (lambda x, c_=centre, r_=r, e=element: x.subset.bounding_circle(c_, r_, element=e)))
            k = rng.choice([1, 1, 2, 3, len(pts)])
            k = max(1, min(k, len(pts)))
            order = np.argsort(dist, kind="stable")
            if k == len(pts) or dist[order[k]] - dist[order[k - 1]] > MARGIN:
                ids = [int(i) for i in order[:k]]
                kk = "k1" if k == 1 else ("kall" if k == len(pts) else "k")
                add(f"nearest_neighbor:{tag}:{kk}", {"center_coord": list(centre), "k": k, "element": element},
                    src.faces_touching(element, ids),
                    (lambda g, c_=centre, k_=k, e=element: g.subset.nearest_neighbor(c_, k_, element=e)),
                    (lambda x, c_=centre, k_=k, e=element: x.subset.nearest_neighbor(c_, k_, element=e)))

    # ---- constant latitude: node latitudes themselves, mid points between consecutive node latitudes, random
    lats = sorted(set(float(a) for a in lat_all if -90 < a < 90))
    cand = []
    if lats:
        cand += [("node_latitude", rng.choice(lats)), ("node_latitude", lats[len(lats) // 2])]
        for a, b in zip(lats[:-1], lats[1:]):
            if b - a > 1e-3:
                cand.append(("between_nodes", round((a + b) / 2, 6)))
        rng.shuffle(cand)
        cand = cand[:4 if tier == "quick" else 10]
        cand.append(("random", round(rng.uniform(min(lats), max(lats)), 4)))
    for label, lat in cand:
        if not -90 < lat < 90:
            continue
        # strict sides; the comparison is made on latitudes (sin is increasing): skip near-ties other than exact equality
        if any(0 < abs(a - lat) < 1e-7 for a in lat_all):
            continue
        exp = set()
        for f, pr in enumerate(src.pairs):
            for a, b in pr:
                if (lat_all[a] - lat) * (lat_all[b] - lat) < 0:
                    exp.add(f)
        if not exp:
            add(f"constant_latitude:{label}:empty", {"lat": lat}, exp, (lambda g, l=lat: g.cross_section.constant_latitude(l)),
                (lambda x, l=lat: x.cross_section.constant_latitude(l)))
        else:
            add(f"constant_latitude:{label}", {"lat": lat}, exp, (lambda g, l=lat: g.cross_section.constant_latitude(l)),
                (lambda x, l=lat: x.cross_section.constant_latitude(l)))
    return out


# ------------------------------------------------------------------------------------------------- checking a result grid
class Checker:
    def __init__(self):
        self.failures = []
        self.cases = 0
        self.distinct = set()

    def fail(self, key, what, violated, inputs, observed=None, expected=None):
        self.failures.append({"key": key, "what": what, "violated": violated, "inputs": inputs,
                              "observed": _short(observed), "expected": _short(expected)})


def _short(v):
    if v is None:
        return None
    s = repr(v.tolist() if hasattr(v, "tolist") else v)
    return s if len(s) < 300 else s[:300] + "..."


def _identify(src, sub):
    """geometric identification of the result's faces / nodes / edges with source elements.
    returns dict(face_ids, rotated, node_ids, problems)"""
    slon = np.asarray(sub.node_lon.values, float)
    slat = np.asarray(sub.node_lat.values, float)
    spos = [(float(a), float(b)) for a, b in zip(slon, slat)]
    sf = np.asarray(sub.face_node_connectivity.values)
    problems = []
    node_ids = [src.node_at.get(p, -1) for p in spos]
    face_ids, rotated = [], []
    for i in range(sf.shape[0]):
        c = [int(v) for v in sf[i] if v != FILL]
        if any(v < 0 or v >= len(spos) for v in c):
            problems.append(("index_out_of_range", i))
            face_ids.append(-1)
            continue
        key = tuple(spos[v] for v in c)
        f = src.face_key.get(key)
        if f is None:
            f = src.face_set_key.get(frozenset(key), -1)
            if f >= 0:
                rotated.append(i)
        face_ids.append(f)
    return {"face_ids": face_ids, "rotated": rotated, "node_ids": node_ids, "spos": spos, "sf": sf}


def _check_grid(ck, src, sel, sub, inputs, kind):
    """clauses about WHICH faces, positions, duplicates, order, recorded indices.  returns the identification"""
    idn = _identify(src, sub)
    fid = idn["face_ids"]
    ck.cases += 6
    if any(f < 0 for f in fid):
        ck.fail(f"corner_positions:{kind}", "a face of the result is not a face of the source (corner positions changed)",
                "each result face is a selected source face with unchanged corner positions", inputs, fid)
        return idn
    if idn["rotated"]:
        ck.fail(f"corner_order:{kind}", "a face of the result lists the corners of its source face in another order",
                "unchanged corner positions", inputs, idn["rotated"])
    if len(set(fid)) != len(fid):
        ck.fail(f"no_duplicates:{kind}", "a source face occurs more than once in the result", "without duplicates", inputs, fid)
    if set(fid) != sel["expected"]:
        ck.fail(f"faces_exact:{kind}", "the result's faces are not exactly the selected source faces",
                "faces are exactly the selected source faces", inputs, sorted(set(fid)), sorted(sel["expected"]))
    if int(sub.n_face) != len(fid) or int(sub.n_node) != len(idn["spos"]):
        ck.fail(f"counts:{kind}", "n_face / n_node of the result differ from its own tables", "fully functional Grid", inputs,
                [int(sub.n_face), int(sub.n_node)], [len(fid), len(idn["spos"])])
    # recorded indices
    try:
        rec_f = [int(v) for v in np.atleast_1d(sub._ds["subgrid_face_indices"].values)]
        rec_n = [int(v) for v in np.atleast_1d(sub._ds["subgrid_node_indices"].values)]
    except KeyError as e:
        ck.fail(f"recorded_indices_missing:{kind}", f"the result does not record its source indices ({e})",
                "order given by the result's recorded source indices", inputs)
        return idn
    if rec_f != fid:
        ck.fail(f"recorded_face_order:{kind}", "face i of the result is not source face subgrid_face_indices[i]",
                "in the order given by the result's recorded source indices", inputs, rec_f, fid)
    if sel["order"] is not None and len(set(sel["order"])) == len(sel["order"]) and sorted(rec_f) == sorted(sel["order"]) \
            and rec_f != list(sel["order"]) and rec_f != sorted(sel["order"]):
        ck.fail(f"face_order_arbitrary:{kind}", "recorded order is neither the requested nor the sorted order", "order", inputs,
                rec_f, sel["order"])
    if rec_n != idn["node_ids"]:
        ck.fail(f"recorded_node_indices:{kind}", "node i of the result is not source node subgrid_node_indices[i]",
                "recorded source indices / unchanged corner positions", inputs, rec_n, idn["node_ids"])
    used = {int(v) for v in idn["sf"].ravel() if v != FILL}
    if used != set(range(len(idn["spos"]))):
        ck.fail(f"orphan_nodes:{kind}", "the result carries nodes that belong to none of its faces (or misses some)",
                "faces are exactly the selected source faces", inputs, len(idn["spos"]), len(used))
    if len(set(idn["node_ids"])) != len(idn["node_ids"]):
        ck.fail(f"duplicate_nodes:{kind}", "a source node occurs twice in the result", "without duplicates", inputs)
    return idn


def _edge_ids(src, sub, idn):
    """source edge id of every edge of the result (by end point positions); None when the result has no usable edge table"""
    en = np.asarray(sub.edge_node_connectivity.values)
    out = []
    for a, b in en:
        if a == FILL or b == FILL or not (0 <= a < len(idn["spos"])) or not (0 <= b < len(idn["spos"])):
            out.append(-1)
        else:
            out.append(src.edge_at.get(frozenset((idn["spos"][int(a)], idn["spos"][int(b)])), -1))
    return out


def _derived(src, sub, idn):
    """outcome of every derived attribute on the result: attr -> ('ok', array) | ('raises', type, message)"""
    out = {}
    for attr in DERIVED:
        if src.ref_value(attr)[0] != "ok":
            continue
        try:
            v = getattr(sub, attr)
            out[attr] = ("ok", np.array(getattr(v, "values", v)))
        except Exception as e:  # noqa
            out[attr] = ("raises", type(e).__name__, str(e)[:160])
    return out


def _rows(a):
    return [[int(v) for v in row if v != FILL and not (isinstance(v, float) and math.isnan(v))] for row in np.asarray(a)]


def _check_derived(ck, src, sub, idn, der, inputs, kind, base_keys=None, suffix=""):
    """base_keys: derived-failure keys of the same selection with nothing materialised before (history runs report only
    what is new, with the history in the key).  returns the set of (un-suffixed) keys that fired"""
    fired = set()
    fid, sf = idn["face_ids"], idn["sf"]
    if any(f < 0 for f in fid):
        return fired
    nfs = sf.shape[0]
    corners = [[int(v) for v in row if v != FILL] for row in sf]
    pairs = [mg.edge_pairs_of_face(row) for row in sf]
    eset = set(p for pr in pairs for p in pr)

    def bad(attr, how, what, observed=None, expected=None):
        fired.add(f"derived:{attr}:{how}")
        if base_keys is not None and f"derived:{attr}:{how}" in base_keys:
            return
        ck.fail(f"derived:{attr}:{how}{suffix}", f"{attr} on the result of a selection: {what}",
                "every derived quantity can be computed on the result and agrees with the source's restricted to the selection",
                dict(inputs, selection=kind), observed, expected)

    for attr, outc in der.items():
        ck.cases += 1
        if outc[0] == "raises":
            bad(attr, "raises_" + outc[1], f"raises {outc[1]}: {outc[2]} (a fresh source grid computes it)")
    ok = {a: o[1] for a, o in der.items() if o[0] == "ok"}

    en = ok.get("edge_node_connectivity")
    epairs = None
    if en is not None:
        epairs = [tuple(sorted((int(a), int(b)))) for a, b in en]
        if set(epairs) != eset or len(epairs) != len(eset):
            bad("edge_node_connectivity", "mismatch", "is not the set of sides of the result's faces", len(epairs), len(eset))
            epairs = None
        elif int(sub.n_edge) != len(eset):
            bad("n_edge", "mismatch", "n_edge differs from the number of sides", int(sub.n_edge), len(eset))
    if "n_nodes_per_face" in ok and [int(v) for v in ok["n_nodes_per_face"]] != [len(c) for c in corners]:
        bad("n_nodes_per_face", "mismatch", "differs from the number of corners", ok["n_nodes_per_face"], [len(c) for c in corners])
    if epairs is not None and "face_edge_connectivity" in ok:
        fe = _rows(ok["face_edge_connectivity"])
        good = len(fe) == nfs and all(all(0 <= e < len(epairs) for e in fe[f]) and len(fe[f]) == len(corners[f]) and
                                      set(epairs[e] for e in fe[f]) == set(pairs[f]) for f in range(nfs))
        if not good:
            bad("face_edge_connectivity", "mismatch", "rows are not the sides of the faces", fe)
    if "node_face_connectivity" in ok:
        nfc = _rows(ok["node_face_connectivity"])
        exp = [sorted(f for f in range(nfs) if n in corners[f]) for n in range(len(idn["spos"]))]
        if len(nfc) != len(exp) or any(sorted(r) != e for r, e in zip(nfc, exp)):
            bad("node_face_connectivity", "mismatch", "rows are not the faces around each node", nfc, exp)
    if epairs is not None and "edge_face_connectivity" in ok:
        efc = _rows(ok["edge_face_connectivity"])
        exp = [sorted(f for f in range(nfs) if p in pairs[f]) for p in epairs]
        if len(efc) != len(exp) or any(sorted(r) != e for r, e in zip(efc, exp)):
            bad("edge_face_connectivity", "mismatch", "rows are not the faces on each edge", efc, exp)
        if "hole_edge_indices" in ok:
            exph = sorted(i for i, e in enumerate(exp) if len(e) == 1)
            if sorted(int(v) for v in ok["hole_edge_indices"]) != exph:
                bad("hole_edge_indices", "mismatch", "is not the set of the result's edges that have exactly one face",
                    ok["hole_edge_indices"], exph)
    elif epairs is not None and "hole_edge_indices" in ok:
        exph = sorted(i for i, p in enumerate(epairs) if sum(p in pr for pr in pairs) == 1)
        if sorted(int(v) for v in ok["hole_edge_indices"]) != exph:
            bad("hole_edge_indices", "mismatch", "is not the set of the result's edges that have exactly one face",
                ok["hole_edge_indices"], exph)
    if "face_face_connectivity" in ok:
        ffc = _rows(ok["face_face_connectivity"])
        exp = [sorted(g for g in range(nfs) if g != f and set(pairs[f]) & set(pairs[g])) for f in range(nfs)]
        if len(ffc) != nfs or any(sorted(set(r)) != e for r, e in zip(ffc, exp)):
            bad("face_face_connectivity", "mismatch", "rows are not the faces sharing a side", ffc, exp)

    def cmp(attr, ids):
        if attr not in ok or any(i < 0 for i in ids):
            return
        st, ref = src.ref_value(attr)
        got = ok[attr]
        want = ref[np.array(ids, dtype=int)] if len(ids) else ref[:0]
        if got.shape != want.shape:
            bad(attr, "shape", "shape differs from the source's restricted to the selection", got.shape, want.shape)
        elif not np.allclose(got, want, rtol=TOL, atol=TOL, equal_nan=True):
            bad(attr, "mismatch", "differs from the fresh source's values at the recorded elements", got, want)

    for attr in BY_NODE:
        cmp(attr, idn["node_ids"])
    for attr in BY_FACE:
        cmp(attr, fid)
    if epairs is not None:
        eids = _edge_ids(src, sub, idn)
        for attr in BY_EDGE:
            if attr == "edge_node_z":
                if attr in ok and all(i >= 0 for i in eids):
                    z = src.P[:, 2]
                    want = np.array([[z[idn["node_ids"][int(a)]], z[idn["node_ids"][int(b)]]] for a, b in en])
                    if ok[attr].shape != want.shape or not np.allclose(ok[attr], want, atol=1e-12):
                        bad(attr, "mismatch", "is not the z of the end nodes of the result's edges", ok[attr], want)
                continue
            if attr in ("edge_lon",):
                # +-180 seam: compare as angles
                if attr in ok and all(i >= 0 for i in eids) and src.ref_value(attr)[0] == "ok":
                    want = src.ref_value(attr)[1][np.array(eids, dtype=int)]
                    d = (ok[attr] - want + 180.0) % 360.0 - 180.0 if ok[attr].shape == want.shape else None
                    if d is None or np.max(np.abs(d), initial=0.0) > 1e-9:
                        bad(attr, "mismatch", "differs from the fresh source's values at the same edges", ok[attr], want)
                continue
            cmp(attr, eids)
        if "subgrid_edge_indices" in sub._ds:
            rec_e = [int(v) for v in np.atleast_1d(sub._ds["subgrid_edge_indices"].values)]
            if rec_e != eids and (base_keys is None or "recorded_edge_indices" not in base_keys):
                fired.add("recorded_edge_indices")
                ck.fail(f"recorded_edge_indices:{kind.split(':')[0]}{suffix}", "edge i of the result is not source edge subgrid_edge_indices[i]",
                        "recorded source indices", dict(inputs, selection=kind), rec_e, eids)
    if "antimeridian_face_indices" in ok and src.ref_value("antimeridian_face_indices")[0] == "ok":
        am = set(int(v) for v in src.ref_value("antimeridian_face_indices")[1])
        exp = sorted(i for i, f in enumerate(fid) if f in am)
        if sorted(int(v) for v in ok["antimeridian_face_indices"]) != exp:
            bad("antimeridian_face_indices", "mismatch", "differs from the source's restricted to the selection",
                ok["antimeridian_face_indices"], exp)
    return fired


# ------------------------------------------------------------------------------------------------- data
def _data_arrays(src, g, rng, tier):
    """face / node / edge centred arrays, value = element id + 1000 * (flat index of the leading dims)"""
    out = []
    shapes = [(), (2,), (2, 3)] if tier == "quick" else [(), (2,), (2, 3), (1, 2, 2)]
    for dim, n in (("n_face", src.nf), ("n_node", src.nn), ("n_edge", src.ne)):
        if dim == "n_edge" and not src.edges_ok:
            continue
        for lead in shapes:
            base = np.arange(n, dtype=float)
            k = int(np.prod(lead)) if lead else 1
            vals = (np.arange(k).reshape(lead + (1,)) * 1000.0 + base) if lead else base
            dims = ["time", "lev", "ens"][:len(lead)] + [dim]
            coords = {"time": 10 * np.arange(lead[0]) + 5} if lead else {}
            out.append((dim, lead, "last", ux.UxDataArray(vals.copy(), dims=dims, coords=coords, uxgrid=g, name="v_" + dim)))
        # grid dimension first
        vals = np.arange(n, dtype=float)[:, None] + 1000.0 * np.arange(2)[None, :]
        out.append((dim, (2,), "first", ux.UxDataArray(vals, dims=[dim, "lev"], uxgrid=g, name="w_" + dim)))
    return out


def _check_data(ck, src, sel, inputs, kind, rng, tier, with_coord=False):
    g = grid_of(src.m)
    arrays = _data_arrays(src, g, rng, tier)
    if tier == "quick":
        arrays = [a for a in arrays if a[1] in ((), (2, 3)) or a[2] == "first"]
    for dim, lead, where, arr in arrays:
        ck.cases += 1
        scen = f"{dim}_data:{'grid_dim_first' if where == 'first' else 'rank' + str(len(lead) + 1)}"
        inp = dict(inputs, data_dims=list(arr.dims))
        if with_coord:
            arr = arr.assign_coords({"elem_id": (dim, np.arange(arr.sizes[dim]))})
            scen += ":coord_on_grid_dim"
        try:
            res = sel["data"](arr)
        except Exception as e:  # noqa
            if not sel["expected"] and isinstance(e, ValueError):
                continue
            key = f"data_raises:coord_on_grid_dim:{type(e).__name__}" if with_coord else \
                f"data_raises:{kind.split(':')[0]}:{scen}:{type(e).__name__}"
            ck.fail(key, f"slicing a data array ({scen}) raises {type(e).__name__}: {str(e)[:160]}",
                    "data variables sliced together with the grid stay attached to the same physical elements", inp)
            continue
        if not sel["expected"]:
            continue
        key = f"{kind.split(':')[0]}:{scen}"
        if not isinstance(res, ux.UxDataArray) or res.uxgrid is None:
            ck.fail(f"data_type:{key}", "result is not a UxDataArray with a grid", "data sliced together with the grid", inp, type(res).__name__)
            continue
        sub = res.uxgrid
        idn = _identify(src, sub)
        if any(f < 0 for f in idn["face_ids"]) or set(idn["face_ids"]) != sel["expected"]:
            ck.fail(f"data_grid_faces:{key}", "the grid attached to the sliced data does not consist of the selected faces",
                    "faces are exactly the selected source faces", inp, idn["face_ids"], sorted(sel["expected"]))
            continue
        if tuple(res.dims) != tuple(arr.dims) or res.name != arr.name:
            ck.fail(f"data_dims_name:{key}", "dims or name changed", "data sliced together with the grid", inp,
                    [list(res.dims), res.name], [list(arr.dims), arr.name])
            continue
        if dim == "n_face":
            ids = idn["face_ids"]
        elif dim == "n_node":
            ids = idn["node_ids"]
        else:
            try:
                ids = _edge_ids(src, sub, idn)
            except Exception as e:  # noqa
                ck.fail(f"data_edges:{key}:{type(e).__name__}", "edge table of the sliced data's grid cannot be read", "fully functional Grid", inp)
                continue
        if any(i < 0 for i in ids):
            ck.fail(f"data_elements_unknown:{key}", "an element of the sliced data's grid is not a source element", "unchanged positions", inp, ids)
            continue
        want = np.take(arr.values, np.array(ids, dtype=int), axis=arr.get_axis_num(dim))
        got = np.asarray(res.values)
        if got.shape != want.shape or not np.array_equal(got, want):
            ck.fail(f"data_alignment:{key}", "after slicing, the value attached to an element of the result grid is not the value "
                    "that element had in the source", "data variables stay attached to the same physical faces, nodes and edges",
                    inp, got, want)
        if "time" in arr.coords and ("time" not in res.coords or not np.array_equal(res.coords["time"].values, arr.coords["time"].values)):
            ck.fail(f"data_coords:{key}", "coordinate of a leading dimension lost or changed", "data sliced together with the grid", inp)
        if with_coord and ("elem_id" not in res.coords or [int(v) for v in res.coords["elem_id"].values] != list(ids)):
            ck.fail("data_coord_alignment:coord_on_grid_dim", f"a coordinate along the grid dimension is not sliced together with the data ({key})",
                    "data variables sliced together with the grid stay attached to the same physical elements", inp,
                    [int(v) for v in res.coords["elem_id"].values] if "elem_id" in res.coords else None, list(ids))


# ------------------------------------------------------------------------------------------------- driver
def _efd_oracle(idn, der):
    """edge_face_distances from the result's own tables: arc between the centres (normalised corner mean) of the two faces
    of an edge, 0 on boundary edges.  Only used to decide whether uxarray's values can be trusted for the history comparison
    (on the unchanged tree the function reads node coordinates with face ids - C16 - and returns garbage)"""
    if der.get("edge_node_connectivity", ("x",))[0] != "ok" or der.get("edge_face_distances", ("x",))[0] != "ok":
        return None
    P = _unit([p[0] for p in idn["spos"]], [p[1] for p in idn["spos"]])
    corners = [[int(v) for v in row if v != FILL] for row in idn["sf"]]
    ctr = [_unit(*_centre(P[c])) for c in corners]
    pairs = [set(mg.edge_pairs_of_face(row)) for row in idn["sf"]]
    out = []
    for a, b in der["edge_node_connectivity"][1]:
        fs = [f for f in range(len(corners)) if tuple(sorted((int(a), int(b)))) in pairs[f]]
        out.append(_angle_deg(ctr[fs[0]], ctr[fs[1]]) if len(fs) == 2 else 0.0)
    return np.deg2rad(np.array(out))


def _signature(idn, der, sub):
    sig = {"faces": ("ok", [tuple(idn["spos"][int(v)] for v in row if v != FILL) if all((v == FILL or 0 <= v < len(idn["spos"])) for v in row) else None
                            for row in idn["sf"]])}
    for a, o in der.items():
        sig[a] = ("raises", o[1]) if o[0] == "raises" else ("ok", o[1])
    want = _efd_oracle(idn, der)
    if want is not None:
        got = der["edge_face_distances"][1]
        if got.shape != want.shape or not np.allclose(got, want, atol=1e-7):
            sig["edge_face_distances"] = ("untrusted",)
    return sig


def _same(x, y):
    if x is None or y is None or x[0] != y[0]:
        return x is not None and y is not None and "untrusted" in (x[0], y[0])
    if x[0] != "ok":
        return x == y
    a, b = x[1], y[1]
    if isinstance(a, list):
        return a == b
    if a.shape != b.shape:
        return False
    if a.dtype.kind == "f" or b.dtype.kind == "f":
        return bool(np.allclose(a, b, rtol=1e-12, atol=1e-12, equal_nan=True))
    return bool(np.array_equal(a, b))


def _run_selection(ck, src, sel, history, check_data, rng, tier, base_keys=None):
    kind = sel["kind"]
    inputs = {"mesh": src.m["name"], "call": kind, "args": sel["args"], "materialised_before": history}
    g = grid_of(src.m)
    for a in HISTORIES[history]:
        if src.ref_value(a)[0] == "ok":
            getattr(g, a)
    ck.cases += 1
    ck.distinct.add((src.m["name"], kind, repr(sel["args"])))
    try:
        sub = sel["grid"](g)
    except Exception as e:  # noqa
        if not sel["expected"] and isinstance(e, ValueError):
            return None       # documented: nothing selected -> ValueError
        ck.fail(f"raises:{kind}:{type(e).__name__}", f"the selection raises {type(e).__name__}: {str(e)[:160]}",
                "returns a grid whose faces are exactly the selected source faces", inputs, None, sorted(sel["expected"]))
        return None
    if not sel["expected"]:
        nfr = int(sub.n_face)
        if nfr != 0:
            ck.fail(f"faces_exact:{kind}", "faces returned although no face satisfies the selection criterion",
                    "faces are exactly the selected source faces", inputs, nfr, 0)
        return None
    if history == "none":
        idn = _check_grid(ck, src, sel, sub, inputs, kind)
    else:
        idn = _identify(src, sub)      # which faces / order: compared with the base run through the signature
    der = _derived(src, sub, idn)
    fired = _check_derived(ck, src, sub, idn, der, inputs, kind, base_keys, "" if history == "none" else "@after_" + history)
    if check_data:
        _check_data(ck, src, sel, inputs, kind, rng, tier)
    sig = _signature(idn, der, sub)
    sig["_fired"] = fired
    return sig


def _nested(ck, src, rng):
    """a subset is a grid like any other: slice it again"""
    if src.nf < 3:
        return
    g = grid_of(src.m)
    first = list(range(src.nf))
    rng.shuffle(first)
    first = first[:max(2, src.nf - 1)]
    inputs = {"mesh": src.m["name"], "call": "isel(n_face=A).isel(n_face=B)", "args": {"A": first, "B": [1, 0]}}
    ck.cases += 1
    try:
        s1 = g.isel(n_face=first)
    except Exception:  # noqa  reported by the plain selections
        return
    for label, f2 in (("isel_n_face", lambda s: s.isel(n_face=[1, 0])), ("isel_n_node", lambda s: s.isel(n_node=[0])),
                      ("constant_latitude", None)):
        if f2 is None:
            continue
        try:
            s2 = f2(s1)
        except Exception as e:  # noqa
            ck.fail(f"raises:subset_of_subset:{label}:{type(e).__name__}", f"slicing a subset again raises {type(e).__name__}: {str(e)[:160]}",
                    "the result is a fully functional Grid", inputs)
            continue
        idn = _identify(src, s2)
        if label == "isel_n_face":
            exp = [first[1], first[0]]
            if idn["face_ids"] != exp:
                ck.fail("faces_exact:subset_of_subset", "wrong faces after slicing a subset again", "faces are exactly the selected", inputs,
                        idn["face_ids"], exp)
        else:
            idn1 = _identify(src, s1)
            n0 = idn1["node_ids"][0]
            exp = {f for f in first if n0 in src.corners[f]}
            if set(idn["face_ids"]) != exp:
                ck.fail("faces_exact:subset_of_subset:n_node", "wrong faces after slicing a subset by node", "every face touching a selected node",
                        inputs, idn["face_ids"], sorted(exp))


def _seam_box(ck):
    """nodes exactly at lon = +180 (inside the documented range [-180, 180]) and a box spanning the antimeridian"""
    m = mg.quad_patch(2, 1, lon0=170.0, lat0=0.0)
    m = dict(m)
    m["lon"] = np.where(m["lon"] == -180.0, 180.0, m["lon"])
    m["name"] = "quads2x1_nodes_at_lon+180"
    src = Source(m)
    for element, ids in (("nodes", [1, 4]),):
        ck.cases += 1
        ck.distinct.add((m["name"], element))
        inputs = {"mesh": m["name"], "call": "subset.bounding_box", "args": {"lon_bounds": [175.0, -175.0], "lat_bounds": [-5.0, 15.0], "element": element}}
        exp = src.faces_touching(element, ids)
        try:
            sub = grid_of(m).subset.bounding_box((175.0, -175.0), (-5.0, 15.0), element=element)
        except Exception as e:  # noqa
            ck.fail(f"raises:bounding_box:{element.replace(' ', '_')}:antimeridian:lon_eq_180:{type(e).__name__}",
                    f"box (175, -175) x (-5, 15) contains the two nodes at lon = 180 but the call raises {type(e).__name__}: {str(e)[:120]}",
                    "every element whose reference point lies inside the region", inputs, None, sorted(exp))
            continue
        got = set(_identify(src, sub)["face_ids"])
        if got != exp:
            ck.fail(f"faces_exact:bounding_box:{element.replace(' ', '_')}:antimeridian:lon_eq_180", "nodes at lon = 180 inside an antimeridian box are missed",
                    "every element whose reference point lies inside the region", inputs, sorted(got), sorted(exp))


def _cartesian_centre_histories(ck):
    """coordinate selections with a Cartesian (x, y, z) centre go through the k-d tree: two selections for DIFFERENT element kinds
    on one grid object - the second must select what it selects on a fresh grid (oracle: the elements nearest in chord distance)"""
    for m in (mg.quad_patch(3, 2), mg.small_meshes()[6]):
        src = Source(m)
        lon, lat = np.asarray(m["lon"], float), np.asarray(m["lat"], float)
        centre = tuple(float(np.ravel(v)[0]) for v in mg.xyz_of(np.array([lon[0] + 1.3]), np.array([lat[0] + 0.7])))
        kinds = ("nodes", "face centers", "edge centers")
        for first in kinds:
            for second in kinds:
                if first == second:
                    continue
                for call, args in (("nearest_neighbor", {"k": 2}), ("bounding_circle", {"r": 14.0})):
                    ck.cases += 1
                    ck.distinct.add((m["name"], "xyz_centre", first, second, call))
                    inputs = {"mesh": m["name"], "call": f"subset.{call}", "args": dict(args, center_coord="(x, y, z)", element=second),
                              "history": [f"subset.nearest_neighbor((x, y, z), k=1, element='{first}') on the same grid"]}
                    try:
                        fresh = getattr(grid_of(m).subset, call)(centre, element=second, **args)
                        want = set(_identify(src, fresh)["face_ids"])
                    except Exception:  # noqa: BLE001   (what a fresh grid does is the main pass's business)
                        continue
                    g = grid_of(m)
                    try:
                        g.subset.nearest_neighbor(centre, k=1, element=first)
                        sub = getattr(g.subset, call)(centre, element=second, **args)
                        got = set(_identify(src, sub)["face_ids"])
                    except Exception as e:  # noqa: BLE001
                        ck.fail(f"raises:{call}:{second.replace(' ', '_')}:xyz_centre:after_other_element_kind:{type(e).__name__}",
                                f"raises {type(e).__name__}: {str(e)[:140]} (a fresh grid answers)",
                                "the selection does not depend on which derived quantities were computed before", inputs, None, sorted(want))
                        continue
                    if got != want:
                        ck.fail(f"faces_exact:{call}:{second.replace(' ', '_')}:xyz_centre:after_other_element_kind",
                                "a Cartesian-centre selection made after one for another element kind selects other faces than on a fresh grid",
                                "the selection does not depend on which derived quantities were computed before", inputs, sorted(got), sorted(want))


def _bounds_then_cross_section(ck):
    """a cross-section taken after the face bounds exist on the grid (here: correct bounds handed to the public setter, so that the
    scenario also runs without the JIT) selects the same faces as on a fresh grid: those with an edge whose end nodes lie strictly
    on opposite sides of the parallel - NOT the faces whose latitude extent merely contains it (an edge between two corners at 60N,
    40 degrees of longitude apart, bulges to 61.6N)"""
    import xarray as xr
    lons, lats = [-40.0, 0.0, 40.0], [20.0, 60.0, 75.0]
    lon = [lo for la in lats for lo in lons]
    lat = [la for la in lats for lo in lons]
    faces = [[0, 1, 4, 3], [1, 2, 5, 4], [3, 4, 7, 6], [4, 5, 8, 7]]
    m = mg.mk("wide_quads_top_corners_at_60N", lon, lat, faces)
    P = np.stack(mg.xyz_of(np.array(lon), np.array(lat)), axis=1)
    bounds = np.zeros((4, 2, 2))
    for f, row in enumerate(faces):
        la, lo = [], []
        for a, b in zip(row, row[1:] + row[:1]):
            t = np.linspace(0.0, 1.0, 401)[:, None]
            Q = (1 - t) * P[a][None, :] + t * P[b][None, :]
            Q /= np.linalg.norm(Q, axis=1, keepdims=True)
            la.append(np.arcsin(Q[:, 2]))
            lo.append(np.arctan2(Q[:, 1], Q[:, 0]) % (2 * np.pi))
        la = np.concatenate(la)
        bounds[f, 0] = [la.min(), la.max()]
        lw = np.deg2rad(np.array([lon[v] for v in row])) % (2 * np.pi)
        bounds[f, 1] = [np.deg2rad(min(lon[v] for v in row)) % (2 * np.pi), np.deg2rad(max(lon[v] for v in row)) % (2 * np.pi)]
    for latq in (61.0, 40.0, 60.5):
        ck.cases += 1
        ck.distinct.add((m["name"], "bounds_then_cross_section", latq))
        inputs = {"mesh": m["name"], "call": "cross_section.constant_latitude", "args": {"lat": latq},
                  "history": ["Grid.bounds = <the faces' true latitude / longitude extents>"]}
        want = sorted(f for f, row in enumerate(faces)
                      if any((lat[a] - latq) * (lat[b] - latq) < 0 for a, b in zip(row, row[1:] + row[:1])))
        try:
            g = grid_of(m)
            g.bounds = xr.DataArray(bounds.copy(), dims=["n_face", "lat_lon", "min_max"])
            got = sorted(int(v) for v in np.atleast_1d(g.get_faces_at_constant_latitude(latq)))
        except Exception as e:  # noqa: BLE001
            ck.fail(f"raises:constant_latitude:after_bounds_supplied:{type(e).__name__}", f"raises {type(e).__name__}: {str(e)[:140]}",
                    "the selection does not depend on which derived quantities were computed before", inputs, None, want)
            continue
        if got != want:
            ck.fail("faces_exact:constant_latitude:after_bounds_exist", "with face bounds present on the grid a cross-section selects other "
                    "faces than those having an edge whose end nodes lie strictly on opposite sides of the parallel",
                    "for a cross-section every face having an edge whose end nodes lie strictly on opposite sides of the parallel", inputs, got, want)


def _coord_scenarios(ck):
    """data carrying a coordinate along the grid dimension: fixed scenarios (all faces in another order; one face)"""
    m = mg.quad_patch(2, 1)
    src = Source(m)
    for name, idx in (("all_reversed", [1, 0]), ("single_element", [1])):
        sel = {"kind": f"isel_n_face:{name}", "expected": set(idx), "order": idx, "data": (lambda a, i=idx: a.isel(n_face=i))}
        _check_data(ck, src, sel, {"mesh": m["name"], "call": sel["kind"], "args": {"n_face": idx}}, sel["kind"], None, "quick", with_coord=True)


def _shipped_edges(ck, rng):
    """source that ships its own edge table (own order, own end-node order)"""
    m = mg.quad_patch(2, 2)
    es = sorted(mg.edge_set(m["faces"]))
    rng.shuffle(es)
    en = np.array([[b, a] if i % 2 else [a, b] for i, (a, b) in enumerate(es)], dtype=np.int64)
    src = Source(m, edge_node_connectivity=en)      # recorded edge indices / edge quantities refer to the SHIPPED numbering
    for idx in ([3, 0], [2]):
        ck.cases += 1
        ck.distinct.add(("shipped_edges", tuple(idx)))
        inputs = {"mesh": m["name"] + "+own edge_node_connectivity", "call": "isel(n_face)", "args": {"n_face": idx}}
        g = common.grid_of(m, edge_node_connectivity=en.copy())
        try:
            sub = g.isel(n_face=idx)
        except Exception as e:  # noqa
            ck.fail(f"raises:shipped_edge_table:isel_n_face:{type(e).__name__}", f"raises {type(e).__name__}: {str(e)[:160]}",
                    "sources that ship their own edge tables", inputs)
            continue
        sel = {"expected": set(idx), "order": idx}
        idn = _check_grid(ck, src, sel, sub, inputs, "shipped_edge_table:isel_n_face")
        der = _derived(src, sub, idn)
        _check_derived(ck, src, sub, idn, der, inputs, "shipped_edge_table:isel_n_face")


def _threads(ck, src):
    import numba
    n = numba.config.NUMBA_NUM_THREADS
    lats = sorted(set(float(a) for a in src.lat if -89 < a < 89))
    if not lats or n < 2:
        return
    lat = (lats[0] + lats[-1]) / 2
    res = []
    for t in sorted({1, 2, n}):
        numba.set_num_threads(t)
        g = grid_of(src.m)
        res.append((t, [int(v) for v in np.atleast_1d(g.get_faces_at_constant_latitude(lat))]))
    numba.set_num_threads(n)
    ck.cases += 1
    if any(r[1] != res[0][1] for r in res):
        ck.fail("thread_count:constant_latitude", "faces at a constant latitude depend on the numba thread count",
                "the selection does not depend on thread count", {"mesh": src.m["name"], "lat": lat}, res)


# ------------------------------------------------------------------------------------------------- pre-materialised sources
# tables a source may SHIP (Grid.from_topology keyword); node_edge_connectivity cannot be built by uxarray at all
SHIPPABLE = ["node_face_connectivity", "edge_face_connectivity", "face_face_connectivity", "face_edge_connectivity",
             "node_edge_connectivity"]
ROW_SETS = ["node_face_connectivity", "face_face_connectivity"]           # compared row by row as sorted lists
SCALARS = ["n_max_face_edges", "n_max_face_faces", "n_max_node_faces"]
LON_DEG = ["face_lon", "edge_lon"]
_FRESH = {}


def _lattice_mesh():
    """3 x 3 lattice of nodes: three quads + one cell split into two triangles (mixed sizes, padding, interior node 4)"""
    lon = [-15.0, -5.0, 5.0] * 3
    lat = [5.0] * 3 + [15.0] * 3 + [25.0] * 3
    return mg.mk("lattice3x3_quads_tris", lon, lat, [[0, 1, 4, 3], [1, 2, 5, 4], [3, 4, 7, 6], [4, 5, 8], [4, 8, 7]])


def _pad(rows, width=None):
    width = max([len(r) for r in rows] + [1]) if width is None else width
    out = np.full((len(rows), width), FILL, dtype=np.int64)
    for i, r in enumerate(rows):
        out[i, :len(r)] = r
    return out


def _shipped_tables(src):
    """oracle incidence tables of the SOURCE (own edge numbering = the fresh source's), to be shipped with the source"""
    eidx = {p: e for e, p in enumerate(src.edges)}
    fe = [[eidx[p] for p in pr] for pr in src.pairs]
    ef = [sorted(src.faces_of_pair[p]) for p in src.edges]
    ff = [[(set(src.faces_of_pair[p]) - {f}).pop() for p in pr if len(src.faces_of_pair[p]) == 2] for f, pr in enumerate(src.pairs)]
    return {
        "edge_node_connectivity": np.array(src.edges, dtype=np.int64),
        "node_face_connectivity": _pad([sorted(src.faces_of_node[n]) for n in range(src.nn)]),
        "edge_face_connectivity": _pad(ef, 2),
        "face_face_connectivity": _pad(ff, src.faces.shape[1]),
        "face_edge_connectivity": _pad(fe, src.faces.shape[1]),
        "node_edge_connectivity": _pad([sorted(e for e, p in enumerate(src.edges) if n in p) for n in range(src.nn)]),
    }


def _pre_histories(src, tier):
    """(name, attributes read on the source before slicing, tables shipped with the source)"""
    out = [("none", [], [])]
    # index tables and sizes each alone; coordinates of one element kind together (they are built by one routine)
    groups = [(a, [a]) for a in CONN + ONLY_COMPUTABLE] + [
        ("node_xyz", BY_NODE), ("edge_centres", ["edge_lon", "edge_lat", "edge_x", "edge_y", "edge_z"]),
        ("edge_node_distances", ["edge_node_distances"]), ("edge_node_z", ["edge_node_z"]),
        ("face_centres", ["face_lon", "face_lat", "face_x", "face_y", "face_z"]), ("face_areas", ["face_areas"])] + (
        [("bounds", ["bounds"])] if _READY["jit"] else [])
    out += [(n, [a for a in attrs if src.ref_value(a)[0] == "ok"], []) for n, attrs in groups]
    out = [h for h in out if h[0] == "none" or h[1]]
    out.append(("all", [a for a in DERIVED if a != "bounds" or _READY["jit"]], []))
    if src.edges_ok and all(len(v) <= 2 for v in src.faces_of_pair.values()):
        out += [("shipped_" + t, [], [t]) for t in SHIPPABLE]
        out.append(("shipped_all", [], list(SHIPPABLE)))
    return out


def _fresh_rebuild(sub):
    """a grid built from nothing but the slice's own node_lon / node_lat / face_node_connectivity"""
    return ux.Grid.from_topology(node_lon=np.array(sub.node_lon.values, float), node_lat=np.array(sub.node_lat.values, float),
                                 face_node_connectivity=np.array(sub.face_node_connectivity.values), fill_value=FILL)


def _sorted_rows(a):
    return [sorted(r) for r in _rows(a)]


def _check_fresh(ck, src, sub, der, inputs, base_keys, suffix):
    """every derived quantity of the slice == the same quantity of a grid freshly built from the slice's own three defining
    arrays (modulo the numbering / orientation of edges, which the slice inherits from the source).  returns the fired keys"""
    fired = set()

    def bad(attr, how, what, observed=None, expected=None):
        k = f"fresh_rebuild:{attr}:{how}"
        fired.add(k)
        if base_keys is not None and k in base_keys:
            return
        ck.fail(k + suffix, f"{attr} of the slice {what}",
                "the result is a fully functional Grid: every derived quantity equals what a grid built from the slice's own "
                "node_lon / node_lat / face_node_connectivity derives (no table carrying source-grid indices survives)",
                inputs, observed, expected)

    ok = {a: o[1] for a, o in der.items() if o[0] == "ok"}
    # the rebuild depends on the slice's three defining arrays only: computed once per distinct slice
    ck_ = (sub.node_lon.values.tobytes(), sub.node_lat.values.tobytes(), sub.face_node_connectivity.values.tobytes(),
           sub.face_node_connectivity.values.shape)
    if ck_ not in _FRESH:
        if len(_FRESH) > 64:
            _FRESH.clear()
        fresh = _fresh_rebuild(sub)
        _FRESH[ck_] = {}
        for attr in DERIVED:
            try:
                v = getattr(fresh, attr)
                _FRESH[ck_][attr] = np.array(getattr(v, "values", v))
            except Exception:  # noqa: the fresh rebuild cannot do it either -> nothing to compare
                pass
    want = _FRESH[ck_]
    perm = None
    if "edge_node_connectivity" in ok and "edge_node_connectivity" in want:
        sp = [tuple(sorted((int(a), int(b)))) for a, b in ok["edge_node_connectivity"]]
        fp = {tuple(sorted((int(a), int(b)))): e for e, (a, b) in enumerate(want["edge_node_connectivity"])}
        if len(set(sp)) == len(sp) == len(fp) and set(sp) == set(fp):
            perm = np.array([fp[p] for p in sp], dtype=int)
        else:
            bad("edge_node_connectivity", "differs", "is not the edge set of the fresh rebuild", len(sp), len(fp))
    for attr, got in ok.items():
        if attr not in want or attr == "edge_node_connectivity":
            continue
        ck.cases += 1
        w = want[attr]
        edgewise = attr in BY_EDGE or attr in ("edge_face_connectivity", "edge_face_distances")
        if (edgewise or attr in ("face_edge_connectivity", "hole_edge_indices")) and perm is None:
            continue
        if attr in SCALARS:
            same = int(got) == int(w)
        elif attr in ROW_SETS:
            same = _sorted_rows(got) == _sorted_rows(w)
        elif attr == "face_edge_connectivity":
            same = [sorted(int(perm[e]) if 0 <= e < len(perm) else -1 for e in r) for r in _rows(got)] == _sorted_rows(w)
        elif attr == "hole_edge_indices":
            g_ = [int(v) for v in got]
            same = all(0 <= e < len(perm) for e in g_) and sorted(int(perm[e]) for e in g_) == sorted(int(v) for v in w)
        elif attr == "antimeridian_face_indices":
            same = sorted(int(v) for v in got) == sorted(int(v) for v in w)
        elif attr == "edge_face_connectivity":
            same = got.shape == w.shape and _sorted_rows(got) == _sorted_rows(w[perm])
        elif got.shape != w.shape:
            same = False
        else:
            if edgewise:
                w = w[perm]
            if attr == "edge_node_z":
                got, w = np.sort(got, axis=1), np.sort(w, axis=1)
            if attr in LON_DEG:
                same = bool(np.max(np.abs((got - w + 180.0) % 360.0 - 180.0), initial=0.0) <= 1e-9)
            elif got.dtype.kind == "f" or w.dtype.kind == "f":
                same = bool(np.allclose(got, w, rtol=1e-9, atol=1e-9, equal_nan=True))
            else:
                same = bool(np.array_equal(got, w))
        if not same:
            bad(attr, "differs", "differs from the value a freshly built grid with the same nodes and faces derives", got, w)
    # a table uxarray cannot build itself may be absent from the slice, but if it is there it has to describe the slice
    if perm is not None:
        try:
            nec = np.array(sub.node_edge_connectivity.values)
        except Exception:  # noqa: dropped - fine
            nec = None
        if nec is not None:
            ck.cases += 1
            sp = [(int(a), int(b)) for a, b in ok["edge_node_connectivity"]]
            exp = [sorted(e for e, p in enumerate(sp) if n in p) for n in range(int(sub.n_node))]
            if _sorted_rows(nec) != exp:
                bad("node_edge_connectivity", "differs", "is kept but does not list the slice's own edges at each node", nec, exp)
    return fired


def _pre_routes(src, rng, tier):
    """one selection per family, preferring proper sub-selections (so that source and result numbering differ).
    returns [(route label, selection, via a UxDataArray?)]"""
    sels = [s for s in _selections(src, rng, tier) if s["expected"]]
    prefer = {"isel_n_face": "unsorted_list", "isel_n_node": "single_element", "isel_n_edge": "single_element"}
    fams = {}
    for s in sels:
        t = s["kind"].split(":")
        fam = t[0] if t[0].startswith("isel") or t[0] == "constant_latitude" else ":".join(t[:2])
        proper = len(s["expected"]) < src.nf
        score = (proper, prefer.get(fam) == t[-1])
        if fam not in fams or score > fams[fam][0]:
            fams[fam] = (score, s)
    out = []
    for fam in sorted(fams, key=lambda f: (not f.startswith("isel"), f)):      # isel_n_edge, isel_n_face, isel_n_node, accessors
        out.append(("Grid." + fam, fams[fam][1], False))
        if fam in ("isel_n_face", "nearest_neighbor:face_centers"):
            out.append(("UxDataArray." + fam, fams[fam][1], True))
    out.sort(key=lambda r: r[0] != "Grid.isel_n_face")                         # stable: the plain face selection first
    return out


class _PreChecker:
    """failure keys of the pre-materialisation scenario: '<check>:<attr>:<how>@prematerialised:<history>' - the route (call) is
    part of the key only for history 'none' (where the call itself is the scenario) and otherwise goes to the inputs: a key is
    reported once (first route), and 'all' / 'shipped_all' only if no single table of that group produced the same failure"""

    def __init__(self, ck):
        self.ck, self.cases, self.distinct, self.seen, self.single = ck, 0, set(), set(), set()

    def fail(self, key, what, violated, inputs, observed=None, expected=None):
        base, hist = key.split("@prematerialised:")
        group = "shipped" if hist.startswith("shipped_") else "read"
        if key in self.seen or (hist in ("all", "shipped_all") and (base, group) in self.single):
            return
        if hist not in ("none", "all", "shipped_all"):
            self.single.add((base, group))
        self.seen.add(key)
        self.ck.fail(key, what, violated, inputs, observed, expected)


def _pre_run(ck, src, route, sel, via_data, hist, base):
    name, attrs, shipped = hist
    suffix = (f":{route}" if name == "none" else "") + f"@prematerialised:{name}"
    inputs = {"mesh": src.m["name"], "call": route, "selection": sel["kind"], "args": sel["args"],
              "read_on_source_before": attrs if name != "all" else "every derived attribute", "shipped_with_source": shipped}
    ck.cases += 1
    ck.distinct.add((src.m["name"], route, name))
    kw = {}
    if shipped:
        tabs = _shipped_tables(src)
        kw = {t: tabs[t].copy() for t in shipped}
        if set(shipped) & {"face_edge_connectivity", "edge_face_connectivity", "node_edge_connectivity"}:
            kw["edge_node_connectivity"] = tabs["edge_node_connectivity"].copy()     # edge ids need their edge table
    g = grid_of(src.m, **kw)
    for a in attrs:
        if src.ref_value(a)[0] == "ok":
            getattr(g, a)
    try:
        if via_data:
            arr = ux.UxDataArray(np.arange(src.nf, dtype=float), dims=["n_face"], uxgrid=g, name="v")
            sub = sel["data"](arr).uxgrid
        else:
            sub = sel["grid"](g)
    except Exception as e:  # noqa
        k = f"raises:{type(e).__name__}"
        if base is None or k not in base:
            ck.fail(k + suffix, f"slicing a source with pre-materialised tables raises {type(e).__name__}: {str(e)[:160]}",
                    "returns a grid whose faces are exactly the selected source faces", inputs)
        return {k}
    idn = _identify(src, sub)
    if any(f < 0 for f in idn["face_ids"]) or set(idn["face_ids"]) != sel["expected"]:
        k = "faces_exact"
        if base is None or k not in base:
            ck.fail(k + suffix, "the slice does not consist of the selected source faces",
                    "faces are exactly the selected source faces", inputs, idn["face_ids"], sorted(sel["expected"]))
        return {k}
    der = _derived(src, sub, idn)
    fired = _check_derived(ck, src, sub, idn, der, inputs, sel["kind"], base, suffix)
    fired |= _check_fresh(ck, src, sub, der, inputs, base, suffix)
    if name == "none":
        fired.add(("face_order", tuple(idn["face_ids"])))
    elif base is not None:
        order0 = [k[1] for k in base if isinstance(k, tuple) and k[0] == "face_order"]
        ck.cases += 1
        if order0 and list(order0[0]) != idn["face_ids"]:
            ck.fail("history_dependence:face_order" + suffix, "the faces of the slice come in another order than without pre-materialisation",
                    "the selection does not depend on which derived quantities were computed before", inputs, idn["face_ids"], list(order0[0]))
    return fired


def _prematerialised(ck, tier, seed):
    """slices of sources on which derived tables already exist (read before, each alone and all together, or shipped with the
    source): every derived quantity of the slice must equal the independent oracle (_check_derived) and what a grid
    freshly built from the slice's own node_lon / node_lat / face_node_connectivity derives (_check_fresh)"""
    rng = random.Random(seed * 7919 + 97)
    ck0, ck = ck, _PreChecker(ck)
    meshes = [_lattice_mesh()]
    if tier == "thorough":
        meshes += [mg.quad_patch(3, 2, lon0=165.0, lat0=-15.0)] + [m for m in mg.small_meshes() if m["n_face"] >= 3][2:6] \
            + mg.closed_meshes()[:2]
    n = 0
    for m in meshes:
        src = Source(m)
        routes = _pre_routes(src, rng, tier)
        hists = _pre_histories(src, tier)
        for route, sel, via_data in routes:
            base = None
            for hist in hists:
                # quick tier: every history on Grid.isel(n_face); the index tables alone / everything / everything shipped on
                # Grid.isel(n_node) and UxDataArray.isel(n_face); everything / everything shipped on all other routes
                # (those without the 'none' run: a failure that does not need pre-materialisation is then reported under 'all')
                # thorough tier: every history on every route of the lattice; on the other meshes every history on these three
                # routes and none / everything / everything shipped on the others
                isel3 = route in ("Grid.isel_n_face", "Grid.isel_n_node", "UxDataArray.isel_n_face")
                if tier == "quick" and route != "Grid.isel_n_face" and hist[0] not in ("all", "shipped_all") and not (
                        isel3 and (hist[0] == "none" or hist[0] in CONN)):
                    continue
                if tier == "quick" and hist[0] == "shipped_all" and not isel3 and not (
                        route.endswith(":nodes") or route in ("Grid.isel_n_edge", "Grid.constant_latitude")):
                    continue
                if tier != "quick" and m is not meshes[0] and not isel3 and hist[0] not in ("none", "all", "shipped_all"):
                    continue
                fired = _pre_run(ck, src, route, sel, via_data, hist, base)
                n += 1
                if hist[0] == "none":
                    base = fired
    ck0.cases += ck.cases
    ck0.distinct |= ck.distinct
    return n, len(meshes)


def subsets(tier, seed):
    _setup(tier)
    rng = random.Random(seed * 1009 + 9)
    ck = Checker()
    import time
    t0 = time.time()
    n_pre, n_pre_meshes = _prematerialised(ck, tier, seed)     # first: not subject to the safety net below
    meshes = mg.catalogue(tier, seed)
    if tier == "quick":
        # a spread of the catalogue that fits the time budget
        small = [m for m in meshes if not m["closed"] and not m["name"].startswith("rand_")]
        closed = [m for m in meshes if m["closed"]]
        rand = [m for m in meshes if m["name"].startswith("rand_")]
        rng.shuffle(small)
        # (5 small ones since the pre-materialisation scenario runs first: the two JIT compilations of ~8 s each leave ~12 s)
        meshes = small[:5] + closed[:2] + [closed[2 + seed % (len(closed) - 2)]] + rand[:4]
    else:
        rand = [m for m in meshes if m["name"].startswith("rand_")]
        meshes = [m for m in meshes if not m["name"].startswith("rand_")] + rand[:30]
    samples = []
    hist_names = [h for h in HISTORIES if h != "none" and (h != "bounds" or _READY["jit"])]
    done = 0
    # The safety net must not depend on whether numba's on-disk cache is warm (a patched checkout at another path compiles
    # everything again, ~20 s): compile the two uncached kernels on a tiny grid first, then start the clock for the mesh loop.
    try:
        _w = grid_of(mg.small_meshes()[0])
        _w.edge_face_connectivity
        if _READY["jit"]:
            _w.bounds
    except Exception:  # noqa: BLE001 - warm-up only
        pass
    t0 = time.time()
    limit = 22 if tier == "quick" else 500          # seconds of mesh-loop time (compilation excluded)
    for mi, m in enumerate(meshes):
        if time.time() - t0 > limit:
            break                       # safety net only; the mesh counts are chosen to stay below it
        done += 1
        src = Source(m)
        sels = _selections(src, rng, tier)
        if tier == "quick":
            # keep one selection per kind family (first token of the kind + element), at most ~16 per mesh
            rng.shuffle(sels)
            seen, keep = set(), []
            for s in sels:
                fam = ":".join(s["kind"].split(":")[:2])
                if fam in seen:
                    continue
                seen.add(fam)
                keep.append(s)
            sels = keep[:18]
        for si, sel in enumerate(sels):
            if time.time() - t0 > limit:
                break
            check_data = (tier == "thorough" and si % 2 == 0) or (si % 4 == mi % 4)
            base = _run_selection(ck, src, sel, "none", check_data, rng, tier)
            if len(samples) < 3 and base is not None:
                samples.append({"mesh": m["name"], "call": sel["kind"], "args": sel["args"]})
            # histories: a few selections per mesh
            if base is not None and (si < (2 if tier == "thorough" else 1) or tier == "thorough" and si % 10 == 0):
                # (quick: 1 random history + 'all'; every single attribute is covered systematically by _prematerialised)
                hs = hist_names if tier == "thorough" else rng.sample(hist_names, 1) + ["all"]
                for h in dict.fromkeys(hs):
                    sig = _run_selection(ck, src, sel, h, False, rng, tier, base_keys=base["_fired"])
                    if sig is None:
                        continue
                    for a in sig:
                        if a == "_fired":
                            continue
                        if not _same(sig[a], base.get(a)):
                            st = sig[a][0]
                            ck.fail(f"history_dependence:{a}:after_{h}",
                                    f"{a} of the result differs ({'raises ' + sig[a][1] if st == 'raises' else 'other value'}) when "
                                    f"{HISTORIES[h] if h != 'all' else 'everything'} was read on the source before slicing",
                                    "the selection does not depend on which derived quantities were computed before",
                                    {"mesh": m["name"], "call": sel["kind"], "args": sel["args"], "materialised_before": h})
        # data carrying a coordinate along the grid dimension (one selection per mesh)
        if sels:
            cand = [s for s in sels if s["expected"]]
            if cand:
                s = cand[mi % len(cand)]
                _check_data(ck, src, s, {"mesh": m["name"], "call": s["kind"], "args": s["args"]}, s["kind"], rng, "quick", with_coord=True)
        if mi % 3 == 0 or tier == "thorough":
            _nested(ck, src, rng)
        if _READY["jit"] and mi % 4 == 0:
            _threads(ck, src)
    _seam_box(ck)
    _cartesian_centre_histories(ck)
    _bounds_then_cross_section(ck)
    _coord_scenarios(ck)
    _shipped_edges(ck, rng)
    bound = (f"{done} meshes of the meshgen catalogue (<= {max(m['n_face'] for m in meshes)} faces), per mesh isel by face/node/edge "
             "(unsorted list, ndarray, scalar, numpy scalar, single element, all, reversed), random boxes (regular + antimeridian), "
             "circles, k-nearest for nodes / face centres / edge centres, constant latitudes (node latitudes, between, random); "
             "face/node/edge data of rank 1..3(4) incl. grid dimension first and a coordinate on the grid dimension; "
             f"{len(hist_names)} pre-materialisation histories on 2 selections per mesh (quick: 1 random history + 'all' on 1 selection per mesh); subset of subset; shipped edge table; "
             f"pre-materialised sources: {n_pre} slices of {n_pre_meshes} fixed mesh(es) (3x3 lattice of quads + triangles"
             + (", antimeridian quads, small + closed meshes" if tier == "thorough" else "") + ") with every derived attribute read "
             "alone / all together / incidence tables shipped with the source before Grid.isel, subset.*, cross_section, "
             "UxDataArray.isel, each derived quantity compared with the oracle and with a grid rebuilt from the slice's own "
             "node_lon / node_lat / face_node_connectivity; "
             + ("JIT on, bounds included, thread counts 1/2/max" if _READY["jit"] else
                "NUMBA_DISABLE_JIT=1: Grid.bounds is not computable at all without JIT and is skipped; thread counts not varied")
             + "; edge_face_distances only for computability (values are C16's subject)")
    return result(ck.cases, len(ck.distinct), ck.failures, bound, samples)
