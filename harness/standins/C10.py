"""C10: xarray operations keep a UxDataArray attached to a consistent grid (bounded stand-in).

`xarray_ops(tier, seed)`: a catalogue of xarray operations is applied to face-, node- and edge-centred UxDataArrays
(dims (time, lev, n_*), float / int / bool, coordinates on time and lev) and, in parallel, to a plain xarray.DataArray with
the same data.  Oracle = plain xarray: an operation that plain xarray cannot do on that array is not applicable and skipped.

  class invariant checked on every result r of op(a) and op2(op1(a)):
     type(r) is UxDataArray; r.uxgrid is a.uxgrid (deep copies: an equal grid that does not share state with the original);
     dims / dtype / values / coordinate values equal the plain result; every n_node / n_edge / n_face dimension of r has the
     length of the corresponding element count of r.uxgrid
  uxarray's own operators (isel on grid dims, integrate, gradient, difference, topological_mean, remap.nearest_neighbor,
  get_dual) are interleaved before and after the xarray operations; there the invariant is type / grid present / dimension
  lengths, and the values of the following xarray operation are compared with plain xarray applied to the intermediate.
  Exceptions raised by uxarray's own operators are other properties' business and not reported here.
"""
import copy
import random

import numpy as np
import xarray as xr

from . import meshgen as mg
from .common import grid_of, result
import uxarray as ux

GRID_DIMS = {"n_node": "n_node", "n_edge": "n_edge", "n_face": "n_face"}


# ------------------------------------------------------------------------------------------------- catalogue
def _w(a):
    """plain weights along lev (aligned with a's lev coordinate when it still has one)"""
    n = a.sizes["lev"]
    c = {"lev": a["lev"].values} if "lev" in a.coords else {}
    return xr.DataArray(np.linspace(0.25, 1.0, n), dims=["lev"], coords=c)


def _lead(a):
    """positional indexing of the first dimension: only applicable while that is not a grid dimension"""
    if a.dims[0] in GRID_DIMS:
        raise TypeError("not applicable: first dimension is a grid dimension")
    return a


def _gdim(a):
    for d in a.dims:
        if d in GRID_DIMS:
            return d
    raise KeyError("no grid dim")


OPS = [
    # ---- arithmetic
    ("add_scalar", lambda a: a + 1),
    ("radd_scalar", lambda a: 1 + a),
    ("mul_scalar", lambda a: 2.5 * a),
    ("sub_self", lambda a: a - a),
    ("div_scalar", lambda a: a / 2),
    ("rsub_scalar", lambda a: 3 - a),
    ("pow2", lambda a: a ** 2),
    ("neg", lambda a: -a),
    ("abs", lambda a: abs(a)),
    ("mod", lambda a: a % 3),
    ("floordiv", lambda a: a // 2),
    ("add_broadcast_slice", lambda a: a + a.isel(time=0)),
    ("mul_plain_right", lambda a: a * _w(a)),
    ("add_numpy_scalar", lambda a: a + np.float64(1.5)),
    ("iadd", lambda a: _iadd(a)),
    # ---- comparisons / logic
    ("gt", lambda a: a > 0),
    ("eq_self", lambda a: a == a),
    ("and_", lambda a: (a > 0) & (a < 5)),
    ("invert", lambda a: ~(a > 0)),
    # ---- numpy
    ("np_sin", lambda a: np.sin(a)),
    ("np_exp", lambda a: np.exp(a / 10)),
    ("np_sqrt_abs", lambda a: np.sqrt(abs(a))),
    ("np_maximum", lambda a: np.maximum(a, 0)),
    ("np_add", lambda a: np.add(a, 1)),
    ("np_isnan", lambda a: np.isnan(a)),
    ("np_negative", lambda a: np.negative(a)),
    ("np_clip", lambda a: np.clip(a, -1, 1)),
    ("np_mean_axis0", lambda a: np.mean(a, axis=0)),
    ("round", lambda a: a.round(1)),
    # ---- where / clip / fillna / astype
    ("where", lambda a: a.where(a > 0)),
    ("where_other", lambda a: a.where(a > 0, -1)),
    ("clip", lambda a: a.clip(-1, 1)),
    ("fillna", lambda a: a.where(a > 0).fillna(0)),
    ("astype_float32", lambda a: a.astype("float32")),
    ("astype_int", lambda a: a.astype(int)),
    ("isnull", lambda a: a.isnull()),
    ("notnull", lambda a: a.notnull()),
    ("isin", lambda a: a.isin([0, 1, 2])),
    # ---- indexing along non-grid dimensions
    ("isel_time_scalar", lambda a: a.isel(time=0)),
    ("isel_time_list", lambda a: a.isel(time=[0, 2])),
    ("isel_time_slice", lambda a: a.isel(time=slice(0, 2))),
    ("isel_time_lev", lambda a: a.isel(time=1, lev=0)),
    ("isel_indexers_kw", lambda a: a.isel(indexers={"time": 0})),
    ("isel_drop", lambda a: a.isel(time=0, drop=True)),
    ("sel_time", lambda a: a.sel(time=a["time"].values[1])),
    ("sel_time_list", lambda a: a.sel(time=list(a["time"].values[:2]))),
    ("sel_time_slice", lambda a: a.sel(time=slice(a["time"].values[0], a["time"].values[1]))),
    ("getitem_int", lambda a: _lead(a)[0]),
    ("getitem_slice", lambda a: _lead(a)[1:]),
    ("loc", lambda a: a.loc[{"time": a["time"].values[0]}]),
    ("head", lambda a: a.head(time=1)),
    ("tail", lambda a: a.tail(time=1)),
    ("thin", lambda a: a.thin(time=2)),
    ("drop_isel", lambda a: a.drop_isel(time=[0])),
    ("squeeze", lambda a: a.isel(time=[0]).squeeze("time")),
    # ---- reductions along non-grid dimensions
    ("mean_time", lambda a: a.mean("time")),
    ("sum_lev", lambda a: a.sum("lev")),
    ("max_time_lev", lambda a: a.max(["time", "lev"])),
    ("min_time", lambda a: a.min("time")),
    ("std_time", lambda a: a.std("time")),
    ("var_lev", lambda a: a.var("lev")),
    ("median_time", lambda a: a.median("time")),
    ("prod_lev", lambda a: a.prod("lev")),
    ("count_time", lambda a: a.count("time")),
    ("argmax_time", lambda a: a.argmax("time")),
    ("any_time", lambda a: (a > 0).any("time")),
    ("all_lev", lambda a: (a > 0).all("lev")),
    ("quantile_time", lambda a: a.quantile(0.5, dim="time")),
    ("reduce_np_sum", lambda a: a.reduce(np.sum, dim="time")),
    ("mean_keep_attrs", lambda a: a.mean("time", keep_attrs=True)),
    ("weighted_mean_lev", lambda a: a.weighted(_w(a)).mean("lev")),
    ("dot_lev", lambda a: a.dot(_w(a))),
    ("groupby_time_mean", lambda a: a.groupby("time").mean()),
    # ---- cumulative / rolling / shifting along non-grid dimensions
    ("cumsum_time", lambda a: a.cumsum("time")),
    ("cumprod_lev", lambda a: a.cumprod("lev")),
    ("rolling_mean_time", lambda a: a.rolling(time=2).mean()),
    ("rolling_sum_center", lambda a: a.rolling(time=2, center=True, min_periods=1).sum()),
    ("rolling_construct", lambda a: a.rolling(time=2).construct("window")),
    ("coarsen_time", lambda a: a.coarsen(time=2, boundary="trim").mean()),
    ("diff_time", lambda a: a.diff("time")),
    ("shift_time", lambda a: a.shift(time=1)),
    ("roll_time", lambda a: a.roll(time=1, roll_coords=False)),
    ("differentiate_time", lambda a: a.differentiate("time")),
    ("cumulative_integrate_time", lambda a: a.cumulative_integrate("time")),
    ("pad_time", lambda a: a.pad(time=1)),
    # ---- shape / naming / coordinates
    ("transpose_reverse", lambda a: a.transpose(*reversed(a.dims))),
    ("T", lambda a: a.T),
    ("transpose_ellipsis", lambda a: a.transpose(_gdim(a), ...)),
    ("rename_name", lambda a: a.rename("other")),
    ("rename_dim", lambda a: a.rename({"time": "t"})),
    ("swap_dims", lambda a: a.assign_coords(step=("time", np.arange(a.sizes["time"]))).swap_dims({"time": "step"})),
    ("assign_coords_time", lambda a: a.assign_coords(time=np.arange(a.sizes["time"]) * 7)),
    ("assign_coords_aux", lambda a: a.assign_coords(height=("lev", np.arange(a.sizes["lev"]) * 100.0))),
    ("assign_attrs", lambda a: a.assign_attrs(units="K")),
    ("drop_vars", lambda a: a.drop_vars("lev")),
    ("reset_coords", lambda a: a.assign_coords(height=("lev", np.arange(a.sizes["lev"]))).reset_coords("height", drop=True)),
    ("expand_dims", lambda a: a.expand_dims("ens")),
    ("stack_unstack", lambda a: a.stack(tl=("time", "lev")).unstack("tl")),
    ("stack", lambda a: a.stack(tl=("time", "lev"))),
    ("sortby_time", lambda a: a.sortby("time", ascending=False)),
    ("reindex_time", lambda a: a.reindex(time=a["time"].values[::-1])),
    ("broadcast_like", lambda a: a.isel(time=0).broadcast_like(a)),
    ("interp_time", lambda a: a.interp(time=[float(a["time"].values[0]) + 1.0])),
    # ---- concatenation along non-grid dimensions
    ("concat_time", lambda a: xr.concat([a, a], dim="time")),
    ("concat_new_dim", lambda a: xr.concat([a, a + 1], dim="member")),
    ("concat_pieces", lambda a: xr.concat([a.isel(time=[0]), a.isel(time=[1])], dim="time")),
    # ---- copies
    ("copy_shallow", lambda a: a.copy(deep=False)),
    ("copy_copy", lambda a: copy.copy(a)),
    ("copy_shallow_data", lambda a: a.copy(deep=False, data=np.zeros(a.shape))),
    ("compute", lambda a: a.compute()),
    ("pipe", lambda a: a.pipe(lambda x: x * 2)),
    ("real", lambda a: a.real),
]

# operations whose result is a deep copy: equal but independent grid
DEEP = [
    ("copy_default", lambda a: a.copy()),                      # xarray: deep=True is the default
    ("copy_deep", lambda a: a.copy(deep=True)),
    ("copy_deep_data", lambda a: a.copy(deep=True, data=np.zeros(a.shape))),
    ("deepcopy", lambda a: copy.deepcopy(a)),
]

# xarray entry points that are functions rather than methods, reflected operands, and methods known to build the result
# from scratch: same contract
FUNCS = [
    ("mul_plain_left", lambda a: _w(a) * a),
    ("xr_where", lambda a: xr.where(a > 0, a, 0)),
    ("xr_apply_ufunc", lambda a: xr.apply_ufunc(np.square, a)),
    ("xr_zeros_like", lambda a: xr.zeros_like(a)),
    ("xr_ones_like", lambda a: xr.ones_like(a)),
    ("xr_full_like", lambda a: xr.full_like(a, 3)),
    ("xr_broadcast", lambda a: xr.broadcast(a, a.isel(time=0))[1]),
    ("xr_align", lambda a: xr.align(a, a.isel(time=[0, 1]), join="inner")[0]),
    ("xr_dot", lambda a: xr.dot(a, _w(a))),
    ("where_drop_non_grid", lambda a: a.where(a["time"] > a["time"].values[0], drop=True)),
    ("to_dataset_getitem", lambda a: a.to_dataset(name="v")["v"]),
    ("isel_positional_dict", lambda a: a.isel({"time": 0})),
    ("isel_positional_dict_two", lambda a: a.isel({"time": [0, 1], "lev": 0})),
]


def _iadd(a):
    b = a + 0
    b += 1
    return b


# operations that reach the same xarray machinery fail (or work) together: one failure key per family
FAMILY = {}
for _fam, _ops in {
    "numpy_ufuncs": ["np_sin", "np_exp", "np_sqrt_abs", "np_maximum", "np_add", "np_isnan", "np_negative", "np_clip", "np_mean_axis0"],
    "where_clip_fillna": ["where", "where_other", "clip", "fillna", "where_drop_non_grid"],
    "astype": ["astype_float32", "astype_int"],
    "isnull_notnull_isin": ["isnull", "notnull", "isin"],
    "dot": ["dot_lev", "xr_dot"],
    "rolling_coarsen": ["rolling_mean_time", "rolling_sum_center", "rolling_construct", "coarsen_time"],
    "xr_like_constructors": ["xr_zeros_like", "xr_ones_like", "xr_full_like"],
    "xr_where_apply_ufunc": ["xr_where", "xr_apply_ufunc"],
    "broadcast": ["broadcast_like", "xr_broadcast"],
    "deep_copy": ["copy_default", "copy_deep", "copy_deep_data", "deepcopy"],
    "isel_positional_dict": ["isel_positional_dict", "isel_positional_dict_two"],
    "own_topological_aggregation": ["own_topological_mean_face", "own_topological_mean_edge", "own_topological_max_face"],
    "own_remap": ["own_remap_nn_faces", "own_remap_nn_nodes", "own_remap_nn_faces_cartesian", "own_remap_idw_edges_cartesian"],
    "xarray_indexing_of_grid_dim": ["getitem_slice_grid_dim", "getitem_int_list_grid_dim", "isel_indexers_kw_grid_dim", "head_grid_dim",
                                    "sel_grid_dim", "loc_grid_dim", "drop_isel_grid_dim"],
}.items():
    for _o in _ops:
        FAMILY[_o] = _fam


def _fam(op_label):
    return "|".join(FAMILY.get(o, o) for o in op_label.split("|"))


# indexing that touches a grid dimension through the xarray interface: the result must be consistent with its grid
# (values as plain xarray, grid cut accordingly) - second sentence of the property
GRID_INDEXING = [
    ("getitem_slice_grid_dim", lambda a: a[..., :2]),
    ("getitem_int_list_grid_dim", lambda a: a[..., [1, 0]]),
    ("isel_indexers_kw_grid_dim", lambda a: a.isel(indexers={_gdim(a): [1, 0]})),
    ("isel_positional_dict_grid_dim", lambda a: a.isel({_gdim(a): [1, 0]})),
    # keyword isel on a grid dimension is uxarray's own (inclusive) grid slicing: only for faces does it select exactly the
    # given elements, so the comparison with plain xarray is made for face-centred arrays only (others: both sides raise -> skipped)
    ("isel_mixed_grid_and_time", lambda a: a.isel(**{"time": 0, "n_face": [1, 0]})),
    ("head_grid_dim", lambda a: a.head(**{_gdim(a): 2})),
    ("sel_grid_dim", lambda a: a.sel(**{_gdim(a): [0, 1]})),
    ("loc_grid_dim", lambda a: a.loc[{_gdim(a): [0, 1]}]),
    ("drop_isel_grid_dim", lambda a: a.drop_isel(**{_gdim(a): [0]})),
    ("where_drop_grid_dim", lambda a: a.where(xr.DataArray(np.arange(a.sizes[_gdim(a)]) < 2, dims=[_gdim(a)]), drop=True)),
]


# ------------------------------------------------------------------------------------------------- own operators
def _own_ops(dest_grid):
    return [
        ("own_isel_grid_dim", lambda a: a.isel(**{_gdim(a): [2, 0, 1]}), "new"),
        ("own_isel_n_node_on_any", lambda a: a.isel(n_node=[0]), "new"),
        ("own_integrate", lambda a: a.integrate(), "same"),
        ("own_gradient", lambda a: a.gradient(), "same"),
        ("own_difference_edge", lambda a: a.difference("edge"), "same"),
        ("own_topological_mean_face", lambda a: a.topological_mean("face"), "same"),
        ("own_topological_mean_edge", lambda a: a.topological_mean("edge"), "same"),
        ("own_topological_max_face", lambda a: a.topological_max("face"), "same"),
        ("own_remap_nn_faces", lambda a: a.remap.nearest_neighbor(dest_grid, "face centers"), "dest"),
        ("own_remap_nn_nodes", lambda a: a.remap.nearest_neighbor(dest_grid, "nodes"), "dest"),
        ("own_remap_nn_faces_cartesian", lambda a: a.remap.nearest_neighbor(dest_grid, "face centers", coord_type="cartesian"), "dest"),
        ("own_remap_idw_edges_cartesian", lambda a: a.remap.inverse_distance_weighted(dest_grid, "edge centers", coord_type="cartesian", k=2), "dest"),
        ("own_get_dual", lambda a: a.get_dual(), "new"),
        ("own_subset_nn", lambda a: a.subset.nearest_neighbor((float(a.uxgrid.node_lon[0]), float(a.uxgrid.node_lat[0])), 1, element="nodes"), "new"),
    ]


# ------------------------------------------------------------------------------------------------- checking
class _Ck:
    def __init__(self):
        self.failures, self.cases, self.distinct = [], 0, set()
        self.keys = set()
        self.ops_failed = {}

    def fail(self, key, what, violated, inputs, observed=None, expected=None):
        # key = clause:op_label[:detail]  ->  clause:family_label[:detail]
        parts = key.split(":")
        if len(parts) >= 2:
            self.ops_failed.setdefault((parts[0], _fam(parts[1])) + tuple(parts[2:]), set()).add(parts[1])
            parts[1] = _fam(parts[1])
            key = ":".join(parts)
        self.keys.add(key)

        def short(v):
            if v is None:
                return None
            s = repr(v.tolist() if hasattr(v, "tolist") else v)
            return s if len(s) < 240 else s[:240] + "..."
        self.failures.append({"key": key, "what": what, "violated": violated, "inputs": inputs, "observed": short(observed),
                              "expected": short(expected)})


def _plain(a):
    return xr.DataArray(np.array(a.values), dims=a.dims, coords={k: (v.dims, np.array(v.values)) for k, v in a.coords.items()},
                        name=a.name, attrs=dict(a.attrs))


def _counts(g):
    return {"n_node": int(g.n_node), "n_edge": int(g.n_edge), "n_face": int(g.n_face)}


def _dim_lengths_ok(r):
    bad = {}
    for d in r.dims:
        if d in GRID_DIMS:
            n = _counts(r.uxgrid)[d]
            if r.sizes[d] != n:
                bad[d] = (int(r.sizes[d]), n)
    return bad


def _values_equal(r, p):
    if tuple(r.dims) != tuple(p.dims):
        return "dims", list(r.dims), list(p.dims)
    rv, pv = np.asarray(r.values), np.asarray(p.values)
    if rv.shape != pv.shape:
        return "shape", rv.shape, pv.shape
    if rv.dtype != pv.dtype:
        return "dtype", str(rv.dtype), str(pv.dtype)
    if rv.dtype.kind in "fc":
        same = np.allclose(rv, pv, rtol=1e-12, atol=1e-12, equal_nan=True)
    elif rv.dtype.kind == "O":
        same = all((x == y) or (x != x and y != y) for x, y in zip(rv.ravel().tolist(), pv.ravel().tolist()))
    else:
        same = np.array_equal(rv, pv)
    if not same:
        return "values", rv, pv
    if set(r.coords) != set(p.coords):
        return "coords", sorted(map(str, r.coords)), sorted(map(str, p.coords))
    for c in p.coords:
        rc, pc = np.asarray(r[c].values), np.asarray(p[c].values)
        if rc.dtype.kind == "O" or pc.dtype.kind == "O":
            eq = rc.shape == pc.shape and [repr(x) for x in rc.ravel().tolist()] == [repr(x) for x in pc.ravel().tolist()]
        elif rc.dtype.kind in "fc" and pc.dtype.kind in "fc":
            eq = rc.shape == pc.shape and np.array_equal(rc, pc, equal_nan=True)
        else:
            eq = rc.shape == pc.shape and np.array_equal(rc, pc)
        if not eq:
            return "coord_values", str(c), None
    if r.name != p.name:
        return "name", r.name, p.name
    return None


def _check(ck, key_op, a, r, p, inputs, mode="same", grid0=None):
    """class invariant of one result.  mode: same | deep | cut (grid dimension indexed through xarray) | any"""
    ck.cases += 1
    if not isinstance(p, xr.DataArray):
        return True       # not an array-yielding operation
    if not isinstance(r, ux.UxDataArray):
        ck.fail(f"result_type:{key_op}", f"result is a {type(r).__module__.split('.')[0]}.{type(r).__name__}, the grid is lost",
                "returns a UxDataArray attached to the same grid", inputs, type(r).__name__, "UxDataArray")
        return False
    g0 = grid0 if grid0 is not None else a.uxgrid
    ok = True
    if r.uxgrid is None:
        ck.fail(f"grid_lost:{key_op}", "result.uxgrid is None", "attached to the same grid", inputs)
        return False
    if mode == "same" and r.uxgrid is not g0:
        ck.fail(f"same_grid:{key_op}", "result.uxgrid is not the operand's grid object", "attached to the same grid", inputs)
        ok = False
    if mode == "deep":
        if r.uxgrid is g0:
            ck.fail(f"deep_copy_grid_shared:{key_op}", "deep copy is attached to the very same grid object", "for deep copies an equal but independent grid", inputs)
            ok = False
        else:
            if not (r.uxgrid == g0):
                ck.fail(f"deep_copy_grid_not_equal:{key_op}", "grid of the deep copy does not compare equal", "an equal but independent grid", inputs)
                ok = False
            if r.uxgrid._ds is g0._ds or np.shares_memory(r.uxgrid.node_lon.values, g0.node_lon.values):
                ck.fail(f"deep_copy_grid_not_independent:{key_op}", "grid of the deep copy shares its state (internal dataset / coordinate "
                        "arrays) with the original grid: a change made through one is seen through the other",
                        "for deep copies an equal but independent grid", inputs)
                ok = False
    v = _values_equal(r, p)
    if v is not None:
        ck.fail(f"values:{key_op}:{v[0]}", f"result differs from plain xarray on the same data ({v[0]})",
                "values equal what plain xarray computes on the same data", inputs, v[1], v[2])
        ok = False
    bad = _dim_lengths_ok(r)
    if bad:
        ck.fail(f"grid_dim_length:{key_op}", "a grid dimension of the result has a length different from the element count of the attached grid: "
                + ", ".join(f"{d}: {x[0]} vs grid {x[1]}" for d, x in bad.items()),
                "a node, edge or face dimension's length equals the corresponding element count of the attached grid", inputs,
                {d: x[0] for d, x in bad.items()}, {d: x[1] for d, x in bad.items()})
        ok = False
    return ok


def _apply(f, x):
    try:
        return True, f(x)
    except Exception as e:  # noqa
        return False, e


def _base_arrays(rng, g, name):
    nt, nl = 3, 2
    out = []
    cnt = _counts(g)
    for dim, dtype in (("n_face", "float64"), ("n_node", "int64"), ("n_edge", "float64"), ("n_face", "bool")):
        n = cnt[dim]
        if dtype == "float64":
            vals = np.array([rng.uniform(-5, 5) for _ in range(nt * nl * n)]).reshape(nt, nl, n)
            vals[0, 0, 0] = np.nan if dim == "n_edge" else vals[0, 0, 0]
        elif dtype == "int64":
            vals = np.array([rng.randint(-4, 6) for _ in range(nt * nl * n)], dtype=np.int64).reshape(nt, nl, n)
        else:
            vals = np.array([rng.random() < 0.5 for _ in range(nt * nl * n)]).reshape(nt, nl, n)
        a = ux.UxDataArray(vals, dims=["time", "lev", dim], coords={"time": [10.0, 20.0, 40.0], "lev": [850.0, 500.0]}, uxgrid=g,
                           name="v", attrs={"long_name": "test"})
        out.append((f"{dim}:{dtype}", a))
    return out


def xarray_ops(tier, seed):
    rng = random.Random(seed * 4241 + 10)
    ck = _Ck()
    cat = mg.catalogue("quick", seed)
    closed = [m for m in cat if m["closed"]]
    small = [m for m in cat if not m["closed"] and m["n_face"] >= 3]
    meshes = [mg.quad_patch(2, 2), closed[seed % len(closed)], small[(seed * 5 + 3) % len(small)]]
    if tier == "thorough":
        meshes += [closed[(seed + 2) % len(closed)], small[(seed * 7 + 1) % len(small)], small[(seed * 11 + 6) % len(small)]]
    dest = mg.quad_patch(3, 2, lon0=-25.0, lat0=-12.0, d=9.0)
    samples = []
    single_fail = set()
    n_pairs = 0

    for mi, m in enumerate(meshes):
        g = grid_of(m)
        arrays = _base_arrays(rng, g, m["name"])
        if tier == "quick" and mi > 0:
            arrays = arrays[mi % 2::2]
        for aname, a in arrays:
            base_inputs = {"mesh": m["name"], "array": aname, "dims": list(a.dims)}
            p0 = _plain(a)
            # ---------------- depth 1
            results = {}
            for group, mode in ((OPS, "same"), (DEEP, "deep"), (FUNCS, "same"), (GRID_INDEXING, "cut")):
                for name, f in group:
                    okp, p = _apply(f, p0)
                    if not okp:
                        continue                      # plain xarray cannot do it on this array: not applicable
                    ck.distinct.add((m["name"], aname, name))
                    okr, r = _apply(f, a)
                    inputs = dict(base_inputs, op=name)
                    if not okr:
                        ck.cases += 1
                        ck.fail(f"raises:{name}:{type(r).__name__}", f"raises {type(r).__name__}: {str(r)[:160]} (plain xarray computes it)",
                                "returns a UxDataArray ... whose values equal what plain xarray computes", inputs)
                        single_fail.add(name)
                        continue
                    if mode == "cut":
                        good = _check(ck, name, a, r, p, inputs, mode="any")
                    else:
                        good = _check(ck, name, a, r, p, inputs, mode=mode)
                    if not good:
                        single_fail.add(name)
                    elif group is OPS or group is DEEP:
                        results[name] = (f, r, p, mode)
            if len(samples) < 3:
                samples.append(dict(base_inputs, ops=[n for n, _ in OPS[:4]]))
            # ---------------- depth 2: op2(op1(a)) for sound op1
            names = list(results)
            pairs = [(x, y) for x in names for y in [n for n, _ in OPS + DEEP]]
            if tier == "quick":
                rng.shuffle(pairs)
                pairs = pairs[:700 if mi == 0 else 350]
            lookup = dict(OPS + DEEP)
            for n1, n2 in pairs:
                if n2 in single_fail:
                    continue
                f1, r1, p1, mode1 = results[n1]
                f2 = lookup[n2]
                okp, p2 = _apply(f2, p1)
                if not okp:
                    continue
                n_pairs += 1
                ck.distinct.add((m["name"], aname, n1, n2))
                okr, r2 = _apply(f2, r1)
                inputs = dict(base_inputs, op=f"{n1} then {n2}")
                if not okr:
                    ck.cases += 1
                    ck.fail(f"raises:{n1}|{n2}:{type(r2).__name__}", f"raises {type(r2).__name__}: {str(r2)[:160]} (plain xarray computes it)",
                            "finite compositions of such operations", inputs)
                    continue
                mode2 = "deep" if n2 in dict(DEEP) else "same"
                # after a deep copy the reference grid is the copy's grid
                _check(ck, f"{n1}|{n2}", r1, r2, p2, inputs, mode=mode2, grid0=r1.uxgrid)

            # ---------------- uxarray's own operators, before and after xarray operations
            dgrid = grid_of(dest)
            xr_ops = [o for o in OPS if o[0] not in single_fail]
            rng2 = random.Random(seed * 31 + mi)
            for oname, of, gmode in _own_ops(dgrid):
                if oname == "own_get_dual" and not m["closed"]:
                    continue
                # own(a), own(xr(a)), xr(own(a))
                pre = [("", lambda x: x)] + [xr_ops[i] for i in rng2.sample(range(len(xr_ops)), min(len(xr_ops), 6 if tier == "quick" else 25))]
                for pname, pf in pre:
                    okx, x = _apply(pf, a)
                    if not okx or not isinstance(x, ux.UxDataArray) or not x.dims or x.dims[-1] not in GRID_DIMS:
                        continue                    # grid dimension not last: fixed scenario below
                    oko, r = _apply(of, x)
                    if not oko:
                        continue                    # the operator rejects this input: not C10's subject
                    label = oname if not pname else f"{pname}|{oname}"
                    inputs = dict(base_inputs, op=label.replace("|", " then "))
                    ck.cases += 1
                    ck.distinct.add((m["name"], aname, label))
                    if not isinstance(r, ux.UxDataArray) or r.uxgrid is None:
                        ck.fail(f"result_type:{oname}", "result of uxarray's own operator is not a UxDataArray with a grid",
                                "UxDataArray attached to a consistent grid", inputs, type(r).__name__)
                        continue
                    if gmode == "same" and r.uxgrid is not x.uxgrid:
                        ck.fail(f"same_grid:{oname}", "operator that stays on the grid returns another grid object", "attached to the same grid", inputs)
                    if gmode == "dest" and r.uxgrid is not dgrid:
                        ck.fail(f"dest_grid:{oname}", "remapped array is not attached to the destination grid", "attached to a consistent grid", inputs)
                    bad = _dim_lengths_ok(r)
                    if bad:
                        ck.fail(f"grid_dim_length:{oname}", "grid dimension length differs from the attached grid's element count: "
                                + ", ".join(f"{d}: {v[0]} vs grid {v[1]}" for d, v in bad.items()),
                                "a node, edge or face dimension's length equals the corresponding element count of the attached grid", inputs)
                        continue
                    if pname:
                        continue
                    # xarray operations after the own operator
                    pr = _plain(r)
                    post = xr_ops if tier == "thorough" else [xr_ops[i] for i in rng2.sample(range(len(xr_ops)), min(len(xr_ops), 25))]
                    for qname, qf in post:
                        okp, p2 = _apply(qf, pr)
                        if not okp:
                            continue
                        okr, r2 = _apply(qf, r)
                        inputs2 = dict(base_inputs, op=f"{oname} then {qname}")
                        n_pairs += 1
                        if not okr:
                            ck.cases += 1
                            ck.fail(f"raises:{oname}|{qname}:{type(r2).__name__}", f"raises {type(r2).__name__}: {str(r2)[:160]} (plain xarray computes it)",
                                    "interleaved with uxarray's own operations", inputs2)
                            continue
                        _check(ck, f"{oname}|{qname}", r, r2, p2, inputs2, mode="same")

    # ---------------- own operators on arrays whose grid dimension is not the last one (other dimension of the same length)
    for m in meshes[:2]:
        g = grid_of(m)
        dgrid = grid_of(dest)
        for dim, n in _counts(g).items():
            vals = np.arange(float(n * n)).reshape(n, n)
            a = ux.UxDataArray(vals, dims=["k", dim], uxgrid=g, name="v").transpose(dim, "k")      # reachable: transposition
            for oname, of, gmode in _own_ops(dgrid):
                if oname in ("own_integrate",) or (oname == "own_get_dual" and not m["closed"]):
                    continue                        # integrate: C06
                oko, r = _apply(of, a)
                if not oko or not isinstance(r, ux.UxDataArray) or r.uxgrid is None:
                    continue
                ck.cases += 1
                ck.distinct.add((m["name"], dim, oname, "grid_dim_first"))
                bad = _dim_lengths_ok(r)
                if bad:
                    ck.fail(f"grid_dim_length:{oname}:grid_dim_not_last", f"{oname[4:]} of an array with dims ({dim}, k) returns dims {list(r.dims)} where "
                            + ", ".join(f"{d} has length {v[0]} but the grid has {v[1]}" for d, v in bad.items()),
                            "a node, edge or face dimension's length equals the corresponding element count of the attached grid",
                            {"mesh": m["name"], "array": f"UxDataArray(dims=[k, {dim}], shape=[{n}, {n}]).transpose({dim}, k)", "op": oname[4:]}, list(r.shape))

    # ---------------- grid-dimension indexing applied to the result of grid-dimension indexing (a subset of a subset)
    for m in meshes:
        nf = m["n_face"]
        if nf < 5:
            continue
        g = grid_of(m)
        first = [3, 1, 4, 2] if nf >= 5 else list(range(nf))
        for lead, dims in (((), ["n_face"]), ((2,), ["time", "n_face"])):
            vals = np.arange(float(int(np.prod(lead + (nf,))))).reshape(lead + (nf,)) + 100.0
            a = ux.UxDataArray(vals, dims=dims, uxgrid=g, name="v")
            for second, between in (([1, 0], None), ([2], "mean_if_time"), ([0, 3], "times_two")):
                ck.cases += 1
                ck.distinct.add((m["name"], tuple(dims), tuple(second), between))
                inputs = {"mesh": m["name"], "array": "face-centred", "dims": dims,
                          "op": f"isel(n_face={first}) then {between or 'nothing'} then isel(n_face={second})"}
                try:
                    r1 = a.isel(n_face=first)
                    exp = vals[..., first]
                    if between == "times_two":
                        r1, exp = r1 * 2.0, exp * 2.0
                    if between == "mean_if_time" and "time" in r1.dims:
                        r1, exp = r1.mean("time"), exp.mean(axis=0)
                    r2 = r1.isel(n_face=second)
                    exp = exp[..., second]
                except Exception as e:  # noqa: BLE001
                    ck.fail(f"raises:own_isel_grid_dim|own_isel_grid_dim:{type(e).__name__}", f"raises {type(e).__name__}: {str(e)[:160]}",
                            "finite compositions of such operations", inputs)
                    continue
                got = np.asarray(r2.values)
                if got.shape != exp.shape or not np.array_equal(got, exp):
                    ck.fail("values:own_isel_grid_dim|own_isel_grid_dim", "indexing the face dimension of an already face-indexed array does not "
                            "select the requested elements of that array", "values equal what plain xarray computes on the same data", inputs, got, exp)
                bad = _dim_lengths_ok(r2)
                if bad:
                    ck.fail("grid_dim_length:own_isel_grid_dim|own_isel_grid_dim", "grid dimension length differs from the attached grid's element count",
                            "a node, edge or face dimension's length equals the corresponding element count of the attached grid", inputs)

    # ---------------- deep copy independence seen through the public interface
    g = grid_of(mg.quad_patch(2, 1))
    a = ux.UxDataArray(np.arange(2.0), dims=["n_face"], uxgrid=g, name="v")
    b = a.copy(deep=True)
    ck.cases += 1
    before = float(g.node_lon.values[0])
    try:
        b.uxgrid.node_lon.values[0] = before + 1.0
        if float(g.node_lon.values[0]) != before:
            ck.fail("deep_copy_grid_not_independent:write_through", "writing a node longitude through the deep copy's grid changes the original grid",
                    "for deep copies an equal but independent grid", {"mesh": "quads2x1", "op": "b = a.copy(deep=True); b.uxgrid.node_lon.values[0] += 1"},
                    float(g.node_lon.values[0]), before)
    finally:
        g.node_lon.values[0] = before

    # a depth-2 key is only news when neither of its halves failed alone
    fails = []
    singles = {f["key"] for f in ck.failures if "|" not in f["key"]}
    for f in ck.failures:
        k = f["key"]
        if "|" in k:
            clause, rest = k.split(":", 1)
            ops = rest.split(":")[0].split("|")
            if any(f"{clause}:{o}" in singles or any(s.startswith(f"{clause}:{o}:") for s in singles) for o in ops):
                continue
        allops = ck.ops_failed.get(tuple(k.split(":")))
        if allops and len(allops) > 1:
            f = dict(f, inputs=dict(f["inputs"], all_failing_ops_of_family=sorted(allops)))
        fails.append(f)
    bound = (f"{len(meshes)} meshes x face/node/edge-centred arrays (time, lev, n_*) of float / int / bool; {len(OPS)} xarray methods + "
             f"{len(DEEP)} deep copies + {len(FUNCS)} function-style entry points + {len(GRID_INDEXING)} ways of indexing a grid dimension through "
             f"xarray, all at depth 1; {n_pairs} applicable depth-2 compositions ("
             + ("random sample" if tier == "quick" else "all pairs") + "); 12 own operators before / after xarray operations")
    return result(ck.cases, len(ck.distinct), fails, bound, samples)
