"""C20: exhaustive truth table of Grid.__eq__ on real grids (replay of the boolean counter-model and bounded stand-in)"""
import itertools

import numpy as np

from .common import FILL, grid_from, mixed_grid, result


def _variants():
    lon, lat, faces = mixed_grid()
    out = []
    for spec_same, lon_same, lat_same, fnc_same in itertools.product([True, False], repeat=4):
        lon2, lat2, f2 = lon.copy(), lat.copy(), faces.copy()
        if not lon_same:
            lon2[3] += 1.0
        if not lat_same:
            lat2[5] -= 1.0
        if not fnc_same:
            f2[2] = [5, 7, 6, FILL]
        g1 = grid_from(lon, lat, faces)
        g2 = grid_from(lon2, lat2, f2)
        if not spec_same:
            g2.source_grid_spec = "Other Format"
        out.append(((spec_same, lon_same, lat_same, fnc_same), g1, g2))
    return out


def _check_all():
    failures = []
    n = 0
    for key, g1, g2 in _variants():
        expect = all(key)
        for a, b, tag in ((g1, g2, "a==b"), (g2, g1, "b==a")):
            n += 1
            got = (a == b)
            if bool(got) != expect:
                failures.append({"what": f"{tag} is {got}, expected {expect}", "violated": "iff(result, same format and lon and lat and connectivity equal)",
                                 "inputs": dict(zip(("spec_same", "lon_same", "lat_same", "conn_same"), key))})
            n += 1
            if bool(a != b) != (not bool(got)):
                failures.append({"what": "!= is not the negation of ==", "inputs": dict(zip(("spec_same", "lon_same", "lat_same", "conn_same"), key))})
    lon, lat, faces = mixed_grid()
    g = grid_from(lon, lat, faces)
    n += 3
    if not (g == g):
        failures.append({"what": "not reflexive"})
    if g == 5 or g == "x":
        failures.append({"what": "equal to a non-Grid"})
    if not (g == g.copy()):
        failures.append({"what": "copy not equal"})
    # number of nodes / faces differs
    g3 = grid_from(lon[:5], lat[:5], faces[:2])
    n += 1
    if g == g3:
        failures.append({"what": "grids with different node/face counts compare equal"})
    return n, failures


def replay_eq(replay):
    n, failures = _check_all()
    if failures:
        return {"verdict": "reproduced", "violated": failures[0].get("violated", failures[0]["what"]), "witness": failures[0],
                "cases": n}
    return {"verdict": "not-reproduced", "cases": n}


def eq_matrix(tier, seed):
    n, failures = _check_all()
    return result(n, n, failures, "exhaustive: 16 combinations of (format, lon, lat, connectivity) equal/different x both "
                  "orders, plus reflexivity, copy, non-Grid, different sizes")
